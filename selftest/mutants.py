# one-edit mutants of /repo used by selftest/run.py. Every mutant must still compile.
# fields: id, prop, file, find, replace, [count, which] (when the pattern occurs several times), expect (substring
# of the checker output) or expect_silent (behaviour-preserving edit: the check must stay quiet)
MUTANTS = [
 # ---- C01 SR-1
 dict(id='c01-restore-dropped', prop='C01', file='src/alignment/pairwise/mod.rs',
      find='        self.scoring.xclip_suffix = clip_penalties[1];\n', replace='', count=3, which=1,
      expect='semiglobal|restore|self.scoring.xclip_suffix'),
 dict(id='c01-restore-swapped', prop='C01', file='src/alignment/pairwise/mod.rs',
      find='        self.scoring.yclip_prefix = clip_penalties[2];\n',
      replace='        self.scoring.yclip_prefix = clip_penalties[3];\n', count=3, which=2,
      expect='local|restore|self.scoring.yclip_prefix'),
 dict(id='c01-mode-wrong', prop='C01', file='src/alignment/pairwise/mod.rs',
      find='        self.scoring.yclip_prefix = 0;\n        self.scoring.yclip_suffix = 0;\n\n        // Compute the alignment\n        let mut alignment = self.custom(x, y);\n        alignment.mode = AlignmentMode::Semiglobal;',
      replace='        self.scoring.yclip_prefix = 0;\n        self.scoring.yclip_suffix = MIN_SCORE;\n\n        // Compute the alignment\n        let mut alignment = self.custom(x, y);\n        alignment.mode = AlignmentMode::Semiglobal;',
      expect='semiglobal|mode|yclip_suffix'),
 dict(id='c01-restore-reordered-ok', prop='C01', file='src/alignment/pairwise/mod.rs',
      find='        self.scoring.xclip_prefix = clip_penalties[0];\n        self.scoring.xclip_suffix = clip_penalties[1];\n',
      replace='        self.scoring.xclip_suffix = clip_penalties[1];\n        self.scoring.xclip_prefix = clip_penalties[0];\n',
      count=3, which=0, expect_silent=True),
 # ---- C01 RI-1
 dict(id='c01-sn-clear-dropped', prop='C01', file='src/alignment/pairwise/mod.rs',
      find='                self.Sn.clear();\n', replace='', expect='first-touch-is-reset|self.Sn'),
 dict(id='c01-lx-reset-in-second-iter', prop='C01', file='src/alignment/pairwise/mod.rs',
      find='                self.Lx.clear();\n                self.Lx.extend(repeat(0usize).take(n + 1));\n',
      replace='', expect='first-touch-is-reset|self.Lx'),
 dict(id='c01-d-clear-dropped', prop='C01', file='src/alignment/pairwise/mod.rs',
      find='            self.D[k].clear();\n', replace='', expect='first-touch-is-reset|self.D[0]'),
 dict(id='c01-tb-matrix-clear-dropped', prop='C01', file='src/alignment/pairwise/mod.rs',
      find='        self.matrix.clear();\n', replace='', expect='first-touch-is-reset|self.traceback.matrix'),
 dict(id='c01-clear-reordered-ok', prop='C01', file='src/alignment/pairwise/mod.rs',
      find='            self.I[k].clear();\n            self.D[k].clear();\n',
      replace='            self.D[k].clear();\n            self.I[k].clear();\n', expect_silent=True),
 dict(id='c01-guard-k1-lx', prop='C01', file='src/alignment/pairwise/mod.rs',
      find='            if k == 0 {\n                let mut tb = TracebackCell::new();\n                tb.set_all(TB_START);\n                self.traceback.set(0, 0, tb);\n                self.Lx.clear();',
      replace='            if k == 0 {\n                let mut tb = TracebackCell::new();\n                tb.set_all(TB_START);\n                self.traceback.set(0, 0, tb);\n            }\n            if k == 1 {\n                self.Lx.clear();',
      expect='first-touch-is-reset|self.Lx'),
]
