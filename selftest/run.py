#!/usr/bin/env python3
"""Checker self-test (not a registered check): applies one-edit mutants to a scratch copy of /repo (outside /repo and
/verif, removed afterwards) and asserts that the named property check fires with the expected rule/key substring,
and that the unmodified copy is silent.   usage: selftest/run.py [--only ID,ID] [--prop C01] [--refactors [NAME,..]]
A mutant may name a behaviour-preserving refactoring (selftest/refactors/<pre>.diff) that is applied first: the edit is
then made to the refactored source.  --refactors applies each stored refactoring alone and requires every property check
to stay silent (false-alarm test)."""
import os, re, shutil, subprocess, sys, tempfile, json
HERE = os.path.dirname(os.path.abspath(__file__))
VERIF = os.path.dirname(HERE)
sys.path.insert(0, HERE)
from mutants import MUTANTS

def sh(cmd, **kw):
    return subprocess.run(cmd, shell=True, stdout=subprocess.PIPE, stderr=subprocess.STDOUT, text=True, **kw)

def main():
    only = None; prop = None; refac = None
    a = sys.argv[1:]
    tier = ['--tier', a[a.index('--tier')+1]] if '--tier' in a else []
    if '--refactors' in a:
        i = a.index('--refactors')
        refac = set(a[i+1].split(',')) if i + 1 < len(a) and not a[i+1].startswith('--') else 'all' 
    if '--only' in a: only = set(a[a.index('--only')+1].split(','))
    if '--prop' in a: prop = set(a[a.index('--prop')+1].split(','))
    scratch = tempfile.mkdtemp(prefix='biomut-')
    evdir = tempfile.mkdtemp(prefix='bioev-')
    env = dict(os.environ, VERIF_EVIDENCE_DIR=evdir)
    res = []
    try:
        sh('rsync -a --exclude target --exclude .git /repo/ %s/' % scratch)
        def restore():
            sh('rsync -a --delete --exclude target --exclude .git /repo/ %s/' % scratch)
        if '--seeds' in a:
            sdir = os.path.join(VERIF, 'seeded')
            for d in sorted(os.listdir(sdir)):
                if not d.startswith('C') or (only and d not in only):
                    continue
                meta = json.load(open(os.path.join(sdir, d, 'meta.json')))
                r0 = sh('cd %s && patch -p1 -s < %s' % (scratch, os.path.join(sdir, d, 'patch.diff')))
                if r0.returncode != 0:
                    res.append(('seed:' + d, 'STALE', r0.stdout[-300:])); restore(); continue
                r = subprocess.run([os.path.join(VERIF, 'bin', 'check'), d[:3], '--root', scratch], env=env,
                                   stdout=subprocess.PIPE, stderr=subprocess.STDOUT, text=True)
                got = r.returncode == 1
                if r.returncode == 2:
                    res.append(('seed:' + d, 'BROKEN', r.stdout[-400:]))
                elif got == bool(meta.get('detected')):
                    res.append(('seed:' + d, 'ok-caught' if got else 'ok-known-miss', ''))
                else:
                    res.append(('seed:' + d, 'REGRESSION' if meta.get('detected') else 'NEWLY-CAUGHT (update meta.json)', r.stdout[-400:]))
                restore()
        if refac:
            rdir = os.path.join(HERE, 'refactors')
            names = sorted(f[:-5] for f in os.listdir(rdir) if f.endswith('.diff'))
            allp = ['C%02d' % i for i in range(1, 21)]
            for nm in names:
                if refac != 'all' and nm not in refac: continue
                r0 = sh('cd %s && patch -p1 -s < %s' % (scratch, os.path.join(rdir, nm + '.diff')))
                if r0.returncode != 0:
                    res.append(('refactor:' + nm, 'STALE', r0.stdout[-300:])); restore(); continue
                # first check extracts, the others run in parallel on the cached facts
                procs = []
                first = subprocess.run([os.path.join(VERIF, 'bin', 'check'), allp[0], '--root', scratch] + tier, env=env,
                                       stdout=subprocess.PIPE, stderr=subprocess.STDOUT, text=True)
                outs = {allp[0]: (first.returncode, first.stdout)}
                for p in allp[1:]:
                    procs.append((p, subprocess.Popen([os.path.join(VERIF, 'bin', 'check'), p, '--root', scratch] + tier, env=env,
                                                      stdout=subprocess.PIPE, stderr=subprocess.STDOUT, text=True)))
                for p, pr in procs:
                    o, _ = pr.communicate()
                    outs[p] = (pr.returncode, o)
                alarms = [p for p in allp if outs[p][0] != 0]
                if alarms:
                    res.append(('refactor:' + nm, 'FALSE-ALARM', '\n'.join('%s: %s' % (p, outs[p][1][-500:]) for p in alarms)))
                else:
                    res.append(('refactor:' + nm, 'ok-silent', ''))
                restore()
        for m in MUTANTS:
            if (refac or '--seeds' in a) and not only and not prop: break
            if only and m['id'] not in only: continue
            if prop and m['prop'] not in prop: continue
            if m.get('pre'):
                r0 = sh('cd %s && patch -p1 -s < %s' % (scratch, os.path.join(HERE, 'refactors', m['pre'] + '.diff')))
                if r0.returncode != 0:
                    res.append((m['id'], 'STALE', 'refactoring %s does not apply: %s' % (m['pre'], r0.stdout[-200:])))
                    restore(); continue
            path = os.path.join(scratch, m['file'])
            orig = open(path).read()
            cnt = orig.count(m['find'])
            want_cnt = m.get('count', 1)
            if cnt != want_cnt:
                res.append((m['id'], 'STALE', 'pattern occurs %d times (want %d)' % (cnt, want_cnt)))
                if m.get('pre'): restore()
                continue
            which = m.get('which', 0)
            if want_cnt == 1:
                new = orig.replace(m['find'], m['replace'])
            else:
                parts = orig.split(m['find'])
                new = m['find'].join(parts[:which+1]) + m['replace'] + m['find'].join(parts[which+1:])
            open(path, 'w').write(new)
            try:
                r = subprocess.run([os.path.join(VERIF, 'bin', 'check'), m['prop'], '--root', scratch], env=env,
                                   stdout=subprocess.PIPE, stderr=subprocess.STDOUT, text=True)
                out = r.stdout
                if r.returncode == 2:
                    res.append((m['id'], 'BROKEN', out[-600:]))
                elif m.get('expect_silent'):
                    res.append((m['id'], 'ok-silent' if r.returncode == 0 else 'FALSE-ALARM', out[-600:] if r.returncode else ''))
                elif r.returncode == 1 and m['expect'] in out:
                    res.append((m['id'], 'ok-caught', ''))
                elif r.returncode == 1:
                    res.append((m['id'], 'WRONG-REPORT', out[-800:]))
                else:
                    res.append((m['id'], 'MISSED', out[-300:]))
            finally:
                open(path, 'w').write(orig)
                if m.get('pre'): restore()
        # unmodified copy must be silent for every property touched
        props = sorted({m['prop'] for m in MUTANTS if (not prop or m['prop'] in prop)})
        if not only and not ((refac or '--seeds' in a) and not prop):
            for p in props:
                r = subprocess.run([os.path.join(VERIF, 'bin', 'check'), p, '--root', scratch], env=env,
                                   stdout=subprocess.PIPE, stderr=subprocess.STDOUT, text=True)
                res.append(('clean:' + p, 'ok-silent' if r.returncode == 0 else 'NOT-SILENT', r.stdout[-600:] if r.returncode else ''))
    finally:
        shutil.rmtree(scratch, ignore_errors=True)
        shutil.rmtree(evdir, ignore_errors=True)
    bad = 0
    for i, s, d in res:
        print('%-40s %s' % (i, s))
        if not s.startswith('ok'):
            bad += 1
            print('    ' + d.replace('\n', '\n    '))
    print('%d results, %d not ok' % (len(res), bad))
    return 1 if bad else 0

if __name__ == '__main__':
    sys.exit(main())
