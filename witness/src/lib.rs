//! Compile-fail witnesses (type-level remainder of the static rules). Each witness is a `compile_fail,E....` doc-test
//! paired with a compiling twin that differs only by the offending line. Run with `cargo +nightly test --doc`
//! (error codes are honoured on nightly only).

/// C07 / W1: the mutable iterator must not allow changing a stored interval (ordering invariant of the tree).
///
/// ```compile_fail,E0594
/// use bio::data_structures::interval_tree::IntervalTree;
/// let mut t: IntervalTree<i64, u32> = IntervalTree::new();
/// t.insert(1..5, 0u32);
/// for e in t.find_mut(0..10) {
///     e.interval().start = 7; // `interval()` hands out `&Interval`
/// }
/// ```
///
/// twin (compiles): the data may be changed.
/// ```no_run
/// use bio::data_structures::interval_tree::IntervalTree;
/// let mut t: IntervalTree<i64, u32> = IntervalTree::new();
/// t.insert(1..5, 0u32);
/// for mut e in t.find_mut(0..10) {
///     *e.data() = 7;
/// }
/// ```
pub struct C07W1;

/// C07 / W3: the array-backed tree's `indexed` flag and entries are private: user code cannot mark a tree indexed.
///
/// ```compile_fail,E0616
/// use bio::data_structures::interval_tree::ArrayBackedIntervalTree;
/// let mut t: ArrayBackedIntervalTree<i64, u32> = ArrayBackedIntervalTree::new();
/// t.insert(1..5, 0u32);
/// t.indexed = true;
/// ```
///
/// twin (compiles):
/// ```no_run
/// use bio::data_structures::interval_tree::ArrayBackedIntervalTree;
/// let mut t: ArrayBackedIntervalTree<i64, u32> = ArrayBackedIntervalTree::new();
/// t.insert(1..5, 0u32);
/// t.index();
/// ```
pub struct C07W3;

/// C08 / W2: one matcher can serve two simultaneous searches, i.e. `find_all` needs only `&self`
/// (a matcher that needed `&mut self` would be rejected here with E0499/E0502).
///
/// ```no_run
/// use bio::pattern_matching::{bndm::BNDM, bom::BOM, horspool::Horspool, kmp::KMP, shift_and::ShiftAnd};
/// let p = b"ACA";
/// let (t1, t2) = (b"ACACA".to_vec(), b"TTACA".to_vec());
/// let m = BNDM::new(p); let (a, b) = (m.find_all(&t1), m.find_all(&t2)); assert_eq!(a.count() + b.count(), 3);
/// let m = BOM::new(p); let (a, b) = (m.find_all(&t1), m.find_all(&t2)); assert_eq!(a.count() + b.count(), 3);
/// let m = Horspool::new(p); let (a, b) = (m.find_all(&t1), m.find_all(&t2)); assert_eq!(a.count() + b.count(), 3);
/// let m = KMP::new(p); let (a, b) = (m.find_all(&t1), m.find_all(&t2)); assert_eq!(a.count() + b.count(), 3);
/// let m = ShiftAnd::new(p); let (a, b) = (m.find_all(&t1), m.find_all(&t2)); assert_eq!(a.count() + b.count(), 3);
/// ```
///
/// The matcher state is not reachable for mutation from outside:
/// ```compile_fail,E0616
/// use bio::pattern_matching::bndm::BNDM;
/// let mut m = BNDM::new(b"ACA");
/// m.m = 65;
/// ```
pub struct C08W2;

/// C02 / W4: the banded core routine that relies on a freshly built band is not callable from outside.
///
/// ```compile_fail,E0624
/// use bio::alignment::pairwise::banded::Aligner;
/// let score = |a: u8, b: u8| if a == b { 1i32 } else { -1i32 };
/// let mut a = Aligner::new(-5, -1, score, 8, 6);
/// let _ = a.compute_alignment(b"ACGT", b"ACGT");
/// ```
///
/// twin (compiles):
/// ```no_run
/// use bio::alignment::pairwise::banded::Aligner;
/// let score = |a: u8, b: u8| if a == b { 1i32 } else { -1i32 };
/// let mut a = Aligner::new(-5, -1, score, 8, 6);
/// let _ = a.custom(b"ACGT", b"ACGT");
/// ```
pub struct C02W4;

/// C10 / W5: the lazy matcher offers no way to run the unguarded traceback: the `Traceback` type and its methods are
/// not nameable outside the crate.
///
/// ```compile_fail,E0603
/// use bio::pattern_matching::myers::traceback::Traceback;
/// ```
///
/// twin (compiles): the guarded lazy API.
/// ```no_run
/// use bio::pattern_matching::myers::Myers;
/// let mut m = Myers::<u64>::new(b"ACGT");
/// let text = b"TTACGTTT";
/// let mut lazy = m.find_all_lazy(text, 1);
/// let first = lazy.next();
/// assert!(first.is_some());
/// assert!(lazy.hit_at(text.len() + 10).is_none());
/// ```
pub struct C10W5;

/// C18 / W6: BitEnc's packing parameters are private (the unit-consistency rule relies on `usable_bits_per_block` being
/// written only by the constructors).
///
/// ```compile_fail,E0616
/// use bio::data_structures::bitenc::BitEnc;
/// let mut b = BitEnc::new(3);
/// b.usable_bits_per_block = 32;
/// ```
///
/// twin (compiles):
/// ```no_run
/// use bio::data_structures::bitenc::BitEnc;
/// let mut b = BitEnc::new(3);
/// b.push(5);
/// assert_eq!(b.get(0), Some(5));
/// ```
pub struct C18W6;
