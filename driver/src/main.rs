// biofacts: rustc_private driver that dumps type-checked MIR (mir_built) and type
// facts of the local crate as one JSON file.  Injected with RUSTC_WORKSPACE_WRAPPER.
//
// Environment:
//   BIOFACTS_OUT    path of the JSON fact file (required for the target crate)
//   BIOFACTS_CRATE  crate name to analyse (default "bio")
//   BIOFACTS_NONCE  copied into the fact file
#![feature(rustc_private)]
#![allow(clippy::all)]

extern crate rustc_abi;
extern crate rustc_driver;
extern crate rustc_hir;
extern crate rustc_interface;
extern crate rustc_middle;
extern crate rustc_span;

use rustc_driver::Compilation;
use rustc_hir::def::DefKind;
use rustc_hir::def_id::{DefId, LocalDefId, LOCAL_CRATE};
use rustc_middle::mir::{
    self, AggregateKind, AssertKind, BorrowKind, Body, Const, ConstValue, Operand, Place,
    ProjectionElem, Rvalue, StatementKind, TerminatorKind, UnwindAction,
};
use rustc_middle::mir::PlaceTy;
use rustc_middle::ty::{self, Ty, TyCtxt, TypingEnv};
use rustc_span::Span;
use std::fmt::Write as _;

mod json;
use json::J;

struct Cb;

impl rustc_driver::Callbacks for Cb {
    fn after_expansion<'tcx>(
        &mut self,
        _c: &rustc_interface::interface::Compiler,
        tcx: TyCtxt<'tcx>,
    ) -> Compilation {
        let want = std::env::var("BIOFACTS_CRATE").unwrap_or_else(|_| "bio".to_string());
        if tcx.crate_name(LOCAL_CRATE).as_str() != want {
            return Compilation::Continue;
        }
        let out = match std::env::var("BIOFACTS_OUT") {
            Ok(o) => o,
            Err(_) => return Compilation::Continue,
        };
        // only the lib target (not build scripts / tests of the same name)
        let j = rustc_middle::ty::print::with_no_trimmed_paths!(dump(tcx));
        let mut s = String::new();
        j.write(&mut s);
        let tmp = format!("{}.tmp.{}", out, std::process::id());
        std::fs::write(&tmp, s).expect("write facts");
        std::fs::rename(&tmp, &out).expect("rename facts");
        Compilation::Continue
    }
}

fn main() {
    let mut args: Vec<String> = std::env::args().collect();
    // RUSTC_WORKSPACE_WRAPPER passes the real rustc as argv[1]
    if args.len() > 1 && (args[1].ends_with("rustc") || args[1].contains("/rustc")) {
        args.remove(1);
    }
    rustc_driver::run_compiler(&args, &mut Cb);
}

fn span_info(tcx: TyCtxt<'_>, sp: Span) -> (String, i128, bool) {
    let sm = tcx.sess.source_map();
    let exp = sp.from_expansion();
    // for macro-expanded code report the call site
    let sp2 = if exp { sp.source_callsite() } else { sp };
    let lo = sm.lookup_char_pos(sp2.lo());
    let file = match &lo.file.name {
        rustc_span::FileName::Real(r) => match r.local_path() {
            Some(p) => p.display().to_string(),
            None => format!("{:?}", r),
        },
        other => format!("{:?}", other),
    };
    (file, lo.line as i128, exp)
}

struct Cx<'a, 'tcx> {
    tcx: TyCtxt<'tcx>,
    body: &'a Body<'tcx>,
    def: LocalDefId,
    env: TypingEnv<'tcx>,
}

fn dump<'tcx>(tcx: TyCtxt<'tcx>) -> J {
    // phase 1: snapshot mir_built of every fn-like body before anything can steal it
    let mut snap: Vec<(LocalDefId, Body<'tcx>)> = Vec::new();
    for def in tcx.hir_body_owners() {
        let kind = tcx.def_kind(def);
        if !matches!(kind, DefKind::Fn | DefKind::AssocFn | DefKind::Closure) {
            continue;
        }
        let b = tcx.mir_built(def).borrow().clone();
        snap.push((def, b));
    }
    let mut bodies = Vec::new();
    for (def, body) in snap.iter() {
        bodies.push(dump_body(tcx, *def, body));
    }
    let mut top = vec![
        ("crate", J::s(tcx.crate_name(LOCAL_CRATE).as_str())),
        ("nonce", J::s(&std::env::var("BIOFACTS_NONCE").unwrap_or_default())),
        ("bodies", J::Arr(bodies)),
    ];
    top.push(("adts", dump_adts(tcx)));
    top.push(("consts", dump_consts(tcx)));
    top.push(("statics", dump_statics(tcx)));
    top.push(("impls", dump_impls(tcx)));
    J::Obj(top)
}

fn self_kind<'tcx>(tcx: TyCtxt<'tcx>, def: LocalDefId, body: &Body<'tcx>) -> &'static str {
    if tcx.def_kind(def) != DefKind::AssocFn {
        return "none";
    }
    let ai = tcx.associated_item(def.to_def_id());
    if !ai.is_method() {
        return "none";
    }
    if body.arg_count == 0 {
        return "none";
    }
    let t = body.local_decls[mir::Local::from_usize(1)].ty;
    match t.kind() {
        ty::Ref(_, _, m) => {
            if m.is_mut() {
                "mut"
            } else {
                "ref"
            }
        }
        _ => "value",
    }
}

fn dump_body<'tcx>(tcx: TyCtxt<'tcx>, def: LocalDefId, body: &Body<'tcx>) -> J {
    let did = def.to_def_id();
    let kind = tcx.def_kind(def);
    let env = TypingEnv::post_analysis(tcx, did);
    let cx = Cx { tcx, body, def, env };
    let (file, line, _) = span_info(tcx, body.span);
    let mut o: Vec<(&'static str, J)> = Vec::new();
    o.push(("path", J::s(&tcx.def_path_str(did))));
    o.push(("kind", J::s(&format!("{:?}", kind))));
    o.push(("name", J::s(&tcx.opt_item_name(did).map(|s| s.to_string()).unwrap_or_default())));
    o.push(("file", J::s(&file)));
    o.push(("line", J::Num(line)));
    if kind == DefKind::Closure {
        let p = tcx.typeck_root_def_id(did);
        o.push(("root", J::s(&tcx.def_path_str(p))));
        o.push(("parent", J::s(&tcx.def_path_str(tcx.parent(did)))));
        // captured variables
        let mut caps = Vec::new();
        for c in tcx.closure_captures(def) {
            caps.push(J::Obj(vec![
                ("var", J::s(c.var_ident.name.as_str())),
                ("place", J::s(&format!("{:?}", c.place))),
                ("by_ref", J::Bool(matches!(c.info.capture_kind, ty::UpvarCapture::ByRef(_)))),
            ]));
        }
        o.push(("captures", J::Arr(caps)));
    } else {
        // impl info
        let parent = tcx.parent(did);
        if matches!(tcx.def_kind(parent), DefKind::Impl { .. }) {
            let st = tcx.type_of(parent).instantiate_identity().skip_norm_wip();
            o.push(("impl_self", J::s(&st.to_string())));
            if let ty::Adt(a, _) = st.kind() {
                o.push(("impl_adt", J::s(&tcx.def_path_str(a.did()))));
            }
            if let Some(tr) = tcx.impl_opt_trait_ref(parent) {
                let tr = tr.instantiate_identity().skip_norm_wip();
                o.push(("impl_trait", J::s(&tcx.def_path_str(tr.def_id))));
                o.push(("impl_trait_full", J::s(&tr.to_string())));
            }
        } else if tcx.def_kind(parent) == DefKind::Trait {
            o.push(("in_trait", J::s(&tcx.def_path_str(parent))));
        }
        if matches!(kind, DefKind::Fn | DefKind::AssocFn) {
            o.push(("pub", J::Bool(tcx.visibility(did).is_public())));
            let ev = tcx.effective_visibilities(());
            o.push(("reachable", J::Bool(ev.is_reachable(def))));
            let sig = tcx.fn_sig(did).instantiate_identity().skip_norm_wip().skip_binder();
            o.push((
                "inputs",
                J::Arr(sig.inputs().iter().map(|t| J::s(&t.to_string())).collect()),
            ));
            o.push(("output", J::s(&sig.output().to_string())));
        }
        o.push(("self_kind", J::s(self_kind(tcx, def, body))));
    }
    o.push(("arg_count", J::Num(body.arg_count as i128)));
    // locals
    let mut names: Vec<Option<String>> = vec![None; body.local_decls.len()];
    let mut upvars = Vec::new();
    for vdi in body.var_debug_info.iter() {
        if let mir::VarDebugInfoContents::Place(p) = &vdi.value {
            if p.projection.is_empty() {
                names[p.local.as_usize()] = Some(vdi.name.to_string());
            } else {
                upvars.push(J::Obj(vec![
                    ("name", J::s(vdi.name.as_str())),
                    ("p", cx.place(p)),
                ]));
            }
        }
    }
    let mut locals = Vec::new();
    for (l, d) in body.local_decls.iter_enumerated() {
        let mut lo = vec![("ty", J::s(&d.ty.to_string()))];
        if let Some(n) = &names[l.as_usize()] {
            lo.push(("name", J::s(n)));
        }
        if d.mutability.is_mut() {
            lo.push(("mut", J::Bool(true)));
        }
        if d.is_user_variable() {
            lo.push(("user", J::Bool(true)));
        }
        locals.push(J::Obj(lo));
    }
    o.push(("locals", J::Arr(locals)));
    o.push(("upvars", J::Arr(upvars)));
    // blocks
    let mut blocks = Vec::new();
    for (_bb, data) in body.basic_blocks.iter_enumerated() {
        let mut stmts = Vec::new();
        for st in data.statements.iter() {
            if let Some(j) = cx.stmt(st) {
                stmts.push(j);
            }
        }
        let mut bo = vec![("s", J::Arr(stmts))];
        if data.is_cleanup {
            bo.push(("cleanup", J::Bool(true)));
        }
        bo.push(("t", cx.term(data.terminator())));
        blocks.push(J::Obj(bo));
    }
    o.push(("blocks", J::Arr(blocks)));
    J::Obj(o)
}

impl<'a, 'tcx> Cx<'a, 'tcx> {
    fn loc(&self, sp: Span, o: &mut Vec<(&'static str, J)>) {
        let (_f, line, exp) = span_info(self.tcx, sp);
        o.push(("line", J::Num(line)));
        if exp {
            o.push(("exp", J::Bool(true)));
        }
    }

    fn place(&self, p: &Place<'tcx>) -> J {
        let tcx = self.tcx;
        let mut pty = PlaceTy::from_ty(self.body.local_decls[p.local].ty);
        let mut pj = Vec::new();
        let mut pjt = Vec::new();
        for elem in p.projection.iter() {
            pjt.push(J::s(&pty.ty.to_string()));
            let e = match elem {
                ProjectionElem::Deref => J::s("*"),
                ProjectionElem::Field(f, _) => {
                    let mut name = f.index().to_string();
                    match pty.ty.kind() {
                        ty::Adt(adt, _) => {
                            let v = match pty.variant_index {
                                Some(vi) => Some(adt.variant(vi)),
                                None => {
                                    if adt.is_enum() {
                                        None
                                    } else {
                                        Some(adt.non_enum_variant())
                                    }
                                }
                            };
                            if let Some(v) = v {
                                if f.index() < v.fields.len() {
                                    name = v.fields[f].name.to_string();
                                }
                            }
                        }
                        ty::Closure(cdef, _) => {
                            if let Some(ld) = cdef.as_local() {
                                if let Some(c) = tcx.closure_captures(ld).get(f.index()) {
                                    name = format!("^{}", c.var_ident.name);
                                }
                            }
                        }
                        _ => {}
                    }
                    J::Obj(vec![("f", J::Num(f.index() as i128)), ("n", J::s(&name))])
                }
                ProjectionElem::Index(l) => J::Obj(vec![("i", J::Num(l.as_usize() as i128))]),
                ProjectionElem::ConstantIndex { offset, min_length, from_end } => J::Obj(vec![
                    ("ci", J::Num(offset as i128)),
                    ("min", J::Num(min_length as i128)),
                    ("fe", J::Bool(from_end)),
                ]),
                ProjectionElem::Subslice { from, to, from_end } => J::Obj(vec![
                    ("sub", J::Arr(vec![J::Num(from as i128), J::Num(to as i128)])),
                    ("fe", J::Bool(from_end)),
                ]),
                ProjectionElem::Downcast(name, vi) => J::Obj(vec![
                    (
                        "dc",
                        J::s(&name.map(|s| s.to_string()).unwrap_or_else(|| vi.index().to_string())),
                    ),
                    ("vi", J::Num(vi.index() as i128)),
                ]),
                ProjectionElem::OpaqueCast(t) => J::Obj(vec![("oc", J::s(&t.to_string()))]),
                ProjectionElem::UnwrapUnsafeBinder(t) => J::Obj(vec![("ub", J::s(&t.to_string()))]),
            };
            pj.push(e);
            pty = pty.projection_ty(tcx, elem);
        }
        let mut o = vec![("l", J::Num(p.local.as_usize() as i128))];
        if !pj.is_empty() {
            o.push(("pj", J::Arr(pj)));
            o.push(("pjt", J::Arr(pjt)));
            o.push(("ty", J::s(&pty.ty.to_string())));
        }
        J::Obj(o)
    }

    fn operand(&self, op: &Operand<'tcx>) -> J {
        match op {
            Operand::Copy(p) => J::Obj(vec![("c", self.place(p))]),
            Operand::Move(p) => J::Obj(vec![("m", self.place(p))]),
            Operand::Constant(c) => J::Obj(vec![("k", self.constant(&c.const_, c.span))]),
            other => J::Obj(vec![("raw", J::s(&format!("{:?}", other)))]),
        }
    }

    fn fn_def(&self, did: DefId, args: ty::GenericArgsRef<'tcx>, o: &mut Vec<(&'static str, J)>) {
        let tcx = self.tcx;
        o.push(("fn", J::s(&tcx.def_path_str(did))));
        o.push(("fn_full", J::s(&tcx.def_path_str_with_args(did, args))));
        o.push(("crate", J::s(tcx.crate_name(did.krate).as_str())));
        o.push(("args", J::Arr(args.iter().map(|a| J::s(&a.to_string())).collect())));
        if let Some(tr) = tcx.trait_of_assoc(did) {
            o.push(("trait", J::s(&tcx.def_path_str(tr))));
        }
        // impl self type for inherent/trait impl methods
        let parent = tcx.parent(did);
        if matches!(tcx.def_kind(parent), DefKind::Impl { .. }) {
            let st = tcx.type_of(parent).instantiate_identity().skip_norm_wip();
            o.push(("impl_self", J::s(&st.to_string())));
        }
        // try to resolve trait method calls to the implementing item
        if tcx.trait_of_assoc(did).is_some() {
            if let Ok(nargs) = tcx.try_normalize_erasing_regions(self.env, ty::Unnormalized::new_wip(args)) {
                if let Ok(Some(inst)) = ty::Instance::try_resolve(tcx, self.env, did, nargs) {
                    let rd = inst.def_id();
                    if rd != did {
                        o.push(("res", J::s(&tcx.def_path_str(rd))));
                        o.push(("res_crate", J::s(tcx.crate_name(rd.krate).as_str())));
                    }
                    o.push(("res_kind", J::s(inst_kind(&inst))));
                }
            }
        }
    }

    fn constant(&self, c: &Const<'tcx>, sp: Span) -> J {
        let tcx = self.tcx;
        let ty = c.ty();
        let mut o = vec![("ty", J::s(&ty.to_string()))];
        if let ty::FnDef(did, args) = *ty.kind() {
            self.fn_def(did, args, &mut o);
            return J::Obj(o);
        }
        // name of a referenced const item
        if let Const::Unevaluated(u, _) = c {
            o.push(("def", J::s(&tcx.def_path_str(u.def))));
            if u.promoted.is_some() {
                o.push(("promoted", J::Bool(true)));
            }
        }
        let has_param = match c {
            Const::Unevaluated(u, _) => u.args.iter().any(|a| has_param_arg(a)),
            Const::Ty(_, ct) => format!("{:?}", ct).contains("Param"),
            Const::Val(..) => false,
        };
        if !has_param {
            if let Ok(v) = c.eval(tcx, self.env, sp) {
                const_value(tcx, v, ty, &mut o);
            }
        }
        o.push(("d", J::s(&format!("{}", c))));
        J::Obj(o)
    }

    fn rvalue(&self, r: &Rvalue<'tcx>) -> J {
        let tcx = self.tcx;
        match r {
            Rvalue::Use(op, _) => J::Obj(vec![("k", J::s("use")), ("o", self.operand(op))]),
            Rvalue::Repeat(op, n) => J::Obj(vec![
                ("k", J::s("repeat")),
                ("o", self.operand(op)),
                ("n", J::s(&n.to_string())),
            ]),
            Rvalue::Ref(_, bk, p) => {
                let b = match bk {
                    BorrowKind::Shared => "shared",
                    BorrowKind::Fake(_) => "fake",
                    BorrowKind::Mut { .. } => "mut",
                };
                J::Obj(vec![("k", J::s("ref")), ("bk", J::s(b)), ("p", self.place(p))])
            }
            Rvalue::RawPtr(k, p) => J::Obj(vec![
                ("k", J::s("rawptr")),
                ("bk", J::s(&format!("{:?}", k))),
                ("p", self.place(p)),
            ]),
            Rvalue::Cast(ck, op, t) => J::Obj(vec![
                ("k", J::s("cast")),
                ("ck", J::s(&format!("{:?}", ck))),
                ("o", self.operand(op)),
                ("ty", J::s(&t.to_string())),
            ]),
            Rvalue::BinaryOp(op, ab) => J::Obj(vec![
                ("k", J::s("bin")),
                ("op", J::s(&format!("{:?}", op))),
                ("a", self.operand(&ab.0)),
                ("b", self.operand(&ab.1)),
            ]),
            Rvalue::UnaryOp(op, a) => J::Obj(vec![
                ("k", J::s("un")),
                ("op", J::s(&format!("{:?}", op))),
                ("a", self.operand(a)),
            ]),
            Rvalue::Discriminant(p) => J::Obj(vec![("k", J::s("disc")), ("p", self.place(p))]),
            Rvalue::CopyForDeref(p) => J::Obj(vec![("k", J::s("copyderef")), ("p", self.place(p))]),
            Rvalue::Aggregate(ak, ops) => {
                let mut o = vec![("k", J::s("agg"))];
                match &**ak {
                    AggregateKind::Array(t) => {
                        o.push(("ak", J::s("array")));
                        o.push(("ety", J::s(&t.to_string())));
                    }
                    AggregateKind::Tuple => o.push(("ak", J::s("tuple"))),
                    AggregateKind::Adt(did, vi, _args, _, _) => {
                        o.push(("ak", J::s("adt")));
                        o.push(("adt", J::s(&tcx.def_path_str(*did))));
                        let adt = tcx.adt_def(*did);
                        let v = adt.variant(*vi);
                        o.push(("variant", J::s(v.name.as_str())));
                        o.push((
                            "fields",
                            J::Arr(v.fields.iter().map(|f| J::s(f.name.as_str())).collect()),
                        ));
                    }
                    AggregateKind::Closure(did, _) => {
                        o.push(("ak", J::s("closure")));
                        o.push(("closure", J::s(&tcx.def_path_str(*did))));
                    }
                    other => {
                        o.push(("ak", J::s("other")));
                        o.push(("raw", J::s(&format!("{:?}", other))));
                    }
                }
                o.push(("ops", J::Arr(ops.iter().map(|x| self.operand(x)).collect())));
                J::Obj(o)
            }
            other => J::Obj(vec![("k", J::s("other")), ("raw", J::s(&format!("{:?}", other)))]),
        }
    }

    fn stmt(&self, st: &mir::Statement<'tcx>) -> Option<J> {
        let mut o: Vec<(&'static str, J)> = Vec::new();
        match &st.kind {
            StatementKind::Assign(b) => {
                let (p, r) = &**b;
                if let Rvalue::Ref(_, BorrowKind::Fake(_), _) = r {
                    return None;
                }
                o.push(("k", J::s("assign")));
                o.push(("p", self.place(p)));
                o.push(("r", self.rvalue(r)));
            }
            StatementKind::SetDiscriminant { place, variant_index } => {
                o.push(("k", J::s("setdisc")));
                o.push(("p", self.place(place)));
                o.push(("vi", J::Num(variant_index.index() as i128)));
            }
            StatementKind::StorageDead(l) => {
                o.push(("k", J::s("dead")));
                o.push(("l", J::Num(l.as_usize() as i128)));
                return Some(J::Obj(o));
            }
            StatementKind::Intrinsic(i) => {
                o.push(("k", J::s("intrinsic")));
                o.push(("raw", J::s(&format!("{:?}", i))));
            }
            _ => return None,
        }
        self.loc(st.source_info.span, &mut o);
        o.push(("d", J::s(&format!("{:?}", st))));
        Some(J::Obj(o))
    }

    fn unwind(&self, u: &UnwindAction) -> J {
        match u {
            UnwindAction::Cleanup(bb) => J::Num(bb.as_usize() as i128),
            _ => J::Null,
        }
    }

    fn term(&self, t: &mir::Terminator<'tcx>) -> J {
        let mut o: Vec<(&'static str, J)> = Vec::new();
        let bbn = |bb: &mir::BasicBlock| J::Num(bb.as_usize() as i128);
        match &t.kind {
            TerminatorKind::Goto { target } => {
                o.push(("k", J::s("goto")));
                o.push(("t", bbn(target)));
            }
            TerminatorKind::SwitchInt { discr, targets } => {
                o.push(("k", J::s("switch")));
                o.push(("d", self.operand(discr)));
                o.push(("dty", J::s(&discr.ty(self.body, self.tcx).to_string())));
                let mut vals = Vec::new();
                for (v, bb) in targets.iter() {
                    vals.push(J::Arr(vec![J::Num(v as i128), bbn(&bb)]));
                }
                o.push(("vals", J::Arr(vals)));
                o.push(("else", bbn(&targets.otherwise())));
            }
            TerminatorKind::Return => o.push(("k", J::s("return"))),
            TerminatorKind::Unreachable => o.push(("k", J::s("unreachable"))),
            TerminatorKind::UnwindResume => o.push(("k", J::s("resume"))),
            TerminatorKind::UnwindTerminate(_) => o.push(("k", J::s("terminate"))),
            TerminatorKind::Drop { place, target, unwind, .. } => {
                o.push(("k", J::s("drop")));
                o.push(("p", self.place(place)));
                o.push(("t", bbn(target)));
                o.push(("u", self.unwind(unwind)));
            }
            TerminatorKind::Call { func, args, destination, target, unwind, call_source, .. } => {
                o.push(("k", J::s("call")));
                o.push(("f", self.operand(func)));
                o.push(("args", J::Arr(args.iter().map(|a| self.operand(&a.node)).collect())));
                o.push(("dest", self.place(destination)));
                o.push(("t", target.as_ref().map(|b| bbn(b)).unwrap_or(J::Null)));
                o.push(("u", self.unwind(unwind)));
                o.push(("src", J::s(&format!("{:?}", call_source))));
            }
            TerminatorKind::TailCall { func, args, .. } => {
                o.push(("k", J::s("tailcall")));
                o.push(("f", self.operand(func)));
                o.push(("args", J::Arr(args.iter().map(|a| self.operand(&a.node)).collect())));
            }
            TerminatorKind::Assert { cond, expected, msg, target, unwind } => {
                o.push(("k", J::s("assert")));
                o.push(("cond", self.operand(cond)));
                o.push(("expected", J::Bool(*expected)));
                let m = match &**msg {
                    AssertKind::BoundsCheck { len, index } => J::Obj(vec![
                        ("k", J::s("bounds")),
                        ("len", self.operand(len)),
                        ("index", self.operand(index)),
                    ]),
                    AssertKind::Overflow(op, a, b) => J::Obj(vec![
                        ("k", J::s("overflow")),
                        ("op", J::s(&format!("{:?}", op))),
                        ("a", self.operand(a)),
                        ("b", self.operand(b)),
                    ]),
                    AssertKind::OverflowNeg(a) => {
                        J::Obj(vec![("k", J::s("overflow_neg")), ("a", self.operand(a))])
                    }
                    AssertKind::DivisionByZero(a) => {
                        J::Obj(vec![("k", J::s("divzero")), ("a", self.operand(a))])
                    }
                    AssertKind::RemainderByZero(a) => {
                        J::Obj(vec![("k", J::s("remzero")), ("a", self.operand(a))])
                    }
                    other => J::Obj(vec![("k", J::s("other")), ("raw", J::s(&format!("{:?}", other)))]),
                };
                o.push(("msg", m));
                o.push(("t", bbn(target)));
                o.push(("u", self.unwind(unwind)));
            }
            TerminatorKind::FalseEdge { real_target, imaginary_target } => {
                o.push(("k", J::s("falseedge")));
                o.push(("t", bbn(real_target)));
                o.push(("imag", bbn(imaginary_target)));
            }
            TerminatorKind::FalseUnwind { real_target, unwind } => {
                o.push(("k", J::s("falseunwind")));
                o.push(("t", bbn(real_target)));
                o.push(("u", self.unwind(unwind)));
            }
            other => {
                o.push(("k", J::s("other")));
                o.push(("raw", J::s(&format!("{:?}", other))));
            }
        }
        self.loc(t.source_info.span, &mut o);
        let mut d = String::new();
        let _ = write!(d, "{:?}", t.kind);
        o.push(("dbg", J::s(&d)));
        let _ = self.def;
        J::Obj(o)
    }
}

fn has_param_arg(a: ty::GenericArg<'_>) -> bool {
    let s = format!("{:?}", a);
    // conservative textual test is avoided: use type flags
    let _ = s;
    use rustc_middle::ty::TypeVisitableExt;
    a.has_non_region_param()
}

fn inst_kind(i: &ty::Instance<'_>) -> &'static str {
    match i.def {
        ty::InstanceKind::Item(_) => "item",
        ty::InstanceKind::Virtual(..) => "virtual",
        ty::InstanceKind::Intrinsic(_) => "intrinsic",
        ty::InstanceKind::ClosureOnceShim { .. } => "closure_once",
        ty::InstanceKind::FnPtrShim(..) => "fnptr_shim",
        ty::InstanceKind::CloneShim(..) => "clone_shim",
        ty::InstanceKind::DropGlue(..) => "drop_glue",
        _ => "other",
    }
}

fn alloc_bytes<'tcx>(tcx: TyCtxt<'tcx>, id: mir::interpret::AllocId, off: u64, len: u64) -> Option<Vec<u8>> {
    let ga = tcx.try_get_global_alloc(id)?;
    let mem = match ga {
        mir::interpret::GlobalAlloc::Memory(m) => m,
        _ => return None,
    };
    let a = mem.inner();
    let total = a.len() as u64;
    if off.checked_add(len)? > total {
        return None;
    }
    let r = (off as usize)..((off + len) as usize);
    Some(a.inspect_with_uninit_and_ptr_outside_interpreter(r).to_vec())
}

fn bytes_json(b: &[u8]) -> J {
    J::Arr(b.iter().map(|x| J::Num(*x as i128)).collect())
}

fn const_value<'tcx>(tcx: TyCtxt<'tcx>, v: ConstValue, ty: Ty<'tcx>, o: &mut Vec<(&'static str, J)>) {
    match v {
        ConstValue::Scalar(mir::interpret::Scalar::Int(si)) => {
            let size = si.size();
            let bits = si.to_bits(size);
            match ty.kind() {
                ty::Int(_) => {
                    // sign extend
                    let sh = 128 - size.bits();
                    let sv = ((bits << sh) as i128) >> sh;
                    o.push(("v", J::Num(sv)));
                }
                ty::Float(_) => {
                    o.push(("bits", J::s(&bits.to_string())));
                    if size.bits() == 64 {
                        o.push(("f", J::s(&format!("{:e}", f64::from_bits(bits as u64)))));
                    } else if size.bits() == 32 {
                        o.push(("f", J::s(&format!("{:e}", f32::from_bits(bits as u32)))));
                    }
                }
                _ => {
                    if bits <= i128::MAX as u128 {
                        o.push(("v", J::Num(bits as i128)));
                    } else {
                        o.push(("bits", J::s(&bits.to_string())));
                    }
                }
            }
        }
        ConstValue::Scalar(mir::interpret::Scalar::Ptr(ptr, _)) => {
            {
                let (prov, _off) = ptr.prov_and_relative_offset();
                if let Some(mir::interpret::GlobalAlloc::Static(did)) = tcx.try_get_global_alloc(prov.alloc_id()) {
                    o.push(("static", J::s(&tcx.def_path_str(did))));
                    o.push(("static_crate", J::s(tcx.crate_name(did.krate).as_str())));
                    if let DefKind::Static { mutability, .. } = tcx.def_kind(did) {
                        o.push(("static_mut", J::Bool(mutability.is_mut())));
                    }
                }
            }
            // reference to a sized value: dump bytes for &[u8; N] / &[T; N] of small element types
            if let ty::Ref(_, inner, _) = ty.kind() {
                if let ty::Array(et, n) = inner.kind() {
                    if let Some(n) = n.try_to_target_usize(tcx) {
                        let es = elem_size(*et);
                        if es > 0 && n * es <= 65536 {
                            let (prov, off) = ptr.prov_and_relative_offset();
                            if let Some(b) = alloc_bytes(tcx, prov.alloc_id(), off.bytes(), n * es) {
                                o.push(("bytes", bytes_json(&b)));
                                o.push(("esize", J::Num(es as i128)));
                            }
                        }
                    }
                }
            }
        }
        ConstValue::ZeroSized => {
            o.push(("zst", J::Bool(true)));
        }
        ConstValue::Slice { alloc_id, meta } => {
            if let ty::Ref(_, inner, _) = ty.kind() {
                let es = match inner.kind() {
                    ty::Str => 1,
                    ty::Slice(et) => elem_size(*et),
                    _ => 0,
                };
                if es > 0 && meta * es <= 65536 {
                    if let Some(b) = alloc_bytes(tcx, alloc_id, 0, meta * es) {
                        if matches!(inner.kind(), ty::Str) {
                            o.push(("s", J::s(&String::from_utf8_lossy(&b))));
                        }
                        o.push(("bytes", bytes_json(&b)));
                        o.push(("esize", J::Num(es as i128)));
                    }
                }
            }
        }
        ConstValue::Indirect { alloc_id, offset } => {
            // a wide reference kept in memory (e.g. `const X: &[u8] = b"..";` after unsizing): follow (ptr, len)
            if let ty::Ref(_, inner, _) = ty.kind() {
                let es = match inner.kind() {
                    ty::Str => 1,
                    ty::Slice(et) => elem_size(*et),
                    _ => 0,
                };
                if es > 0 {
                    if let Some(mir::interpret::GlobalAlloc::Memory(m)) = tcx.try_get_global_alloc(alloc_id) {
                        let a = m.inner();
                        let psz = tcx.data_layout.pointer_size().bytes();
                        let off = offset.bytes();
                        if off + 2 * psz <= a.len() as u64 {
                            let raw = a.inspect_with_uninit_and_ptr_outside_interpreter((off as usize)..((off + 2 * psz) as usize));
                            let mut rel = 0u64;
                            let mut len = 0u64;
                            for i in 0..psz as usize {
                                rel |= (raw[i] as u64) << (8 * i);
                                len |= (raw[psz as usize + i] as u64) << (8 * i);
                            }
                            let mut target = None;
                            for (poff, prov) in a.provenance().ptrs().iter() {
                                if poff.bytes() == off {
                                    target = Some(prov.alloc_id());
                                }
                            }
                            if let Some(tid) = target {
                                if len * es <= 65536 {
                                    if let Some(b) = alloc_bytes(tcx, tid, rel, len * es) {
                                        if matches!(inner.kind(), ty::Str) {
                                            o.push(("s", J::s(&String::from_utf8_lossy(&b))));
                                        }
                                        o.push(("bytes", bytes_json(&b)));
                                        o.push(("esize", J::Num(es as i128)));
                                    }
                                }
                            }
                        }
                    }
                }
            }
            if let ty::Array(et, n) = ty.kind() {
                if let Some(n) = n.try_to_target_usize(tcx) {
                    let es = elem_size(*et);
                    if es > 0 && n * es <= 65536 {
                        if let Some(b) = alloc_bytes(tcx, alloc_id, offset.bytes(), n * es) {
                            o.push(("bytes", bytes_json(&b)));
                            o.push(("esize", J::Num(es as i128)));
                        }
                    }
                }
            }
        }
    }
}

fn elem_size(t: Ty<'_>) -> u64 {
    match t.kind() {
        ty::Uint(u) => u.bit_width().map(|b| b / 8).unwrap_or(8),
        ty::Int(u) => u.bit_width().map(|b| b / 8).unwrap_or(8),
        ty::Bool => 1,
        ty::Float(f) => f.bit_width() / 8,
        _ => 0,
    }
}

fn dump_adts<'tcx>(tcx: TyCtxt<'tcx>) -> J {
    let mut out = Vec::new();
    for id in tcx.hir_crate_items(()).definitions() {
        let kind = tcx.def_kind(id);
        if !matches!(kind, DefKind::Struct | DefKind::Enum | DefKind::Union) {
            continue;
        }
        let did = id.to_def_id();
        let adt = tcx.adt_def(did);
        let env = TypingEnv::post_analysis(tcx, did);
        let self_ty = tcx.type_of(did).instantiate_identity().skip_norm_wip();
        let mut variants = Vec::new();
        for v in adt.variants().iter() {
            let mut fields = Vec::new();
            for f in v.fields.iter() {
                let fty = tcx.type_of(f.did).instantiate_identity().skip_norm_wip();
                fields.push(J::Obj(vec![
                    ("name", J::s(f.name.as_str())),
                    ("ty", J::s(&fty.to_string())),
                    ("pub", J::Bool(f.vis.is_public())),
                    ("freeze", J::Bool(fty.is_freeze(tcx, env))),
                    ("copy", J::Bool(tcx.type_is_copy_modulo_regions(env, fty))),
                ]));
            }
            variants.push(J::Obj(vec![("name", J::s(v.name.as_str())), ("fields", J::Arr(fields))]));
        }
        let (file, line, _) = span_info(tcx, tcx.def_span(did));
        out.push(J::Obj(vec![
            ("path", J::s(&tcx.def_path_str(did))),
            ("kind", J::s(&format!("{:?}", kind))),
            ("ty", J::s(&self_ty.to_string())),
            ("pub", J::Bool(tcx.visibility(did).is_public())),
            ("reachable", J::Bool(tcx.effective_visibilities(()).is_reachable(id))),
            ("freeze", J::Bool(self_ty.is_freeze(tcx, env))),
            ("file", J::s(&file)),
            ("line", J::Num(line)),
            ("variants", J::Arr(variants)),
        ]));
    }
    J::Arr(out)
}

fn dump_consts<'tcx>(tcx: TyCtxt<'tcx>) -> J {
    let mut out = Vec::new();
    for id in tcx.hir_crate_items(()).definitions() {
        let kind = tcx.def_kind(id);
        if !matches!(kind, DefKind::Const { .. } | DefKind::AssocConst { .. }) {
            continue;
        }
        let did = id.to_def_id();
        if tcx.generics_of(did).count() != 0 {
            continue;
        }
        // trait-declared assoc consts without a value cannot be evaluated
        if kind != (DefKind::Const { is_type_const: false }) && tcx.hir_maybe_body_owned_by(id).is_none() {
            continue;
        }
        if tcx.hir_maybe_body_owned_by(id).is_none() {
            continue;
        }
        let ty = tcx.type_of(did).instantiate_identity().skip_norm_wip();
        let mut o = vec![("path", J::s(&tcx.def_path_str(did))), ("ty", J::s(&ty.to_string()))];
        if let Ok(v) = tcx.const_eval_poly(did) {
            const_value(tcx, v, ty, &mut o);
        }
        let (file, line, _) = span_info(tcx, tcx.def_span(did));
        o.push(("file", J::s(&file)));
        o.push(("line", J::Num(line)));
        out.push(J::Obj(o));
    }
    J::Arr(out)
}

fn dump_statics<'tcx>(tcx: TyCtxt<'tcx>) -> J {
    let mut out = Vec::new();
    for id in tcx.hir_crate_items(()).definitions() {
        if let DefKind::Static { mutability, .. } = tcx.def_kind(id) {
            let did = id.to_def_id();
            let ty = tcx.type_of(did).instantiate_identity().skip_norm_wip();
            let env = TypingEnv::post_analysis(tcx, did);
            out.push(J::Obj(vec![
                ("path", J::s(&tcx.def_path_str(did))),
                ("ty", J::s(&ty.to_string())),
                ("mut", J::Bool(mutability.is_mut())),
                ("freeze", J::Bool(ty.is_freeze(tcx, env))),
            ]));
        }
    }
    J::Arr(out)
}

fn dump_impls<'tcx>(tcx: TyCtxt<'tcx>) -> J {
    let mut out = Vec::new();
    for id in tcx.hir_crate_items(()).definitions() {
        if !matches!(tcx.def_kind(id), DefKind::Impl { .. }) {
            continue;
        }
        let did = id.to_def_id();
        let st = tcx.type_of(did).instantiate_identity().skip_norm_wip();
        let mut o = vec![("self", J::s(&st.to_string()))];
        if let ty::Adt(a, _) = st.kind() {
            o.push(("adt", J::s(&tcx.def_path_str(a.did()))));
        }
        if let Some(tr) = tcx.impl_opt_trait_ref(did) {
            let tr = tr.instantiate_identity().skip_norm_wip();
            o.push(("trait", J::s(&tcx.def_path_str(tr.def_id))));
            o.push(("trait_full", J::s(&tr.to_string())));
        }
        let mut items = Vec::new();
        for it in tcx.associated_items(did).in_definition_order() {
            items.push(J::s(it.name().as_str()));
        }
        o.push(("items", J::Arr(items)));
        let (file, line, _) = span_info(tcx, tcx.def_span(did));
        o.push(("file", J::s(&file)));
        o.push(("line", J::Num(line)));
        out.push(J::Obj(o));
    }
    J::Arr(out)
}
