#!/bin/bash
# usage: try_refactor.sh <diff>   -- applies a behaviour-preserving diff to /repo, runs ALL checks (must stay silent), reverts
set -u
d=$1
cd /repo || exit 2
git apply --check "$d" || { echo "APPLY-FAILED $d"; exit 2; }
git apply "$d"
export VERIF_EVIDENCE_DIR=/tmp/seed-ev
mkdir -p $VERIF_EVIDENCE_DIR
cd /verif
# one extraction first, then rules in parallel
./bin/check C01 --tier quick > /tmp/refac-C01.out 2>&1; echo "C01 rc=$?" > /tmp/refac-rc.txt
for i in $(seq -w 2 20); do
  ( ./bin/check C$i --tier quick > /tmp/refac-C$i.out 2>&1; echo "C$i rc=$?" >> /tmp/refac-rc.txt ) &
done
wait
git -C /repo checkout -- .
bad=0
for i in $(seq -w 1 20); do
  if grep -q "VIOLATION\|Traceback" /tmp/refac-C$i.out || ! grep -q "C$i rc=0" /tmp/refac-rc.txt; then
    echo "=== ALARM C$i on $d"; grep -v "^  ok\|^ok" /tmp/refac-C$i.out | head -30; bad=1
  fi
done
[ $bad = 0 ] && echo "SILENT $d"
