#!/usr/bin/env python3
"""keep_seed.py <prop-lower> <k> <detected-by> [<note>] : store a confirmed seeded change under /verif/seeded/<PROP>-<k>/"""
import json, os, re, shutil, sys
p, k, det = sys.argv[1], sys.argv[2], sys.argv[3]
note = sys.argv[4] if len(sys.argv) > 4 else ''
src = '/tmp/wt-%s/out' % p
wt = p
# second-round worktrees are called uNN: property CNN, seeds numbered 3 and 4
k_out = k
if p.startswith('u'):
    p = 'c' + p[1:]
    k_out = str(int(k) + 2)
elif p.startswith('w'):
    p = 'c' + p[1:]
    k_out = str(int(k) + 4)
elif p.startswith('q'):
    p = 'c' + p[1:]
    k_out = str(int(k) + 6)
elif p.startswith('p'):
    p = 'c' + p[1:]
    k_out = str(int(k) + 8)
elif p.startswith('r'):
    p = 'c' + p[1:]
    k_out = str(int(k) + 10)
dst = '/verif/seeded/%s-%s' % (p.upper(), k_out)
os.makedirs(dst, exist_ok=True)
shutil.copy(os.path.join(src, 'change%s.diff' % k), os.path.join(dst, 'patch.diff'))
shutil.copy(os.path.join(src, 'demo%s.rs' % k), os.path.join(dst, 'demo.rs'))
try:
    meta = json.load(open(os.path.join(src, 'meta%s.json' % k)))
except Exception:
    meta = {}
log = ''
lp = '/tmp/confirm-%s.log' % wt
if os.path.exists(lp):
    txt = open(lp).read()
    m = re.search(r'##### %s change%s\n(.*?)(?=#####|\Z)' % (wt, k), txt, re.S)
    log = m.group(1).strip() if m else ''
meta2 = {
    'property': p.upper(),
    'breaks': meta.get('what_it_breaks', ''),
    'needs_to_manifest': meta.get('needs_to_manifest', ''),
    'author': 'independent sub-agent given only the property text and a scratch worktree',
    'confirmed_by_me': {
        'how': 'tools/confirm_seed.sh in a scratch worktree: demo passes on the unchanged library, fails with the patch; '
               'cargo test --offline --lib and --test \'*\' pass with the patch',
        'log': log,
    },
    'checked_with': 'git -C /repo apply patch.diff; ./bin/check %s; git -C /repo checkout -- .' % p.upper(),
    'detected_by': det,
    'note': note,
}
json.dump(meta2, open(os.path.join(dst, 'meta.json'), 'w'), indent=1)
print(dst)
