#!/bin/bash
# confirm_all.sh <prop-lower> : confirm both seeded changes of /tmp/wt-<prop>/out in that worktree, log to /tmp/confirm-<prop>.log
p=$1
for k in 1 2; do
  if [ -f /tmp/wt-$p/out/change$k.diff ]; then
    echo "##### $p change$k"
    /verif/tools/confirm_seed.sh /tmp/wt-$p /tmp/wt-$p/out/change$k.diff /tmp/wt-$p/out/demo$k.rs
  fi
done
