#!/bin/bash
# scr.sh <refactor-name|path.diff> <PROP...> : apply a diff to a scratch copy of /repo (/tmp/scr) and run checks on it
d=$1; shift
[ -f "$d" ] || d=/verif/selftest/refactors/$d.diff
rsync -a --delete --exclude target --exclude .git /repo/ /tmp/scr/
(cd /tmp/scr && patch -p1 -s < $d) || { echo PATCH-FAILED; exit 2; }
for p in "$@"; do VERIF_EVIDENCE_DIR=/tmp/seed-ev /verif/bin/check $p --root /tmp/scr 2>&1 | tail -${TAILN:-4} | cut -c1-${CUTN:-600}; done
