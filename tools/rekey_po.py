#!/usr/bin/env python3
"""one-off maintenance tool: re-key the audited PO tables when the canonical operand scheme of eng_po changes.
Runs every PO rule on the facts of the current tree under the old and the new scheme (VERIF_PO_CANON), aligns the two
obligation streams by position and rewrites the dict literals in the rule modules."""
import ast, importlib, os, re, subprocess, sys, json
VERIF = os.path.dirname(os.path.dirname(os.path.abspath(__file__)))
sys.path.insert(0, VERIF)
MODS = {'c08': 'AUDIT', 'c09': 'PO5_AUDIT+round5:PO10_AUDIT', 'c11': 'AUDIT', 'c12': 'AUDIT', 'c19': 'PO6_AUDIT', 'c14': 'round2:PO8_AUDIT', 'c04': 'round4:PO9_AUDIT'}

WORKER = r'''
import sys, json
sys.path.insert(0, %r)
from rules import mirlib, extract
import importlib
class Rec:
    def __init__(self): self.calls=[]; self.extra={}
    def rule(self,*a,**k): pass
    def analysed_body(self,b): pass
    def ok(self, rule, key, *a, **k): self.calls.append(('ok', rule, key))
    def audited(self, rule, key, *a, **k): self.calls.append(('audited', rule, key))
    def bad(self, rule, key, *a, **k): self.calls.append(('bad', rule, key))
    def missing(self, rule, key, *a, **k): self.calls.append(('missing', rule, key))
    def floor(self,*a,**k): pass
facts = mirlib.Facts(extract.ensure_facts('/repo')[0])
out = {}
for m in %r:
    mod = importlib.import_module('rules.' + m)
    r = Rec()
    mod.run(facts, r, {'flavor': 'dev', 'tier': 'quick'})
    out[m] = [c for c in r.calls if c[1].startswith('PO-') and not (m == 'c10')]
print(json.dumps(out))
'''

def run(scheme):
    # scheme: extra environment for the worker, e.g. "VERIF_PO_CANON=old" or "VERIF_NO_COMBINATORS=1" or ""
    env = dict(os.environ)
    for kv in scheme.split():
        k, v = kv.split('=', 1)
        env[k] = v
    r = subprocess.run([sys.executable, '-c', WORKER % (VERIF, list(MODS))], env=env, stdout=subprocess.PIPE, text=True, check=True)
    return json.loads(r.stdout.strip().splitlines()[-1])

old, new = run(sys.argv[1] if len(sys.argv) > 1 else 'VERIF_PO_CANON=old'), run(sys.argv[2] if len(sys.argv) > 2 else '')
for m, var in MODS.items():
    a, b = old[m], new[m]
    assert len(a) == len(b), (m, len(a), len(b))
    mapping = {}
    for (ka, ra, keya), (kb, rb, keyb) in zip(a, b):
        if ka == 'audited':
            k0 = re.sub(r'#\d+$', '', keya)
            k1 = re.sub(r'#\d+$', '', keyb)
            mapping.setdefault(k0, [])
            if k1 not in mapping[k0]:
                mapping[k0].append(k1)
        elif ka == 'bad':
            print('old scheme already bad:', m, keya)
    for var in var.split('+'):
        holder = m
        if ':' in var:
            holder, var = var.split(':')
        mod = importlib.import_module('rules.' + holder)
        table = getattr(mod, var)
        newtable = {}
        for k, v in table.items():
            nks = mapping.get(k)
            if nks is None:
                print('UNUSED audit entry kept as is:', m, k)
                nks = [k]
            for nk in nks:
                if nk in newtable and newtable[nk] != v:
                    print('MERGED', m, nk)
                newtable[nk] = v
        path = os.path.join(VERIF, 'rules', holder + '.py')
        src = open(path).read()
        tree = ast.parse(src)
        node = [n for n in tree.body if isinstance(n, ast.Assign) and any(isinstance(t, ast.Name) and t.id == var for t in n.targets)][0]
        lines = src.split('\n')
        body = var + ' = {\n' + ''.join('    %r:\n        %r,\n' % (k, v) for k, v in newtable.items()) + '}'
        lines[node.lineno - 1:node.end_lineno] = body.split('\n')
        open(path, 'w').write('\n'.join(lines))
        changed = sum(1 for k in table if mapping.get(k, [k]) != [k])
        print('%s: %d entries, %d re-keyed' % (m, len(table), changed))
