#!/bin/bash
# confirm_seed.sh <worktree> <diff> <demo.rs> : confirms in a scratch worktree that (1) the change applies and compiles,
# (2) the existing lib + integration tests still pass with it, (3) the demo fails with it and passes without it.
set -u
WT=$1; DIFF=$2; DEMO=$3
cd $WT || exit 2
git checkout -q -- . ; git clean -fdq tests
NAME=seed_demo_$$
cp $DEMO tests/$NAME.rs
echo "== baseline demo (must pass)"
cargo test --offline --test $NAME 2>&1 | grep -E "^test result|error(\[|:)" | head -3
git apply $DIFF || { echo "APPLY FAILED"; exit 2; }
echo "== with change: demo (must fail)"
cargo test --offline --test $NAME 2>&1 | grep -E "^test result|error(\[|:)" | head -3
mv tests/$NAME.rs /tmp/$NAME.rs.keep
echo "== with change: existing suite (must pass)"
cargo test --offline --lib 2>&1 | grep -E "^test result" | head -2
cargo test --offline --test '*' 2>&1 | grep -E "^test result" | head -3
git checkout -q -- . ; git clean -fdq tests; rm -f /tmp/$NAME.rs.keep
