#!/usr/bin/env python3
"""regenerates /verif/MANIFEST.json from the table below (kept in one place so the manifest is always valid)"""
import json, os
VERIF = os.path.dirname(os.path.dirname(os.path.abspath(__file__)))
ALL = ['C%02d' % i for i in range(1, 21)]

CLAIMED = {
 'C01': dict(level='proof',
   text='Static proof, over all paths of the MIR of the current tree, of structural clauses of C01: (SR-1) the three mode wrappers restore every scoring field they overwrite on every return and hand the documented mode constants to the core routine, which never writes scoring; (RI-1) in the core routine the first mention of every reused scratch buffer (I/D/S columns, Lx, Ly, Sn, traceback dimensions) on every path is a reset; (TB-1) the diagonal move is labelled TB_MATCH exactly on the edge x[i-1] == y[j-1] and TB_SUBST on the other, and every arm of the traceback match pushes the operation of its move code; (TB-1b) in the fix-up passes after the main DP every raise of a score cell is paired with the corresponding set_*_bits on the stored traceback cell, so path and score cannot diverge there; (AO-1) every call of the substitution function in the DP receives a symbol derived from x first and one derived from y second (data provenance), so asymmetric matrices are not applied transposed. Optimality of the recurrence, clip bookkeeping and coordinates are values of a DP over runtime data and are NOT decided.',
   note='Trusted: rustc MIR construction, the fact extractor, the abstract interpreters (SR, RI). Assumes Vec::clear empties '
        'the vector, that capacity does not influence results, and that foreign callees only write through the &mut '
        'arguments they are given. Behaviour of the DP itself is outside the claim.',
   technique='static analysis: abstract interpretation over rustc MIR (symbolic save/restore, must-reset dataflow with loop peeling)',
   ref='DESIGN.md section 2, C01'),

 'C02': dict(level='proof',
   text='Static proof over all MIR paths of structural clauses of C02: (SR-2) the four banded mode wrappers restore every scoring field and pass the documented mode constants; no custom* entry point writes scoring; (TS-1) the private compute_alignment is reached only from entry points in which a store self.band = Band::create*(..) dominates the call, and every Band::create* returns a band built by Band::new(len x, len y) in that call; (RI-2) first mention of every scratch buffer incl. the traceback matrix is a reset; (GD-1) the over-budget edge of num_cells > MAX_CELLS returns the MIN_SCORE/empty sentinel and all DP state is touched only behind the other edge; (TB-1, TB-1b, AO-1) operation labelling, score/traceback co-update and argument order of the substitution function as in C01. Soundness of in-band DP, equality with the unbanded optimum and termination are NOT decided (two termination/score defects on empty sequences were found by running the code and repaired, see known_findings.txt).',
   note='Trusted: rustc MIR, extractor, SR/RI/GD engines; Vec::clear semantics; foreign callees write only through &mut arguments.',
   technique='static analysis: abstract interpretation + dominance/typestate rules over rustc MIR',
   ref='DESIGN.md section 2, C02'),
 'C16': dict(level='proof',
   text='Static proof of graph-monotonicity, freshness and mode clauses of C16: (EF-5) every call in alignment::poa receiving &mut Graph is add_node, add_edge with a positive constant weight, or edge_weight_mut used only as *w += const; the graph field is never reassigned; (TS-7) per operation at most one add_node, labelled seq[i], followed on every path by i += 1; (EF-7) endpoints of add_edge are created in the call, named by the alignment operation, or the head - never a graph-query result, the head comes from the topological order and no node is addressed by a constant index (necessary for acyclicity); (SR-3) the three mode wrappers restore the clip penalties and pass the documented constants to the core routine; (EF-6) every Poa routine returning a Traceback builds it fresh, takes &self, and the Aligner passes no state of an earlier alignment to it. Score equality with Needleman-Wunsch and consensus validity are NOT decided.',
   note='Trusted: rustc MIR, extractor, engines; petgraph API contracts for add_node/add_edge/edge_weight_mut (they do not remove or relabel).',
   technique='static analysis: who-may-call/effect rule on &mut Graph receivers, path counting on the loop CFG, symbolic save/restore',
   ref='DESIGN.md section 2, C16'),

 'C08': dict(level='proof',
   text='(EF-1, proved) A search cannot change a matcher: find_all takes &self, the types cannot hold interior mutability, the iterator state is a fresh aggregate and no reachable body touches mutable/non-Freeze statics. (PO-1) Every MIR Assert (bounds, overflow, shift, division), every may-panic std call and every wrapping/overflowing shift amount in the five matcher modules is discharged automatically by an interval analysis using the private-field invariant m <= 64 established at all struct-literal sites (this decides the documented 64-symbol limit; two genuine word-width defects were found and repaired), or matches an audited entry with a proof sketch. (TB-13) per-byte Vec tables of the matcher constructors have 256 entries; (TS-9) KMP failure links are followed iteratively (q = lps[q-1] lies on a cycle in delta and on an inner cycle in lps). Completeness/soundness of the skipping logic for periodic patterns is otherwise NOT decided.',
   note='Trusted: rustc MIR (dev profile, overflow checks explicit), extractor, interval engine, and the audited table in '
        'rules/c08.py (manual proof sketches keyed by function/kind/normalised operands; any change of that arithmetic must '
        'be re-audited and is reported until then). Non-empty patterns assumed (quantifier of C08).',
   technique='static analysis: effect/Freeze analysis + interval abstract interpretation of panic obligations over rustc MIR',
   ref='DESIGN.md section 2, C08'),
 'C13': dict(level='other',
   text='Necessary-condition rules decided on the MIR: (EF-4) the GFF serialiser traverses the attribute multimap only with all-values APIs (found and repaired a loss of multi-valued attributes); (VD-1) the Option returned by Phase::validate is examined so out-of-range phases become errors (found and repaired a silent coercion); (RI-4) the BED/GFF writers keep no scratch state across write() calls unless its first mention is a reset on every path; (TB-4) reader and writer take separators from the same GffType::separator table, csv delimiter TAB and comment # agree, readers are not flexible about the column count, writer and reader agree on csv quoting, GffType::separator holds the dialect table (GFF2/GTF2 values are not split), nothing in io::bed / io::gff parses a float (VD-2), regex named groups match the indexes used. Field-for-field equality through the external csv/serde layers is NOT decided.',
   note='Trusted: rustc MIR, extractor; multimap API contract (iter = first value per key; iter_all/flat_iter/get_vec = all values); csv builder semantics.',
   technique='static analysis: forbidden-callee / validator-discipline / table-agreement rules over resolved callees in rustc MIR',
   ref='DESIGN.md section 2, C13'),

 'C14': dict(level='other',
   text='Sibling cross-check decided on resolved callees: (SB-3) viterbi, forward and backward each consult all four '
        'probabilistic components of the Model interface (initial, transition, observation, end) - this found that viterbi '
        'ignored end_prob (likelihood < Viterbi probability for models with end probabilities), fixed in /repo; (SB-4) within every '
        'Model impl the four accessors read pairwise distinct parameter tables and index them with the method parameters in '
        'declaration order; (OR-1) in viterbi no end_prob is applied after the arg-max/traceback has been taken (the reported path must be optimal for the reported score); (GD-8b) LogProb::ln_sum_exp drops a term only for being the maximum or exact ln(0); (RI-5) no hoisted scratch vector of forward/backward/viterbi_matrices receives elements while it may hold those of an earlier iteration; TB-10 of C15 (cut-off of the fast exponential under ln_sum_exp) is part of this check; (PO-8) every panic obligation (unwrap, indexing, index arithmetic) of viterbi/forward/backward and their closures is discharged or audited for T >= 1, S >= 1 - impossible sequences must give probability zero, not a panic. Equality with the path-sum/path-max definition and NaN freedom are NOT decided.',
   note='Trusted: rustc MIR, extractor, call graph incl. closures. A component that is called but combined wrongly is not detected.',
   technique='static analysis: sibling/interface-coverage rule over the call graph of type-checked MIR',
   ref='DESIGN.md section 2, C14'),
 'C18': dict(level='other',
   text='Consistency rules decided on the MIR of BitEnc and SmallInts: (UC-1) bit offsets returned by BitEnc::addr are ranged '
        'over / compared with / subtracted from the field usable_bits_per_block only, never a literal word size - found the '
        '(bit..32) defect for widths 3,5,6,7, fixed in /repo; (SB-5) new and with_capacity initialise all fields identically and '
        'assert the same limit, SmallInts push/set/real_value use the same strict threshold against S::max_value(); (GD-7) '
        'BitEnc::get addresses storage only behind i < len and returns None otherwise, clear resets storage and len; (FW-1) FenwickTree::set/get combine stored values only through PrefixOp::operation (a value comparison is valid for max only, not for sums), the update walk is bounded by tree.len() (FW-2) and SmallInts::set overwrites an existing big value; (MK-1) every caller-supplied value widened into a storage word is masked with self.mask first in push, set and push_values - found push_values storing unmasked values, fixed in /repo. '
        'Observational equivalence with Vec over all histories and Fenwick trees are NOT decided.',
   note='Trusted: rustc MIR, extractor. Rules are necessary conditions; the packing arithmetic itself is not verified.',
   technique='static analysis: unit/belief-consistency and sibling-agreement rules over rustc MIR data flow',
   ref='DESIGN.md section 2, C18'),
 'C19': dict(level='other',
   text='(CS-1) every q-dependent table of QGramIndex::with_max_count is sized by a shift of q * get_width(), the code space of '
        'RankTransform::qgrams - found |A|.pow(q) sizing that panics for alphabets whose size is not a power of two, fixed in '
        '/repo; (SB-6) qgrams, rev_qgrams and get_width compute bits per symbol with the same expression and assert the same '
        'word-size bound; (TS-8) the vectors returned by find_kmer_matches_seq1_hashed and expand_kmer_matches, and the event '
        'vectors of lcskpp/sdpkpp, pass through sort after their last push before being returned/read; (DK-1) the key under which matches/exact_matches merge hits is the signed difference text position - pattern position; (EV-1) lcskpp/sdpkpp tag start events idx + len and end events idx and decode tag >= len as start and address the Fenwick tree at the event column; (QM-1) the q-gram mask is all ones when q * bits fills the word; (PO-6) every panic obligation of qgram_matches/matches/exact_matches is discharged or audited - found the usize diagonal p - i that panics in debug builds, fixed in /repo. Exactness of matches and '
        'optimality of chains are NOT decided.',
   note='Trusted: rustc MIR, extractor. find_kmer_matches_seq2_hashed is deliberately exempt from TS-8 (its pushes are already in order).',
   technique='static analysis: data-flow provenance of allocation sizes, sibling agreement, must-pass-through (typestate) on the CFG',
   ref='DESIGN.md section 2, C19'),

 'C07': dict(level='proof',
   text='Static proof over all MIR paths of the structural invariants the overlap queries rest on: (TS-2) in Node::{insert,repair,'
        'rotate_left,rotate_right} every node object is refreshed by update_height and update_max after its last structural '
        'change before it is returned or linked into the tree, and both refresh functions consult both children; (TS-3) repair '
        'post-dominates the child update in insert, the balanced-case guard is |left_h - right_h| <= 1, the other edge always '
        'rotates self and the inner (double) rotation is decided by a strict comparison of the two grandchild heights; (SB-1) the shared and mutable iterators prune with the same three predicates and intersect is the four '
        'half-open comparisons; (TS-4) array-backed tree: mutation clears `indexed`, index = sort; index_core; true, find_into '
        'reads the index only behind the refusing guard and clears the caller-supplied result vector on every returning path; (SG-1) no public API hands out &mut to a key/node; (SB-8) AnnotMap insert '
        'and find key by refid and build the same interval. Correctness of the pruning predicates for every tree shape and of '
        'the implicit-tree index arithmetic is NOT decided.',
   note='Trusted: rustc MIR, extractor, points-to/effect engine (flow-insensitive, conservative for call results), typestate engine. '
        'Summaries "callee leaves its receiver fresh" for repair/rotate_*/insert are verified by the same rule in the callee.',
   technique='static analysis: typestate (may-stale) dataflow over MIR with points-to, post-dominance, guard normalisation, sibling cross-check',
   ref='DESIGN.md section 2, C07'),

 'C06': dict(level='other',
   text='One table clause decided exactly: (TB-2) the symbol order literal iterated by FMDIndex::backward_ext equals the '
        'complements (reconstructed from the dna::COMPLEMENT initialiser) of the index alphabet (literal of dna::n_alphabet plus '
        'the sentinel inserted and asserted in FMDIndex::from) in ascending byte order, and forward_ext is the swapped backward '
        'extension by the complement symbol (checked structurally on the interval literals); SB-10 of C04 (sampled Occ table) is part of this check; (RI-5) in smems / all_smems no element is appended to a hoisted scratch vector that may still hold elements of an earlier iteration. Supermaximality and interval/occurrence exactness are NOT decided.',
   note='Trusted: rustc MIR constants (byte-string literals), extractor, table reconstruction of C20/TB-6.',
   technique='static analysis: literal/constant table agreement extracted from type-checked MIR',
   ref='DESIGN.md section 2, C06'),
 'C15': dict(level='other',
   text='Exact clauses decided on evaluated constants and MIR: (TB-5) LOG_TO_PHRED_FACTOR and PHRED_TO_LOG_FACTOR equal -10/ln10 '
        'and -ln10/10 within 2 ulp, are mutually inverse, and every From impl between LogProb/PHREDProb/Prob uses the factor or '
        'base-10 formula of its direction; (GD-5) Prob::checked builds Ok only on the edge of (0.0..=1.0).contains(&p); (GD-8) in '
        'ln_add_exp/ln_sum_exp/ln_sub_exp the difference of two log-probabilities is only formed behind an `== ln_zero()` guard '
        '(no -inf - -inf = NaN); (GD-8b) ln_sum_exp drops terms only for being the maximum or exact ln(0) and ln_sub_exp compares with the default relative tolerance; (TB-5) LogProb::from(Prob) is ln of the probability itself; (TB-10) the evaluated constants of the fast exponential satisfy MIN_VAL * ONEBYLOG2 + OFFSET_F64 >= 1 and MIN_VAL <= -40 (cut-off inside the domain of the bit trick and below the accuracy threshold). Every accuracy bound of the fast exponential is NOT decided (no static f64 error analysis in reach).',
   note='Trusted: rustc const evaluation, MIR, extractor.',
   technique='static analysis: evaluated-constant checks and guard dominance over rustc MIR',
   ref='DESIGN.md section 2, C15'),
 'C17': dict(level='other',
   text='(GD-6) rank_1 reads the bit vector only behind i < n and returns None otherwise, select_x refuses j == 0 before any '
        'access, rank_0 = (i+1) - rank_1(i), WaveletMatrix::rank asserts p < width before walking levels; (NC-2) every value-changing integer cast in rank_select.rs / wavelet_matrix.rs is discharged by interval analysis; rank visits every level of the wavelet matrix; (SB-9) select_1/select_0 '
        'and RankSelect::new pair the matching superblock table, bit predicate and popcount; (TB-7) the evaluated DNA2INT table is '
        'injective on ACGTN$, fits the literal height, lower-case twins agree, and builder and query select bit (height-level-1). '
        'Equality with naive counting at superblock boundaries is NOT decided.',
   note='Trusted: rustc MIR and const evaluation, extractor.',
   technique='static analysis: guard dominance, sibling pairing and evaluated-table rules over rustc MIR',
   ref='DESIGN.md section 2, C17'),
 'C20': dict(level='proof',
   text='(TB-6, exhaustive over all 256 bytes) the DNA and RNA complement tables are reconstructed from their initialisers '
        '(identity pre-fill, the two pair literals, store shapes t[a]=b and t[a+32]=b+32 recognised in the MIR, anything else fails '
        'closed) and checked to be involutions that preserve case, fix non-letters and pair A-T/U, C-G; complement() is a plain '
        'lookup and revcomp = rev . map(complement), hence revcomp(revcomp(x)) = x. (TB-8) gc content counts exactly {C,G,c,g} and '
        'gc_content/gc3_content use steps 1/3. (TS-10) in the ORF finder every path from a stop codon to the next symbol empties the pending start positions of that frame; (GD-11) every reported Orf is built behind a min_len test on its own start position; gc content counts the symbols it visits (no size hint); (BR-1) constant byte ranges in the alphabets module end at 256. ORF soundness/completeness and alphabet rank bijection are NOT decided.',
   note='Trusted: rustc MIR constants, extractor, and that the recognised store shapes are the only writes to the table (checked: any other store fails closed).',
   technique='static analysis: table reconstruction from MIR literals + exhaustive finite check',
   ref='DESIGN.md section 2, C20'),

 'C03': dict(level='other',
   text='Clauses decided: (SB-7) writer/reader agreement of the sampled suffix array - sample() stores row i exactly on i % rate == 0 with rate kept in field s and inserts extra_rows[i] for unsampled sentinel rows; get() reads sample[pos / s] exactly on pos % s == 0 and extra_rows[&pos] under the mirrored condition, behind index < len; (NF-1) no count that went through an int->f32->int round trip is used as a bound/length/index in sample(); (SB-5s) the LCP storage SmallInts uses the same strict small/big threshold in push, set and real_value; (NC-1) every value-changing integer cast in the suffix-array module (narrowing, signed/unsigned) is discharged by interval analysis or is one of two audited conversions, so a truncated sentinel count or rank is reported; (TB-11) each SAIS recursion branch sorts LMS names in a type that holds its branch bound; SB-10 and PO-9 of C04 (Occ table and bwt.rs arithmetic, used for every sampling rate) are part of this check. Sortedness of the suffix array, sentinel ordering, LCP and shortest-unique-substring values and the LF-walk arithmetic are NOT decided.',
   note='Trusted: rustc MIR, extractor, guard normalisation.',
   technique='static analysis: writer/reader guard agreement (normalised comparisons + dominance) over rustc MIR',
   ref='DESIGN.md section 2, C03'),
 'C09': dict(level='proof',
   text='Clauses proved on the MIR: (RI-3) Ukkonen::find_all_end clears and refills both reused DP columns on every path before the iterator is built, Matches::next never resizes them; (EF-2) for both instantiations of impl_myers! distance/find_all_end/find_best_end take &self and the Myers types cannot hold interior mutability; (PO-5) every panic / overflow obligation of the block-based column update (long::States::{new,add_state,step}, advance_block, ceil_div, word_size) is discharged or audited - this found max_dist + w overflowing for the usize::MAX that distance()/find_best_end() pass (wrong distances in release builds), repaired in /repo; (SB-11) both Myers constructors set the own bit of a pattern symbol on every iteration of the per-symbol loop, whatever the ambiguity table contains; (CF-1) in Ukkonen every store into the DP column is dominated by the call of the user cost function; (TB-12) find_best_end keeps the first minimum (min_by_key or a strict comparison). That reported distances equal the edit-distance definition (bit-vector arithmetic, block activation logic, delegated crates) is NOT decided.',
   note='Trusted: rustc MIR, extractor, RI engine, interval engine and the audited tables PO5_AUDIT (rules/c09.py) and PO10_AUDIT (rules/round5.py): manual proof sketches keyed by function/kind/normalised operands; any change of that arithmetic must be re-audited and is reported until then. Vec::clear semantics; the external crates triple_accel / editdistancek compute the metric their function names say.',
   technique='static analysis: must-reset dataflow and receiver/Freeze effect analysis over rustc MIR',
   ref='DESIGN.md section 2, C09'),
 'C10': dict(level='proof',
   text='Refusal, reset and independence clauses proved on the MIR: (GD-2) Traceback::traceback_at reaches _traceback_at only on an edge equivalent (as polynomials) to pos + 2 <= self.pos, else None; (PO-7) the arithmetic on the caller-supplied end position cannot panic or wrap - this found hit_at(usize::MAX) being answered from stale columns in release builds, repaired in /repo; (EF-3) the four lazy *_at queries of both instantiations reach the traceback only through that guarded entry; (EF-8) they read no field that next() mutates other than the stored columns, so answers for searched ends do not depend on the search cursor; (GD-3) FullMatches::{start,path_reverse,alignment} run the traceback only when unsuccessfully_finished is false; (TS-5) both Matches constructors pass the state store through Traceback::new, which resizes it on both branches, then writes the sentinel column, then the first state; Traceback is constructed nowhere else; (TB-9) Subst/Ins/Del/Match each behind their own test; (TS-11) update_aln writes all eight coordinate fields of the caller-supplied Alignment on every path; (RI-6) the eager path_reverse clears the caller-supplied operations vector before the traceback. Validity of paths, ring-buffer wrap-around and equality of block-based and single-word alignments are NOT decided.',
   note='Trusted: rustc MIR, extractor, call graph; impl_myers! is analysed in both instantiations (simple, long).',
   technique='static analysis: guard dominance, who-may-call over the call graph, must-pass-through ordering over rustc MIR',
   ref='DESIGN.md section 2, C10'),

 'C11': dict(level='other',
   text='Robustness clauses decided on the MIR of the FASTA/FASTQ readers, record iterators and sniffers: (PO-2) every panic obligation reachable from them is discharged (line[1..] by the dominating starts_with(<ASCII>)) or audited; (ED-1) every Result is propagated/inspected; (LP-1) every parser loop is counted or clears its buffer before read_line and exits on an empty buffer; (LT-1) everything appended to seq/qual and the header is str::trim_end of the line buffer, so LF/CRLF and re-wrapped layouts parse alike; (GD-10) a FASTQ record is returned as Ok only with a non-empty quality string, otherwise Err(IncompleteRecord); (LT-2) on every successful return of the FASTA/FASTQ writers the last write ends the line, so records cannot be glued together; (SK-1) get_kind_seek rewinds relative to the current position by exactly the byte it read; (TB-3) writer markers/separator, reader markers, sniffer mapping, Kind-to-parser pairing agree and every Ok of get_kind_detailed carries Cursor::new(sniffed byte).chain(reader). Losslessness over all records, buffer capacities and chunkings is NOT decided.',
   note='Trusted: rustc MIR, extractor, interval engine, 2 audited obligations; the user-supplied BufRead does not panic; std read_line reports invalid UTF-8 as an error.',
   technique='static analysis: panic-obligation enumeration with interval discharge, error-discipline and loop-shape rules, table agreement over rustc MIR',
   ref='DESIGN.md section 2, C11'),
 'C12': dict(level='other',
   text='Error and independence clauses decided on the MIR of IndexedReader: (GD-4) read/read_iter need a complete fetch, both read_into_* validate stop <= idx.len and start <= stop before seek_to with Err otherwise, unknown names/numbers give Err, read_line turns an exhausted reader into Err(UnexpectedEof) before copying/consuming, fill_buffer runs only with bases left; (SB-2) buffer and iterator paths make the same checks; (TS-6) every fetch* sets start, stop and fetched_idx on every success path and nothing on failure, from the parameters in order; (ED-2) no plain Read::read whose byte count is ignored (short reads/truncation must not yield Ok); (OR-2) fasta::Index never reorders the record vector after record numbers were handed out; (RI-7) every Ok return of read() follows seq.clear(); (PO-3) all reachable panic obligations discharged (stop - start via a difference constraint) or audited. Exactness of offsets for every (start, stop, width, CRLF) and fragmentation is NOT decided.',
   note='Trusted: rustc MIR, extractor, interval engine, 16 audited obligations (rules/c12.py); assumes index line width >= 1 as in the property quantifier.',
   technique='static analysis: guard dominance / must-store typestate / sibling agreement / panic obligations over rustc MIR',
   ref='DESIGN.md section 2, C12'),

 'C04': dict(level='other',
   text='Clauses decided: (SB-10) writer/reader agreement of the sampled Occ table - Occ::new pushes a checkpoint for row i exactly when i % k == 0, after counting bwt[i], with k the stored field; Occ::get combines checkpoint r / k with a byte count over (q*k, r] (added) and, in the k > 64 look-ahead branch, checkpoint q + 1 with a count over (r, (q+1)*k] (subtracted); ranges and checkpoint indices are compared as polynomials in r, k and q = r / k, so algebraic rewrites are accepted and off-by-one changes are not; (GD-9) bwt() takes text[p-1] on p > 0 and text[n-1] otherwise; (EF-9) bwtfind is built by the stable counting sort, no unstable sort is reachable from it; (PS-1) less() applies its prefix sum to the whole table it returns; (PO-9) every panic / wrap obligation of bwt.rs is discharged or audited against the documented preconditions (38 audited). Exactness of less/prescan, invert_bwt and of the counts themselves over all texts is NOT decided.',
   note='Trusted: rustc MIR, extractor, expression reconstruction and the polynomial normaliser (rules/poly.py); bytecount::count counts occurrences in the given slice.',
   technique='static analysis: writer/reader agreement with symbolic (polynomial) normalisation of index arithmetic over rustc MIR',
   ref='DESIGN.md section 2, C04'),

 'C05': dict(level='other',
   text='One clause group decided by def-use analysis of FMIndexable::backward_search (roles of the mutable variables are identified '
        'from the result aggregates, not from names): (LF-1) the interval of the longest matching suffix is saved (pl = l, pr = r) '
        'before the LF step; l := less(a) + (occ(l - 1, a) on the edge l > 0, else 0) and r := less(a) + occ(r, a) - 1, compared as '
        'polynomials so algebraic rewrites are accepted; an empty interval (l > r) clears the complete flag and leaves the loop '
        'without counting the symbol, otherwise matched += 1; the result is Complete{l, r + 1} / Partial({pl, pr + 1}, matched) / '
        'Absent selected by (matched > 0, complete); (LF-2) every way of giving up inside the loop is dominated by the save of the current interval; (SB-10 of C04) the sampled Occ table the interval arithmetic rests on is read as it is written; the search loop iterates exactly pattern.iter().rev() (no take/skip/step adapters); Interval::occ enumerates exactly lower..upper through the suffix array; the sampled suffix array that resolves positions satisfies SB-7 of C03 incl. sentinel taken from the text. '
        'Exactness of the interval for every text/pattern (which rests on Occ/less being exact) is NOT decided; the ownership clause '
        '(owned/borrowed/Arc components) holds by parametricity of the single blanket impl.',
   note='Trusted: rustc MIR, extractor, expression reconstruction and polynomial normaliser.',
   technique='static analysis: def-use / guard-dominance shape rules with symbolic normalisation of the LF-step arithmetic over rustc MIR',
   ref='DESIGN.md section 2, C05'),
}

NOT_BUILT = 'rule not built yet (see DESIGN.md section 6)'
NA = {
}

# sentences appended to the claim texts for the rules of round 5 (rules/round5.py)
EXTRA = {
 'C05': ' (LS-1) bwt::less allocates at least max_symbol + 1 + the largest constant offset used by any less(a + c) look-up in fmindex.rs.',
 'C06': ' (LS-1) the less table covers less(a + 1) for the largest alphabet symbol: its size is compared with the offsets collected from the look-ups in fmindex.rs.',
 'C07': ' (TS-12) Node::insert descends by the interval start (alone or as leading key component), which find() relies on when it prunes right subtrees.',
 'C08': ' (ET-1) in ShiftAnd every path from the mask look-up of a consumed symbol to the next look-up or a return passes the accept test unless the state was set to the constant 0.',
 'C09': ' (PQ-1) every [T; N] symbol table of the Myers implementations has 256 entries and is indexed by the widened byte itself. (PO-10) the panic obligations of the Ukkonen entry points that receive the caller numbers (with_capacity, find_all_end) are discharged or audited; this found find_all_end overflowing for k = usize::MAX, repaired in /repo.',
 'C10': ' (OB-1) FullMatches::path / LazyMatches::path_at reverse exactly the part of the caller vector that the *_reverse function appended (cleared first, or the sub-slice from the length observed before); this found path_at scrambling a vector that already held operations, repaired in /repo. SB-11 of C09 (a pattern symbol always matches itself, whatever the ambiguity table holds) is part of this check.',
 'C11': ' (EP-1) Record::clear establishes, on every path, the state of every field that Record::is_empty tests (the end-of-input protocol of the readers).',
 'C13': ' TB-4 covers every function of bed.rs/gff.rs that builds a csv reader, not only Reader::new. (CO-1) the first eight columns gff::Writer::write serialises are the stored fields in the reader column order, taken directly from the fields.',
 'C14': ' (ZR-1) nothing reachable from <LogProb as Zero>::is_zero exponentiates, so the zero-aware maximum of Viterbi tests the logarithm itself.',
 'C15': ' (ZR-1) LogProb::is_zero is decided in log space. (CS-1) the scan step of ln_cumsum_exp stores only ln_add_exp(state, item) to the running state.',
 'C16': ' (AO-1) the four MatchFunc::score call sites of Poa::custom / global_banded take their first symbol from the graph and the second from the query (data provenance).',
 'C19': ' (FW-1, FW-2) the Fenwick tree used by the sparse DP combines values only through its operator and its update walk covers the last node.',
}


CF2 = ' (CF-2) no function of the modules this property rests on folds ASCII case: symbols are compared as the bytes they are.'

# sentences appended for the rules of round 6 (rules/round6.py)
EXTRA2 = {
 'C01': ' (CL-1) the aligner produced by Clone::clone carries clone(self.scoring); a clone rebuilt through a convenience constructor would lose the clip penalties.',
 'C02': ' (CL-1) the banded aligner produced by Clone::clone carries clone(self.scoring).',
 'C07': ' (TS-13) in Node::update_max every replacement of the running maximum happens on the edge where the accumulator itself compares smaller than the child max.',
 'C09': ' (DL-1) the simd distance functions delegate to functions of the external crates that compute the same metric (never a Damerau variant for Levenshtein).',
 'C12': ' (EF-10) read, read_iter and the read_into_* workers never write the fetch state, so a failed read can be repeated.',
 'C13': ' (MM-1) gff::Records::next stores attributes with the accumulating MultiMap::insert, never a first-wins entry API; no csv reader of bed.rs/gff.rs trims fields.',
 'C14': ' (AO-3) the forwarding constructors with_prob / with_float of the three HMM models pass parameter k on as argument k of Model::new.',
 'C15': ' TB-5 also fixes PHREDProb::from(Prob) to -10*log10 of the unmodified probability.',
 'C18': ' SB-5 also requires that the big-value side table of SmallInts is only looked up by position (get/insert), never traversed.',
 'C19': ' (SB-12) hash_kmers and the two find_kmer_matches_*_hashed scanners enumerate their windows with the same bound and guards.',
 'C20': ' (NC-3) every value-changing integer cast of the ORF finder is discharged by interval analysis (the frame offset is reduced modulo 3 before it is narrowed). (TB-14) Alphabet::{union, intersection, difference} use the bit-set operation of the same name on (self, other).',
}


# sentences appended for the rules of the sixth seeding round (rules/round7.py)
EXTRA3 = {
 'C12': ' (GD-12) read_line keeps `bases_left` bytes of the BufRead buffer only behind a comparison of bases_left with min(len(fill_buf()), ..), a quantity bounded by what is buffered.',
 'C13': ' (EF-4b) no element-dropping or merging iterator adaptor (dedup, unique, filter, skip, take, ..) is applied in gff::Writer::write: repeated values of a key reach the output.',
 'C14': ' (EP-2) every term of hmm::backward that adds Model::initial_prob for the final likelihood also reads the backward table or calls end_prob (single-observation branch included).',
 'C15': ' (BP-1) in ln_trapezoidal_integrate_exp / ln_simpsons_integrate_exp no interval end handed in as a parameter is evaluated twice as a boundary point (which parameters reach the density; the value of the integral is not decided).',
 'C16': ' (SZ-1) the per-node score table of Aligner::consensus has exactly node_count() slots, so the maximum search can only return a node (this class of defect made consensus() panic on graphs without edges; repaired in /repo).',
 'C19': ' (PO-11) every wrapping/overflowing/unchecked shift of RankTransform::{qgrams, rev_qgrams} and the q-gram iterators has a shift amount proved smaller than the word width (q * bits may equal the word size); count zero today, positive control by self-test mutant.',
 'C20': ' (SW-1) the codon window shared by the three reading frames is only slid inside orf::Matches::next, never emptied, shortened or replaced.',
}


def main():
    checks = []
    na = []
    for pid in ALL:
        if pid in CLAIMED and os.path.exists(os.path.join(VERIF, 'rules', pid.lower() + '.py')):
            c = CLAIMED[pid]
            checks.append({
                'property_id': pid,
                'quick_cmd': './bin/check %s --tier quick' % pid,
                'thorough_cmd': './bin/check %s --tier thorough' % pid,
                'evidence_file': '/verif/evidence/%s.json' % pid,
                'replay_cmd_template': './bin/check %s --replay {path}' % pid,
                'engine': 'biofacts+rules',
                'level_claimed': {'category': c['level'], 'text': c['text'] + EXTRA.get(pid, '') + EXTRA2.get(pid, '') + EXTRA3.get(pid, '') + (CF2 if pid in ('C01', 'C02', 'C05', 'C06', 'C08', 'C09', 'C10', 'C16', 'C19', 'C20') else ''), 'design_ref': c['ref']},
                'level_note': c['note'],
                'technique': c['technique'],
            })
        else:
            na.append({'property_id': pid, 'reason': NA.get(pid, NOT_BUILT)})
    m = {
        'version': 1,
        'setup_cmd': './bin/setup',
        'hooks': {'guard': 'bio_verif',
                  'enable': 'none needed: the checks analyse the unmodified source (type-checked MIR); no hooks are compiled in',
                  'baseline_off_cmd': 'cd /repo && cargo test --workspace --no-fail-fast --offline',
                  'source_commits': [], 'add_only': True},
        'engines': [
            {'name': 'biofacts', 'path': '/verif/driver', 'serves_properties': sorted(CLAIMED),
             'kind_free_text': 'rustc_private driver (nightly) dumping mir_built + type facts of crate bio as JSON, injected via RUSTC_WORKSPACE_WRAPPER into cargo +nightly check'},
            {'name': 'rules', 'path': '/verif/rules', 'serves_properties': sorted(CLAIMED),
             'kind_free_text': 'Python rule engines over the fact file: CFG/dominators/expression reconstruction (mirlib), points-to/write effects, SR save/restore, RI must-reset, guard dominance, typestate, table and sibling rules, panic obligations'},
        ],
        'checks': checks,
        'notes': 'Technique family: static analysis only. Every check re-extracts facts from /repo when its content hash changes and never executes rust-bio code. See DESIGN.md.',
        'not_applicable': na,
    }
    with open(os.path.join(VERIF, 'MANIFEST.json'), 'w') as f:
        json.dump(m, f, indent=1)
    print('claimed', [c['property_id'] for c in checks])

main()
