#!/usr/bin/env python3
"""regenerates /verif/MANIFEST.json from the table below (kept in one place so the manifest is always valid)"""
import json, os
VERIF = os.path.dirname(os.path.dirname(os.path.abspath(__file__)))
ALL = ['C%02d' % i for i in range(1, 21)]

CLAIMED = {
 'C01': dict(level='proof',
   text='Static proof, over all paths of the MIR of the current tree, of the history clause of C01: (SR-1) the three mode '
        'wrappers restore every scoring field they overwrite on every return and hand the documented mode constants to '
        'the core routine, which never writes scoring; (RI-1) in the core routine the first mention of every reused '
        'scratch buffer (I/D/S columns, Lx, Ly, Sn, traceback matrix/rows/cols) on every path is a reset. Optimality of '
        'the recurrence and coordinate bookkeeping are values of a DP over runtime data and are NOT decided.',
   note='Trusted: rustc MIR construction, the fact extractor, the abstract interpreters (SR, RI). Assumes Vec::clear empties '
        'the vector, that capacity does not influence results, and that foreign callees only write through the &mut '
        'arguments they are given. Behaviour of the DP itself is outside the claim.',
   technique='static analysis: abstract interpretation over rustc MIR (symbolic save/restore, must-reset dataflow with loop peeling)',
   ref='DESIGN.md section 2, C01'),

 'C02': dict(level='proof',
   text='Static proof over all MIR paths of the structural clauses of C02: (SR-2) the four banded mode wrappers restore every '
        'scoring field and pass the documented mode constants; no custom* entry point writes scoring; (TS-1) the private '
        'compute_alignment is reached only from entry points in which a store self.band = Band::create*(..) dominates the '
        'call, and every Band::create* returns a band built by Band::new(len x, len y) in that call (no stale band); (RI-2) '
        'first mention of every scratch buffer is a reset; (GD-1) the over-budget edge of `num_cells > MAX_CELLS` returns the '
        'MIN_SCORE/empty sentinel and all DP state is touched only behind the within-budget edge. Soundness of in-band DP, '
        'equality with the unbanded optimum and termination of Band::add_kmer are NOT decided.',
   note='Trusted: rustc MIR, extractor, SR/RI/GD engines; Vec::clear semantics; foreign callees write only through &mut arguments.',
   technique='static analysis: abstract interpretation + dominance/typestate rules over rustc MIR',
   ref='DESIGN.md section 2, C02'),
 'C16': dict(level='proof',
   text='Static proof of the graph-monotonicity and mode clauses of C16: (EF-5) every call in alignment::poa that receives '
        '&mut Graph is add_node, add_edge with a positive constant weight, or edge_weight_mut used only as `*w += const`; the '
        'graph field is never reassigned in a &mut self method, hence no node label or edge is removed or decreased; (TS-7) per '
        'alignment operation at most one add_node, labelled seq[i], followed on every path by i += 1; (SR-3) the three mode '
        'wrappers restore the clip penalties and pass the documented constants to Poa::custom (&self). Score equality with '
        'Needleman-Wunsch, acyclicity and consensus validity are NOT decided.',
   note='Trusted: rustc MIR, extractor, engines; petgraph API contracts for add_node/add_edge/edge_weight_mut (they do not remove or relabel).',
   technique='static analysis: who-may-call/effect rule on &mut Graph receivers, path counting on the loop CFG, symbolic save/restore',
   ref='DESIGN.md section 2, C16'),
}

NOT_BUILT = 'rule not built yet (see DESIGN.md section 6)'
NA = {
 'C04': 'not applicable to static analysis: counting exactness of Occ/less/BWT for every (r,c,k) is arithmetic over runtime data; no clause whose truth is in the shape of the code (DESIGN.md C04)',
 'C05': 'not applicable to static analysis: interval exactness is arithmetic over Occ/less; the ownership clause holds by parametricity of the single blanket impl and cannot be broken by a compiling edit (DESIGN.md C05)',
}

def main():
    checks = []
    na = []
    for pid in ALL:
        if pid in CLAIMED and os.path.exists(os.path.join(VERIF, 'rules', pid.lower() + '.py')):
            c = CLAIMED[pid]
            checks.append({
                'property_id': pid,
                'quick_cmd': './bin/check %s --tier quick' % pid,
                'thorough_cmd': './bin/check %s --tier thorough' % pid,
                'evidence_file': '/verif/evidence/%s.json' % pid,
                'replay_cmd_template': './bin/check %s --replay {path}' % pid,
                'engine': 'biofacts+rules',
                'level_claimed': {'category': c['level'], 'text': c['text'], 'design_ref': c['ref']},
                'level_note': c['note'],
                'technique': c['technique'],
            })
        else:
            na.append({'property_id': pid, 'reason': NA.get(pid, NOT_BUILT)})
    m = {
        'version': 1,
        'setup_cmd': './bin/setup',
        'hooks': {'guard': 'bio_verif',
                  'enable': 'none needed: the checks analyse the unmodified source (type-checked MIR); no hooks are compiled in',
                  'baseline_off_cmd': 'cd /repo && cargo test --workspace --no-fail-fast --offline',
                  'source_commits': [], 'add_only': True},
        'engines': [
            {'name': 'biofacts', 'path': '/verif/driver', 'serves_properties': sorted(CLAIMED),
             'kind_free_text': 'rustc_private driver (nightly) dumping mir_built + type facts of crate bio as JSON, injected via RUSTC_WORKSPACE_WRAPPER into cargo +nightly check'},
            {'name': 'rules', 'path': '/verif/rules', 'serves_properties': sorted(CLAIMED),
             'kind_free_text': 'Python rule engines over the fact file: CFG/dominators/expression reconstruction (mirlib), points-to/write effects, SR save/restore, RI must-reset, guard dominance, typestate, table and sibling rules, panic obligations'},
        ],
        'checks': checks,
        'notes': 'Technique family: static analysis only. Every check re-extracts facts from /repo when its content hash changes and never executes rust-bio code. See DESIGN.md.',
        'not_applicable': na,
    }
    with open(os.path.join(VERIF, 'MANIFEST.json'), 'w') as f:
        json.dump(m, f, indent=1)
    print('claimed', [c['property_id'] for c in checks])

main()
