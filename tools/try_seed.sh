#!/bin/bash
# try_seed.sh <diff> <PROP...> : apply a seeded change to /repo, run the given checks, undo the change
set -u
DIFF=$1; shift
cd /repo && git apply $DIFF || { echo "APPLY FAILED"; exit 2; }
for p in "$@"; do
  echo "--- $p"
  VERIF_EVIDENCE_DIR=/tmp/seed-ev /verif/bin/check $p 2>&1 | tail -6
done
git -C /repo checkout -- .
