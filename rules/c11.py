"""C11 FASTA/FASTQ readers — PO-2 (no panic on arbitrary bytes), ED-1 (error discipline), LP-1 (loop progress),
TB-3 (writer/reader/sniffer marker agreement)."""
import re
from . import eng_po, eng_gd
from .mirlib import call_info, strip, strip_casts, fmt, walk
from .eng_ri import uses_of_locals

LEVEL = 'other'

AUDIT = {
    '<io::fasta::Reader<B> as io::fasta::FastaRead>::read|unwrap|unwrap(Option::map(Iterator>::next(x0),closure{}))<std::string::String>':
        'str::splitn(2, ..) always yields at least one item (possibly the empty string), so the first next() is Some',
    '<io::fastq::Reader<B> as io::fastq::FastqRead>::read|overflow-add|1,x0':
        'lines_read counts successful read_line calls of one record; it cannot reach usize::MAX (each line occupies at least one byte of an in-memory String)',
}


def roots(facts):
    r = []
    r += facts.methods('io::fasta::Reader', 'read', 'FastaRead')
    r += facts.methods('io::fasta::Records', 'next', 'Iterator')
    r += facts.methods('io::fastq::Reader', 'read', 'FastqRead')
    r += facts.methods('io::fastq::Records', 'next', 'Iterator')
    r += [b for b in facts.body_list if re.match(r'^io::fastx::get_kind(_detailed|_seek)?$', b.path)]
    r += facts.methods('io::fastx::EitherRecords', 'next', 'Iterator')
    r += facts.methods('io::fastx::EitherRecords', 'kind') + facts.methods('io::fastx::EitherRecords', 'initialize')
    return r


def starts_with_guards(b):
    """(guard, string expr text, char) for guards `str::starts_with(s, const char)`"""
    out = []
    for g in eng_gd.guards(b):
        e = strip(g['expr'])
        neg = False
        while e[0] == 'un' and e[1] == 'Not':
            neg = not neg
            e = strip(e[2])
        if e[0] == 'call' and e[1].endswith('starts_with') and len(e[2]) == 2:
            s0 = strip(e[2][0])
            # String -> &str deref calls
            while s0[0] == 'call' and s0[1].rsplit('::', 1)[-1] in ('deref', 'as_str', 'borrow', 'as_ref') and s0[2]:
                s0 = strip(s0[2][0])
            c = strip(e[2][1])
            ch = c[1] if c[0] == 'const' and isinstance(c[1], int) else None
            out.append((g, fmt(s0), ch, neg))
    return out


def po2(facts, rep):
    rule = 'PO-2'
    rep.rule(rule, 'no panic on arbitrary bytes: every MIR Assert and may-panic std call in crate code reachable from the '
                   'FASTA/FASTQ readers, their record iterators and the format sniffers is discharged (interval analysis; '
                   '`line[1..]` by a dominating starts_with(<1-byte ASCII char>) guard) or audited; explicit panics are '
                   'violations')
    rs = roots(facts)
    rep.floor(rule, 'reader entry points', len(rs), 10)
    reach = facts.reachable_bodies(rs)
    total = 0
    from .po_known import KNOWN
    bodies = [facts.bodies[k] for k in sorted(reach) if facts.bodies[k].path.startswith(('io::fast', '<io::fast'))]
    for b0, b, ia, obs in eng_po.scan(facts, bodies, KNOWN):
        rep.analysed_body(b0)
        swg = starts_with_guards(b)
        for o in obs:
            total += 1
            key = '%s|%s|%s' % (b.path, o['kind'], o['ops'])
            if o['discharged']:
                rep.ok(rule, key, o['where'], 'interval analysis')
                continue
            if o['kind'] == 'index' and 'RangeFrom{1}' in o['ops']:
                t = b.term(o['bb'])
                s0 = strip(b.expr_operand(t['args'][0], inline_user=True))
                while s0[0] == 'call' and s0[1].rsplit('::', 1)[-1] in ('deref', 'as_str') and s0[2]:
                    s0 = strip(s0[2][0])
                txt = fmt(s0)
                ok = False
                for g, gs, ch, neg in swg:
                    edge_t = g['f'] if neg else g['t']
                    if gs == txt and ch is not None and ch < 128 and b.edge_dominates((g['bb'], edge_t), o['bb']):
                        ok = True
                        why = 'dominated by %s.starts_with(%r): the first char is one byte, so [1..] is on a char boundary' % (
                            txt, chr(ch))
                if ok:
                    rep.ok(rule, key, o['where'], why)
                    continue
            if key in AUDIT:
                rep.audited(rule, key, o['where'], AUDIT[key])
            elif eng_po.orphan_match(key, AUDIT, set(facts.bodies)):
                k0 = eng_po.orphan_match(key, AUDIT, set(facts.bodies))
                rep.audited(rule, key, o['where'], 'arithmetic of the removed function %s, now written in its caller: %s' % (k0.split('|')[0], AUDIT[k0]))
            elif eng_po.implied(key, AUDIT, o):
                rep.audited(rule, key, o['where'], eng_po.implied(key, AUDIT, o)[1])
            else:
                rep.bad(rule, key, o['where'], 'a %s obligation reachable from untrusted input is neither discharged nor '
                                               'audited: %s' % (o['kind'], o['detail']))
    rep.floor(rule, 'obligations enumerated', total, 5)


def ed1(facts, rep):
    rule = 'ED-1'
    rep.rule(rule, 'error discipline: every Result produced by a call in the reader / sniffer bodies is propagated with `?` '
                   '(Try::branch), matched, mapped or returned - never unwrapped, expected or dropped')
    n = 0
    for b in roots(facts):
        fam = [b] + facts.closures_of(b.path)
        for bd in fam:
            rep.analysed_body(bd)
            uses = uses_of_locals(bd)
            for bb, t in bd.calls():
                info = call_info(t)
                if info is None or 'pj' in t['dest']:
                    continue
                ty = bd.locals[t['dest']['l']]['ty']
                if not ty.startswith('std::result::Result<'):
                    continue
                if info['fn'].endswith(('Try::branch', 'FromResidual::from_residual')):
                    continue
                n += 1
                l = t['dest']['l']
                key = '%s|result-of|%s' % (bd.path, info['fn'].rsplit('::', 1)[-1])
                handled = False
                badk = None
                if l == 0:
                    handled = True
                for (kind, ubb, x) in uses.get(l, []):
                    if kind == 'term':
                        tt = bd.term(ubb)
                        if tt['k'] == 'call' and call_info(tt):
                            nm = call_info(tt)['fn'].rsplit('::', 1)[-1]
                            if nm in ('unwrap', 'expect', 'unwrap_or_default', 'unwrap_unchecked'):
                                badk = nm
                            elif nm in ('branch', 'map_err', 'map', 'and_then', 'or_else', 'is_err', 'is_ok', 'ok'):
                                handled = True
                            else:
                                handled = True
                        elif tt['k'] == 'drop':
                            continue
                        elif tt['k'] == 'switch':
                            handled = True
                    else:
                        s = bd.stmts(ubb)[x]
                        if s['k'] == 'assign':
                            handled = True
                if badk:
                    rep.bad(rule, key, bd.loc(bb), 'the error of %s is %s-ed: malformed input panics instead of yielding an '
                                                   'error' % (info['fn'].rsplit('::', 1)[-1], badk))
                elif not handled:
                    rep.bad(rule, key, bd.loc(bb), 'the Result of %s is dropped: an I/O or syntax error is silently ignored' %
                            info['fn'].rsplit('::', 1)[-1])
                else:
                    rep.ok(rule, key, bd.loc(bb), 'propagated / inspected')
    rep.floor(rule, 'Result-producing calls', n, 10)


def lp1(facts, rep):
    rule = 'LP-1'
    rep.rule(rule, 'loop progress (necessary condition for termination): every CFG cycle of fasta::Reader::read and '
                   'fastq::Reader::read is either a counted Range loop, or contains BufRead::read_line preceded in the same '
                   'iteration by String::clear of the same buffer and has an exit edge taken when that buffer is empty '
                   '(read_line appends, so without the clear the buffer never becomes empty at EOF)')
    for b in facts.methods('io::fasta::Reader', 'read', 'FastaRead') + facts.methods('io::fastq::Reader', 'read', 'FastqRead'):
        rep.analysed_body(b)
        backs = b.loops_back_edges()
        heads = sorted({h for _s, h in backs})
        if not heads:
            rep.missing(rule, b.path + '|loops', 'no loop found in read()')
            continue
        for n, h in enumerate(heads):
            # natural loop body
            body = {h}
            st = [s for s, hh in backs if hh == h]
            for s in st:
                body.add(s)
            work = list(st)
            while work:
                x = work.pop()
                if x == h:
                    continue
                for p in b.pred[x]:
                    if p not in body:
                        body.add(p)
                        work.append(p)
            key = '%s|loop@%d' % (b.path, n + 1)
            calls = [(bb, call_info(b.term(bb))) for bb in body if b.term(bb)['k'] == 'call' and call_info(b.term(bb))]
            names = [i['fn'] for _bb, i in calls]
            counted = any(nm.endswith('Iterator::next') and 'Range<' in ((i.get('args') or [''])[0])
                          for (_bb, i), nm in zip(calls, names))
            rl = [bb for bb, i in calls if i['fn'].endswith('BufRead::read_line')]
            if counted:
                rep.ok(rule, key, b.loc(h), 'counted Range loop')
                continue
            cw = eng_gd.counted_while(b, h, body, backs)
            if cw:
                rep.ok(rule, key, b.loc(h), 'counted loop: ' + cw)
                continue
            if not rl:
                rep.bad(rule, key, b.loc(h), 'a loop of the record parser consumes no input (no read_line inside): it cannot '
                                             'be shown to terminate')
                continue
            clears = [bb for bb, i in calls if i['fn'].endswith('String::clear')]
            empt = []
            for g in eng_gd.guards(b):
                if g['bb'] in body and 'is_empty' in g['text']:
                    # exit on empty: one successor outside the loop (possibly through short-circuit blocks)
                    empt.append(g)
            exits_on_empty = False
            for g in empt:
                neg = g['text'].startswith('Not')
                tgt = g['f'] if neg else g['t']
                if tgt not in body or any(x not in body for x in eng_gd.region(b, tgt, stop=body - {tgt})):
                    exits_on_empty = True
            # clear before read_line within the iteration: every path from the header to read_line passes a clear,
            # or the clear sits between the previous read_line and the back edge
            cleared = True
            for r in rl:
                reach = set()
                stack = [h]
                seen = {h}
                ok = True
                # paths within the loop body from h to r avoiding clear blocks
                while stack:
                    x = stack.pop()
                    if x == r and x not in clears:
                        ok = False
                        break
                    if x in clears:
                        continue
                    for s in b.succ[x]:
                        if s in body and s not in seen and (x, s) not in backs:
                            seen.add(s)
                            stack.append(s)
                if not ok:
                    cleared = False
            if not clears or not cleared:
                rep.bad(rule, key, b.loc(rl[0]), 'read_line appends to a buffer that is not cleared in the same iteration: at '
                                                 'end of input the buffer never becomes empty and the loop does not end')
            elif not exits_on_empty:
                rep.bad(rule, key, b.loc(h), 'the loop has no exit taken when the line buffer is empty (end of input)')
            else:
                rep.ok(rule, key, b.loc(h), 'clear -> read_line? -> exit on empty buffer')


def consts_written(b, facts):
    """byte-string constants passed to Write::write_all in body (and local callees) in block order"""
    out = []
    for bb in sorted(b.reachable(0)):
        t = b.term(bb)
        if t['k'] == 'call' and call_info(t):
            fn = call_info(t)['fn']
            if fn.endswith('Write::write_all') and len(t['args']) >= 2:
                e = strip(b.expr_operand(t['args'][1], inline_user=True))
                lit = None
                for x in walk(e):
                    if isinstance(x, tuple) and x[0] == 'const' and isinstance(x[1], tuple) and x[1][0] == 'bytes':
                        lit = bytes(x[1][1])
                out.append(lit if lit is not None else '<' + fmt(e) + '>')
            else:
                cb = facts.bodies.get(call_info(t).get('res') or fn)
                if cb is not None and cb.path.startswith('io::fast') and cb is not b:
                    out += consts_written(cb, facts)
    return out


def tb3(facts, rep):
    rule = 'TB-3'
    rep.rule(rule, 'marker agreement: the first byte written by fasta::Writer (`>`) / fastq::Writer (`@`, separator '
                   '`\\n+\\n`) equals the char tested by the matching reader with starts_with, the sniffers map `>` to FASTA '
                   'and `@` to FASTQ, EitherRecords pairs Kind::FASTA with fasta::Reader and Kind::FASTQ with fastq::Reader, '
                   'and get_kind_detailed chains the sniffed byte back in front of the reader on every Ok path')
    spec = {'fasta': (ord('>'), 'io::fasta::Writer', 'write', 'FastaRead'), 'fastq': (ord('@'), 'io::fastq::Writer', 'write', 'FastqRead')}
    for fmtname, (ch, wty, wfn, rtrait) in spec.items():
        w = facts.method(wty, wfn)
        r = (facts.methods('io::%s::Reader' % fmtname, 'read', rtrait) or [None])[0]
        key = 'io::%s|writer-first-byte-equals-reader-marker' % fmtname
        if w is None or r is None:
            rep.missing(rule, key, 'writer/reader not found')
            continue
        rep.analysed_body(w)
        rep.analysed_body(r)
        lits = consts_written(w, facts)
        rmark = [c for _g, _s, c, _n in starts_with_guards(r)]
        first = lits[0] if lits else None
        if first == bytes([ch]) and ch in rmark:
            rep.ok(rule, key, '%s:%s' % (w.file, w.line), 'writer emits %r first; reader tests starts_with(%r)' % (first, chr(ch)))
        else:
            rep.bad(rule, key, '%s:%s' % (w.file, w.line), 'writer starts records with %r but the reader expects %r (reader markers %s)' % (
                first, chr(ch), [chr(c) for c in rmark if c]))
        if fmtname == 'fastq':
            key = 'io::fastq|separator-line'
            plus = [c for _g, _s, c, _n in starts_with_guards(r) if c == ord('+')]
            if b'\n+\n' in lits and plus:
                rep.ok(rule, key, '%s:%s' % (w.file, w.line), 'writer emits "\\n+\\n"; reader stops the sequence at a line starting with +')
            else:
                rep.bad(rule, key, '%s:%s' % (w.file, w.line), 'sequence/quality separator disagrees: writer literals %s, reader + test %s' % (
                    [x for x in lits if isinstance(x, bytes)], bool(plus)))
        key = 'io::%s|writer-terminates-lines' % fmtname
        if lits and lits[-1] == b'\n' or (fmtname == 'fasta' and b'\n' in lits):
            rep.ok(rule, key, '%s:%s' % (w.file, w.line), 'record ends with a newline')
        else:
            rep.bad(rule, key, '%s:%s' % (w.file, w.line), 'record is not newline-terminated: the next header would be glued to it')
    # sniffers
    for nm in ('get_kind_detailed', 'get_kind_seek'):
        b = facts.body('io::fastx::' + nm)
        key = 'io::fastx::%s|marker-to-kind' % nm
        if b is None:
            rep.missing(rule, key, 'not found')
            continue
        rep.analysed_body(b)
        mapping = {}
        # tests of the sniffed byte: a match on the char / on the byte itself (switchInt over char or u8), or == comparisons
        tests = []   # (constant, target block, [all other targets of that test])
        for bb in b.reachable(0):
            t = b.term(bb)
            if t['k'] == 'switch' and t.get('dty') in ('char', 'u8'):
                for v, tgt in t['vals']:
                    tests.append((v, tgt, [t2 for v2, t2 in t['vals'] if t2 != tgt] + [t['else']]))
        for g in eng_gd.guards(b):
            for c, tgt, other in ((g['cmp_true'], g['t'], g['f']), (g['cmp_false'], g['f'], g['t'])):
                if c and c[0] == 'Eq':
                    for side in (c[1], c[2]):
                        m = re.fullmatch(r"(?:const )?(?:'(.)'|b'(.)'|(\d+)(?:_u8|_u32)?)", side)
                        if m:
                            ch = m.group(1) or m.group(2)
                            tests.append((ord(ch) if ch else int(m.group(3)), tgt, [other]))
        for v, tgt, others in tests:
            reg = eng_gd.region(b, tgt)
            other = set()
            for t2 in others:
                other |= eng_gd.region(b, t2)
            kinds = set()
            for x in reg - other:
                for st in b.stmts(x):
                    if st['k'] == 'assign' and st['r']['k'] == 'agg' and st['r'].get('adt', '').endswith('fastx::Kind'):
                        kinds.add(st['r']['variant'])
            mapping[chr(v)] = sorted(set(mapping.get(chr(v), [])) | kinds)
        if mapping == {'>': ['FASTA'], '@': ['FASTQ']}:
            rep.ok(rule, key, '%s:%s' % (b.file, b.line), str(mapping))
        else:
            rep.bad(rule, key, '%s:%s' % (b.file, b.line), 'sniffer maps %s, expected {">": FASTA, "@": FASTQ}' % mapping)
    d = facts.body('io::fastx::get_kind_detailed')
    key = 'io::fastx::get_kind_detailed|sniffed-byte-chained-back'
    if d is not None:
        rep.analysed_body(d)
        # the buffer the first byte was read into
        buf = None
        for bb, t in d.calls():
            if call_info(t) and call_info(t)['fn'].endswith('Read::read_exact'):
                e = strip(d.expr_operand(t['args'][1], inline_user=False))
                if e[0] == 'local':
                    buf = e[1]
        bad = []
        noks = 0
        for bb in d.reachable(0):
            for s in d.stmts(bb):
                if s['k'] == 'assign' and s['p']['l'] == 0 and s['r']['k'] == 'agg' and s['r'].get('variant') == 'Ok':
                    noks += 1
                    e = strip(d.expr_operand(s['r']['ops'][0], inline_user=True))
                    rd = strip(e[3][0]) if e[0] == 'agg' and e[1] == 'tuple' and e[3] else None
                    good = False
                    if rd is not None and rd[0] == 'call' and rd[1].endswith('Read::chain') and len(rd[2]) == 2:
                        cur, rest = strip(rd[2][0]), strip(rd[2][1])
                        if cur[0] == 'call' and cur[1].endswith('Cursor::<T>::new') and strip(cur[2][0])[0] == 'local' and \
                                strip(cur[2][0])[1] == buf and rest[0] == 'local' and rest[1] == 1:
                            good = True
                    if not good:
                        bad.append(bb)
        if noks >= 1 and not bad and buf is not None:
            rep.ok(rule, key, '%s:%s' % (d.file, d.line), 'all %d Ok returns carry Cursor::new(buf).chain(reader)' % noks)
        else:
            rep.bad(rule, key, d.loc(bad[0]) if bad else '%s:%s' % (d.file, d.line),
                    'an Ok path returns a reader that is not Cursor::new(<sniffed byte>).chain(<input reader>): the first '
                    'record loses or changes its marker byte')
    ini = facts.method('io::fastx::EitherRecords', 'initialize')
    key = 'io::fastx::EitherRecords::initialize|kind-to-parser'
    if ini is None:
        rep.missing(rule, key, 'not found')
    else:
        rep.analysed_body(ini)
        pairs = {}
        for bb in ini.reachable(0):
            for s in ini.stmts(bb):
                if s['k'] == 'assign' and s['r']['k'] == 'agg' and s['r'].get('adt', '').endswith('EitherRecordsInner'):
                    e = strip(ini.expr_operand(s['r']['ops'][0], inline_user=True))
                    src = 'fasta' if 'fasta::Reader' in str(e) else ('fastq' if 'fastq::Reader' in str(e) else '?')
                    pairs[s['r']['variant']] = src
        # which Kind discriminant leads to which variant
        kind_adt = facts.adts.get('io::fastx::Kind')
        vnames = [v['name'] for v in kind_adt['variants']] if kind_adt else []
        sel = {}
        for bb in ini.reachable(0):
            t = ini.term(bb)
            if t['k'] != 'switch':
                continue
            dl = t['d'].get('c') or t['d'].get('m')
            sd = ini.single_def(dl['l']) if dl is not None and 'pj' not in dl else None
            if sd is None or sd[0] != 'stmt' or sd[3]['r']['k'] != 'disc' or not sd[3]['r']['p'].get('ty', '').endswith('fastx::Kind'):
                continue
            edges = [(v, tgt) for v, tgt in t['vals']]
            covered = {v for v, _ in edges}
            rest = [i for i in range(len(vnames)) if i not in covered]
            if len(rest) == 1:
                edges.append((rest[0], t['else']))
            for v, tgt in edges:
                for bb2 in ini.reachable(0):
                    for s2 in ini.stmts(bb2):
                        if s2['k'] == 'assign' and s2['r']['k'] == 'agg' and s2['r'].get('adt', '').endswith('EitherRecordsInner'):
                            if ini.edge_dominates((bb, tgt), bb2) and v < len(vnames):
                                sel[vnames[v]] = s2['r']['variant']
        if pairs == {'FASTA': 'fasta', 'FASTQ': 'fastq'} and sel == {'FASTA': 'FASTA', 'FASTQ': 'FASTQ'}:
            rep.ok(rule, key, '%s:%s' % (ini.file, ini.line), 'Kind -> records %s; records -> parser %s' % (sel, pairs))
        else:
            rep.bad(rule, key, '%s:%s' % (ini.file, ini.line), 'EitherRecords pairs kinds %s and parsers %s' % (sel, pairs))


def lt1(facts, rep):
    rule = 'LT-1'
    rep.rule(rule, 'line-terminator discipline: everything the FASTA/FASTQ readers append to a record\'s sequence or quality '
                   'string is the result of str::trim_end on the line buffer, so LF and CRLF layouts (and re-wrapping) parse '
                   'to the same record; the header is trimmed the same way before it is split')
    n = 0
    for b in facts.methods('io::fasta::Reader', 'read', 'FastaRead') + facts.methods('io::fastq::Reader', 'read', 'FastqRead'):
        rep.analysed_body(b)
        for bb, t in b.calls():
            info = call_info(t)
            if not info or not info['fn'].endswith('String::push_str'):
                continue
            tgt = fmt(strip(b.expr_operand(t['args'][0], inline_user=True)))
            if not (tgt.endswith('.seq') or tgt.endswith('.qual')):
                continue
            n += 1
            e = strip(b.expr_operand(t['args'][1], inline_user=True))
            key = '%s|appended-line-is-trimmed|%s@%d' % (b.path, tgt.rsplit('.', 1)[-1], n)
            if e[0] == 'call' and e[1].endswith('str::<impl str>::trim_end') or (e[0] == 'call' and e[1].endswith('::trim_end')):
                rep.ok(rule, key, b.loc(bb), 'push_str(line.trim_end())')
            else:
                rep.bad(rule, key, b.loc(bb), 'a line is appended as `%s` without trim_end: a CR of a CRLF line end (or other '
                                              'trailing whitespace) becomes part of the record' % fmt(e)[:80])
        # header
        hd = [bb for bb, t in b.calls() if call_info(t) and call_info(t)['fn'].endswith('::splitn')]
        key = '%s|header-trimmed-before-split' % b.path
        okh = False
        for bb in hd:
            e = strip(b.expr_operand(b.term(bb)['args'][0], inline_user=True))
            if e[0] == 'call' and e[1].endswith('::trim_end'):
                okh = True
        if hd and okh:
            rep.ok(rule, key, b.loc(hd[0]), 'line[1..].trim_end().splitn(2, ..)')
        else:
            rep.bad(rule, key, '%s:%s' % (b.file, b.line), 'the header line is split without trimming the line end first')
    rep.floor(rule, 'appends to seq/qual', n, 3)


def gd10(facts, rep):
    rule = 'GD-10'
    rep.rule(rule, 'FASTQ completeness: once a header was read, fastq::Reader::read returns Ok only on the edge where '
                   'record.qual is non-empty; the other edge leads to Err(IncompleteRecord) on every path (a stream cut '
                   'inside a record must not yield a record)')
    for b in facts.methods('io::fastq::Reader', 'read', 'FastqRead'):
        rep.analysed_body(b)
        key = 'fastq::Reader::read|empty-quality-is-incomplete'
        gs = [g for g in eng_gd.guards(b) if 'is_empty' in g['text'] and '.qual' in g['text']]
        if len(gs) != 1:
            rep.bad(rule, key, '%s:%s' % (b.file, b.line), 'expected one test of record.qual.is_empty(), found %d' % len(gs))
            continue
        g = gs[0]
        neg = g['text'].startswith('Not')
        empty_t = g['f'] if neg else g['t']
        oks = []
        for x in eng_gd.region(b, empty_t):
            for s in b.stmts(x):
                if s['k'] == 'assign' and s['p']['l'] == 0 and s['r']['k'] == 'agg' and s['r'].get('variant') == 'Ok':
                    oks.append(x)
        errs = [x for x in eng_gd.region(b, empty_t) for s in b.stmts(x)
                if s['k'] == 'assign' and s['r']['k'] == 'agg' and s['r'].get('variant') == 'IncompleteRecord']
        if oks:
            rep.bad(rule, key, b.loc(g['bb']), 'a record with an empty quality string can be returned as Ok: a stream truncated '
                                               'inside a record yields a record that was never written')
        elif not errs:
            rep.bad(rule, key, b.loc(g['bb']), 'the empty-quality edge does not produce Error::IncompleteRecord')
        else:
            rep.ok(rule, key, b.loc(g['bb']), 'qual.is_empty() -> Err(IncompleteRecord) on every path')


def run(facts, rep, ctx):
    lt1(facts, rep)
    gd10(facts, rep)
    po2(facts, rep)
    ed1(facts, rep)
    lp1(facts, rep)
    tb3(facts, rep)


_run_before_round3 = run


def run(facts, rep, ctx):
    """rules added after the second seeding round, second half (rules/round3.py)"""
    _run_before_round3(facts, rep, ctx)
    from . import round3
    round3.lt2(facts, rep)
    round3.sk1(facts, rep)



_run_before_round5 = run


def run(facts, rep, ctx):
    """rules added after the fourth seeding round (rules/round5.py)"""
    _run_before_round5(facts, rep, ctx)
    from . import round5
    round5.ep1(facts, rep)
