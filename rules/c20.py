"""C20 complements / GC — TB-6 (complement tables are case-preserving involutions on all 256 bytes, reconstructed
from the initialiser's literals and store shapes), TB-8 (byte set counted by gc content)."""
from .mirlib import call_info, strip, strip_casts, fmt, walk

LEVEL = 'proof'


def zip_component(b, l, next_dest):
    """0/1 if local l is (a copy of) the first/second element of the item yielded into next_dest, else None"""
    seen = set()
    while l not in seen:
        seen.add(l)
        sd = b.single_def(l)
        if sd is None or sd[0] != 'stmt':
            return None
        r = sd[3]['r']
        if r['k'] == 'cast':
            q = r['o'].get('c') or r['o'].get('m')
        elif r['k'] == 'use':
            q = r['o'].get('c') or r['o'].get('m')
        else:
            return None
        if q is None:
            return None
        pj = q.get('pj', [])
        if not pj:
            l = q['l']
            continue
        if q['l'] == next_dest and len(pj) >= 3 and isinstance(pj[0], dict) and pj[0].get('dc') == 'Some' and \
                isinstance(pj[1], dict) and pj[1].get('f') == 0 and isinstance(pj[2], dict) and 'f' in pj[2]:
            return pj[2]['f']
        return None
    return None


def table_from_initialiser(b):
    """reconstruct the 256-entry table built by a lazy_static initialiser of the shape
         identity prefill; for (a, b) in LIT1.zip(LIT2) { t[a] = b; t[a + k] = b + k }
       returns (table or None, description, problems)"""
    problems = []
    # table local: the [0; 256] repeat
    tbl = None
    for bb in b.reachable(0):
        for s in b.stmts(bb):
            if s['k'] == 'assign' and s['r']['k'] == 'repeat' and 'pj' not in s['p']:
                tbl = s['p']['l']
    if tbl is None:
        return None, '', ['no [0; 256] table local']
    # loops: enumerate-next and zip-next
    zipcall = None
    enum_next = None
    for bb, t in b.calls():
        info = call_info(t)
        if not info:
            continue
        if info['fn'].endswith('Iterator::zip'):
            zipcall = t
        if info['fn'].endswith('Iterator::next'):
            a0 = (info.get('args') or [''])[0]
            if 'Enumerate' in a0:
                enum_next = t['dest']['l']
            if 'Zip' in a0:
                zip_next = t['dest']['l']
    if zipcall is None:
        return None, '', ['no zip over two pair literals']
    lits = []
    for a in zipcall['args']:
        e = strip(b.expr_operand(a, inline_user='force'))
        lit = None
        for x in walk(e):
            if isinstance(x, tuple) and x[0] == 'const' and isinstance(x[1], tuple) and x[1][0] == 'bytes':
                lit = bytes(x[1][1])
            elif isinstance(x, tuple) and x[0] == 'const' and len(x) > 3 and x[3] and lit is None:
                # a named constant holding the literal: its evaluated value
                c = b.facts.consts.get(x[3])
                if c is not None and c.get('bytes') is not None and c.get('esize', 1) == 1:
                    lit = bytes(c['bytes'])
        lits.append(lit)
    if None in lits or len(lits) != 2:
        return None, '', ['pair literals not found']
    # stores
    stores = []
    prefill = False
    for bb in b.reachable(0):
        for s in b.stmts(bb):
            if s['k'] != 'assign' or 'pj' not in s['p']:
                continue
            p = s['p']
            if p['l'] == tbl and len(p['pj']) == 1 and isinstance(p['pj'][0], dict) and 'i' in p['pj'][0]:
                stores.append((p['pj'][0]['i'], s))
            elif p['pj'] == ['*']:
                # (*elem) = idx as u8 in the enumerate loop
                e = strip_casts(b.expr_rvalue(s['r']))
                src = s['r'].get('o', {}).get('c') or s['r'].get('o', {}).get('m')
                if src is not None and enum_next is not None:
                    # idx derives from ((next as Some).0).0
                    l = src['l']
                    sd = b.single_def(l)
                    ok = False
                    for _ in range(4):
                        if sd is None or sd[0] != 'stmt':
                            break
                        q = sd[3]['r'].get('o', {}).get('c') or sd[3]['r'].get('o', {}).get('m')
                        if q is None:
                            break
                        if q['l'] == enum_next and q.get('pj') and q['pj'][-1].get('f') == 0:
                            ok = True
                            break
                        if 'pj' in q:
                            break
                        sd = b.single_def(q['l'])
                    prefill = prefill or ok
            elif p['l'] == tbl:
                problems.append('unrecognised store into the table: %s' % s.get('d'))
    if not prefill:
        problems.append('identity pre-fill `*a = v as u8` over iter_mut().enumerate() not found')

    from .poly import poly

    def comp_atom(x):
        """name Z0 / Z1 for (a copy of) the first / second element of the pair yielded by the zip iterator"""
        x = strip(x)
        if x[0] == 'field' and str(x[2]) in ('0', '1') and isinstance(x[1], tuple) and x[1][0] == 'field' and \
                str(x[1][2]) == '0' and isinstance(x[1][1], tuple) and x[1][1][0] == 'downcast' and x[1][1][2] == 'Some':
            src = x[1][1][1]
            if src == ('local', zip_next, b.local_name(zip_next) or '_%d' % zip_next) or \
                    (src[0] == 'local' and src[1] == zip_next) or \
                    (src[0] == 'call' and src[1].endswith('Iterator>::next') and 'Zip' in (src[1] + str(src[3]))):
                return 'Z' + str(x[2])
        return None

    def affine(e):
        """(component, k) if e == component + k as a polynomial over integer casts"""
        pe = poly(e, comp_atom)
        k = pe.get((), 0)
        rest = {m: v for m, v in pe.items() if m != ()}
        if len(rest) == 1:
            (m, v), = rest.items()
            if v == 1 and m in (('Z0',), ('Z1',)):
                return (int(m[0][1]), k)
        return None
    shaped = []
    for idx, s in stores:
        ia = affine(b.expr_operand({'c': {'l': idx}}, inline_user=True))
        va = affine(b.expr_rvalue(s['r'], inline_user=True))
        if ia is None or va is None:
            problems.append('store shape not recognised: %s' % s.get('d'))
        else:
            shaped.append((ia, va))
    if problems:
        return None, '', problems
    table = list(range(256))
    n = min(len(lits[0]), len(lits[1]))
    if len(lits[0]) != len(lits[1]):
        problems.append('pair literals have different lengths (%d vs %d): zip silently drops the tail' % (
            len(lits[0]), len(lits[1])))
    for i in range(n):
        comp = (lits[0][i], lits[1][i])
        for (ic, ik), (vc, vk) in shaped:
            ix = comp[ic] + ik
            vv = comp[vc] + vk
            if not (0 <= ix < 256 and 0 <= vv < 256):
                problems.append('store out of range for pair %r' % (comp,))
                continue
            table[ix] = vv
    desc = '%r <-> %r, stores %s' % (lits[0], lits[1], shaped)
    return table, desc, problems, lits


def tb6(facts, rep):
    rule = 'TB-6'
    rep.rule(rule, 'complement tables: the 256-entry table is reconstructed from the initialiser (identity pre-fill, '
                   'pair literals, store shapes t[a]=b, t[a+32]=b+32) and must be an involution on all 256 bytes that '
                   'preserves case and is the identity outside the listed letters; complement() only indexes the table; '
                   'revcomp = rev . map(complement)')
    for mod in ('dna', 'rna'):
        init = facts.one(r'^<alphabets::%s::COMPLEMENT as std::ops::Deref>::deref::__static_ref_initialize$' % mod)
        if init is None:
            rep.missing(rule, 'alphabets::%s::COMPLEMENT initialiser' % mod, 'not found')
            continue
        rep.analysed_body(init)
        r = table_from_initialiser(init)
        key = 'alphabets::%s::COMPLEMENT|initialiser-shape' % mod
        if r[0] is None:
            rep.bad(rule, key, '%s:%s' % (init.file, init.line), '; '.join(r[2]))
            continue
        table, desc, problems, lits = r
        if problems:
            rep.bad(rule, key, '%s:%s' % (init.file, init.line), '; '.join(problems))
        else:
            rep.ok(rule, key, '%s:%s' % (init.file, init.line), desc)
        key = 'alphabets::%s::COMPLEMENT|involution-256' % mod
        bad = [x for x in range(256) if table[table[x]] != x]
        if bad:
            rep.bad(rule, key, '%s:%s' % (init.file, init.line),
                    'complement(complement(x)) != x for bytes %s' % [chr(x) if 32 < x < 127 else x for x in bad[:8]])
        else:
            rep.ok(rule, key, '%s:%s' % (init.file, init.line), 'involution on all 256 byte values')
        key = 'alphabets::%s::COMPLEMENT|case-preserving' % mod
        bad = [x for x in range(256) if (65 <= x <= 90 and not 65 <= table[x] <= 90) or
               (97 <= x <= 122 and not 97 <= table[x] <= 122) or
               (not (65 <= x <= 90 or 97 <= x <= 122) and table[x] != x) or
               (65 <= x <= 90 and table[x + 32] != table[x] + 32)]
        if bad:
            rep.bad(rule, key, '%s:%s' % (init.file, init.line),
                    'case / non-letter behaviour violated for bytes %s' % [chr(x) if 32 < x < 127 else x for x in bad[:8]])
        else:
            rep.ok(rule, key, '%s:%s' % (init.file, init.line), 'upper->upper, lower twin = upper + 32, non-letters fixed')
        key = 'alphabets::%s::COMPLEMENT|watson-crick' % mod
        t = 'T' if mod == 'dna' else 'U'
        wc = {'A': t, t: 'A', 'C': 'G', 'G': 'C', 'N': 'N'}
        badwc = [k for k, v in wc.items() if table[ord(k)] != ord(v)]
        if badwc:
            rep.bad(rule, key, '%s:%s' % (init.file, init.line), 'base pairing wrong for %s' % badwc)
        else:
            rep.ok(rule, key, '%s:%s' % (init.file, init.line), 'A<->%s, C<->G, N fixed' % t)
        # complement() indexes the table with its argument
        c = facts.body('alphabets::%s::complement' % mod)
        key = 'alphabets::%s::complement|indexes-table' % mod
        if c is None:
            rep.missing(rule, key, 'complement not found')
        else:
            rep.analysed_body(c)
            ok = False
            for bb in c.reachable(0):
                for s in c.stmts(bb):
                    if s['k'] == 'assign' and 'pj' not in s['p'] and s['p']['l'] == 0:
                        e = strip_casts(c.expr_rvalue(s['r'], inline_user=True))
                        if e[0] == 'index' and e[2] == ('local', 1, c.local_name(1)) and 'COMPLEMENT' in fmt(e[1]) + str(e[1]):
                            ok = True
                        elif e[0] == 'index' and e[2][0] == 'local' and e[2][1] == 1:
                            ok = True
            if ok:
                rep.ok(rule, key, '%s:%s' % (c.file, c.line), 'COMPLEMENT[a as usize]')
            else:
                rep.bad(rule, key, '%s:%s' % (c.file, c.line), 'complement() is not a plain table lookup of its argument')
        rc = facts.body('alphabets::%s::revcomp' % mod)
        key = 'alphabets::%s::revcomp|rev-then-map-complement' % mod
        if rc is None:
            rep.missing(rule, key, 'revcomp not found')
        else:
            rep.analysed_body(rc)
            names = [call_info(t)['fn'].rsplit('::', 1)[-1] for _bb, t in rc.calls() if call_info(t)]
            clos = facts.closures_of(rc.path)
            calls_comp = any(call_info(t) and call_info(t)['fn'] == 'alphabets::%s::complement' % mod
                             for cb in clos for _bb, t in cb.calls())
            if 'rev' in names and 'map' in names and calls_comp and names.count('rev') == 1:
                rep.ok(rule, key, '%s:%s' % (rc.file, rc.line), 'into_iter().rev().map(complement).collect()')
            else:
                rep.bad(rule, key, '%s:%s' % (rc.file, rc.line), 'revcomp is not rev . map(complement) (calls: %s)' % names)


def tb8(facts, rep):
    rule = 'TB-8'
    rep.rule(rule, 'GC content counts exactly the bytes {C, G, c, g}: value set of the SwitchInt in gcn_content\'s fold '
                   'closure')
    root = facts.body('seq_analysis::gc::gcn_content')
    if root is None:
        rep.missing(rule, 'seq_analysis::gc::gcn_content', 'not found')
        return
    rep.analysed_body(root)
    got = None
    many = 0
    # the match on the symbol byte: in the fold closure, or (loop form) in gcn_content itself
    for c in [root] + list(facts.closures_of(root.path)):
        rep.analysed_body(c)
        for bb in c.reachable(0):
            t = c.term(bb)
            if t['k'] == 'switch' and t.get('dty') == 'u8':
                vals = sorted(v for v, _ in t['vals'])
                same_arm = len({tgt for _v, tgt in t['vals']}) == 1 and t['vals'][0][1] != t['else']
                got = (vals if same_arm else vals + [-1], c, bb)
                many += 1
    key = 'seq_analysis::gc::gcn_content|counted-bytes'
    if got is None:
        rep.missing(rule, key, 'no match on the symbol byte found')
    elif many != 1:
        rep.bad(rule, key, got[1].loc(got[2]), '%d matches on a symbol byte (expected one deciding what is counted)' % many)
    elif got[0] == sorted(b'CGcg'):
        rep.ok(rule, key, got[1].loc(got[2]), 'counts %s' % bytes(got[0]))
    else:
        rep.bad(rule, key, got[1].loc(got[2]), 'GC content counts %s instead of C, G, c, g' % bytes(v for v in got[0] if v >= 0))
    for nm, step in (('gc_content', 1), ('gc3_content', 3)):
        b = facts.body('seq_analysis::gc::' + nm)
        key = 'seq_analysis::gc::%s|step' % nm
        if b is None:
            rep.missing(rule, key, 'not found')
            continue
        rep.analysed_body(b)
        ok = False
        for bb, t in b.calls():
            info = call_info(t)
            if info and info['fn'].endswith('gcn_content') and len(t['args']) == 2:
                e = strip_casts(b.expr_operand(t['args'][1]))
                ok = e[0] == 'const' and e[1] == step
        if ok:
            rep.ok(rule, key, '%s:%s' % (b.file, b.line), 'step %d' % step)
        else:
            rep.bad(rule, key, '%s:%s' % (b.file, b.line), '%s does not call gcn_content(sequence, %d)' % (nm, step))


def ts10(facts, rep):
    from . import eng_gd
    rule = 'TS-10'
    rep.rule(rule, 'ORF finder typestate: whenever a stop codon is seen in a frame with pending start positions, the pending '
                   'list of that frame is emptied (fresh Vec or clear()) on every path before the next symbol is processed - a '
                   'start that survives its own stop codon would later be reported as an ORF containing an in-frame stop')
    b = None
    for c in facts.body_list:
        if c.name == 'next' and (c.raw.get('impl_self') or '').startswith('seq_analysis::orf::Matches'):
            b = c
    if b is None:
        rep.missing(rule, 'seq_analysis::orf::Matches::next', 'not found')
        return
    rep.analysed_body(b)
    g = [x for x in eng_gd.guards(b) if 'stop_codons' in x['text'] and 'contains' in x['text']]
    key = 'orf::Matches::next|pending-starts-reset-at-stop'
    if len(g) != 1:
        rep.bad(rule, key, '%s:%s' % (b.file, b.line), 'expected one test of the stop codon set, found %d' % len(g))
        return
    g = g[0]
    neg = g['text'].startswith('Not')
    stop_t = g['f'] if neg else g['t']
    resets = set()
    for bb in b.reachable(0):
        for s in b.stmts(bb):
            if s['k'] == 'assign' and 'pj' in s['p']:
                names = [el['n'] for el in s['p']['pj'] if isinstance(el, dict) and 'f' in el]
                if names[-1:] == ['start_pos'] or (names and names[-1] == 'start_pos'):
                    idx = [el for el in s['p']['pj'] if isinstance(el, dict) and ('i' in el or 'ci' in el)]
                    if idx and s['p']['pj'][-1] is idx[-1]:
                        resets.add(bb)
        t = b.term(bb)
        if t['k'] == 'call' and call_info(t) and call_info(t)['fn'].endswith('Vec::<T, A>::clear'):
            e = fmt(strip(b.expr_operand(t['args'][0], inline_user=True)))
            if 'start_pos[' in e:
                resets.add(bb)
    loops = b.natural_loops()
    outer = None
    for h, blocks in loops.items():
        if g['bb'] in blocks and (outer is None or len(blocks) > len(loops[outer])):
            outer = h
    backs = [(x, h) for (x, h) in b.loops_back_edges() if h == outer]
    # from the stop edge, every path to the next symbol (back edge of the symbol loop) or to a return passes a reset
    seen = {stop_t}
    st = [stop_t]
    escaped = False
    while st:
        x = st.pop()
        if x in resets:
            continue
        if b.term(x)['k'] == 'return':
            escaped = True
        for s2 in b.succ[x]:
            if (x, s2) in backs:
                escaped = True
            if s2 not in seen:
                seen.add(s2)
                st.append(s2)
    if not resets:
        rep.bad(rule, key, b.loc(g['bb']), 'the pending start list is never emptied')
    elif escaped:
        rep.bad(rule, key, b.loc(g['bb']), 'after a stop codon the pending start positions of the frame can survive into the next '
                                           'iteration: they will be reported with a later stop, spanning an in-frame stop codon')
    else:
        rep.ok(rule, key, b.loc(g['bb']), 'start_pos[offset] is emptied on every path after a stop codon')


def run(facts, rep, ctx):
    tb6(facts, rep)
    tb8(facts, rep)
    ts10(facts, rep)


_run_before_round3 = run


def run(facts, rep, ctx):
    """rules added after the second seeding round, second half (rules/round3.py)"""
    _run_before_round3(facts, rep, ctx)
    from . import round3
    round3.gd11(facts, rep)


_run_before_round4b = run


def run(facts, rep, ctx):
    """further rules added after the third seeding round (rules/round4.py)"""
    _run_before_round4b(facts, rep, ctx)
    from . import round4
    round4.tb8b(facts, rep)
    round4.br1(facts, rep)



_run_before_round6 = run


def run(facts, rep, ctx):
    """rules added after the fifth seeding round (rules/round6.py)"""
    _run_before_round6(facts, rep, ctx)
    from . import round6
    round6.cf2(facts, rep, ['seq_analysis::orf::', 'alphabets::'], 70)
    round6.tb14(facts, rep)
    round6.nc3(facts, rep)


_run_before_round7 = run


def run(facts, rep, ctx):
    """rules added in the sixth seeding round (rules/round7.py)"""
    _run_before_round7(facts, rep, ctx)
    from . import round7
    round7.sw1(facts, rep)
