"""RI: per-call re-initialisation of reused buffers ("first touch must be a reset").

For a body with receiver `&mut self` and a list of buffers (field paths of self, array fields split per element) a forward
*must* analysis computes the set of buffers that have been reset on every path; any other mention of a buffer (a
"touch") while it is not in the set is a violation: the result of the call could then depend on what the object was
used for before.

Loops over a literal Range {start: a, end: b} are analysed with iteration contexts (first iteration k = a; later
iterations; after the loop) so that `for k in 0..2 { buf[k].clear(); if k == 0 { other.clear() } ... }` is precise.
Local callees receiving `&mut self.<prefix>` are summarised with the same engine."""
from .mirlib import call_info, strip, strip_casts, fmt

RESET_CALLEES = ('std::vec::Vec::<T, A>::clear',)


def uses_of_locals(body):
    """local -> list of use sites ('stmt', bb, i) / ('term', bb, role)"""
    if getattr(body, '_uses', None) is not None:
        return body._uses
    uses = {}

    def add(l, site):
        uses.setdefault(l, []).append(site)

    def place_uses(p, site, is_def=False):
        if not is_def or 'pj' in p:
            add(p['l'], site)
        for el in p.get('pj', []):
            if isinstance(el, dict) and 'i' in el:
                add(el['i'], site)

    def op_uses(o, site):
        pl = o.get('c') or o.get('m')
        if pl is not None:
            place_uses(pl, site)

    def rv_uses(r, site):
        k = r['k']
        if k in ('use', 'cast', 'repeat'):
            op_uses(r['o'], site)
        elif k in ('ref', 'rawptr', 'disc', 'copyderef'):
            place_uses(r['p'], site)
        elif k == 'bin':
            op_uses(r['a'], site)
            op_uses(r['b'], site)
        elif k == 'un':
            op_uses(r['a'], site)
        elif k == 'agg':
            for o in r['ops']:
                op_uses(o, site)

    for bb in range(body.n):
        for i, s in enumerate(body.stmts(bb)):
            if s['k'] == 'assign':
                place_uses(s['p'], ('stmt', bb, i), is_def=True)
                rv_uses(s['r'], ('stmt', bb, i))
            elif s['k'] == 'setdisc':
                place_uses(s['p'], ('stmt', bb, i))
        t = body.term(bb)
        k = t['k']
        if k == 'call':
            op_uses(t['f'], ('term', bb, 'f'))
            for ai, a in enumerate(t['args']):
                op_uses(a, ('term', bb, 'arg%d' % ai))
            place_uses(t['dest'], ('term', bb, 'dest'), is_def=True)
        elif k == 'switch':
            op_uses(t['d'], ('term', bb, 'discr'))
        elif k == 'assert':
            op_uses(t['cond'], ('term', bb, 'cond'))
            for kk in ('len', 'index', 'a', 'b'):
                if kk in t['msg'] and isinstance(t['msg'][kk], dict):
                    op_uses(t['msg'][kk], ('term', bb, 'msg'))
        elif k == 'drop':
            place_uses(t['p'], ('term', bb, 'drop'))
    body._uses = uses
    return uses


class LiteralLoop:
    """`for k in a..b` with literal bounds: next() call block, switch block, induction locals"""

    def __init__(self, body, call_bb, a, b):
        self.body = body
        self.call_bb = call_bb
        self.a = a
        self.b = b
        t = body.term(call_bb)
        self.next_dest = t['dest']['l']
        self.switch_bb = t['t']
        st = body.term(self.switch_bb)
        self.ok = st['k'] == 'switch'
        self.some_bb = None
        self.none_bb = None
        if self.ok:
            for v, tgt in st['vals']:
                if v == 0:
                    self.none_bb = tgt
                elif v == 1:
                    self.some_bb = tgt
            if self.some_bb is None or self.none_bb is None:
                self.ok = False
        self.ivars = set()
        if self.ok:
            changed = True
            while changed:
                changed = False
                for l in range(len(body.locals)):
                    if l in self.ivars:
                        continue
                    sd = body.single_def(l)
                    if sd is None or sd[0] != 'stmt' or sd[3]['r']['k'] != 'use':
                        continue
                    o = sd[3]['r']['o']
                    pl = o.get('c') or o.get('m')
                    if pl is None:
                        continue
                    pj = pl.get('pj', [])
                    if pl['l'] == self.next_dest and len(pj) == 2 and isinstance(pj[0], dict) and \
                            pj[0].get('dc') == 'Some' and isinstance(pj[1], dict) and pj[1].get('f') == 0:
                        self.ivars.add(l)
                        changed = True
                    elif not pj and pl['l'] in self.ivars:
                        self.ivars.add(l)
                        changed = True

    def k_value(self, ctx):
        if ctx == 1:
            return self.a
        if ctx == 2 and self.b - self.a == 2:
            return self.a + 1
        return None


def find_literal_loops(body):
    out = []
    for bb, t in body.calls():
        info = call_info(t)
        if info is None or not info['fn'].endswith('Iterator::next'):
            continue
        if 'std::ops::Range<' not in (info.get('args') or [''])[0]:
            continue
        e = strip(body.expr_operand(t['args'][0], inline_user='force'))
        # expect into_iter(Range{start: const a, end: const b})
        if e[0] == 'call' and e[1].endswith('into_iter') and len(e[2]) == 1:
            r = strip(e[2][0])
            if r[0] == 'agg' and r[2].endswith('Range::Range') and len(r[3]) == 2:
                a, b = r[3]
                if a[0] == 'const' and b[0] == 'const' and isinstance(a[1], int) and isinstance(b[1], int):
                    out.append(LiteralLoop(body, bb, a[1], b[1]))
    return [l for l in out if l.ok]


class RI:
    def __init__(self, facts, body, buffers, root=1, depth=0, peel=True):
        """buffers: dict id -> path tuple; array element buffers have an int as last path element, e.g. ('I', 0)"""
        self.facts = facts
        self.body = body
        self.root = root
        self.buffers = dict(buffers)
        self.depth = depth
        self.violations = []     # (buffer id, bb, description)
        self.resets = []         # (buffer id, bb, how)
        self.touches = 0
        loops = find_literal_loops(body) if peel else []
        # peel the outermost literal loop only (the first one in block order that is not nested in another)
        self.loop = loops[0] if loops else None
        self.uses = uses_of_locals(body)
        self.must_at_return = None
        self.first_touch_read = set()

    # ---- place -> self path with index info
    def self_path(self, place, ctx):
        if place['l'] != self.root:
            return None
        pj = place.get('pj', [])
        if not pj or pj[0] != '*':
            return None
        path = []
        for el in pj[1:]:
            if el == '*':
                continue
            if isinstance(el, dict) and 'f' in el:
                path.append(el['n'])
            elif isinstance(el, dict) and 'i' in el:
                path.append(self.index_value(el['i'], ctx))
            elif isinstance(el, dict) and 'ci' in el:
                path.append(el['ci'] if not el['fe'] else None)
            elif isinstance(el, dict) and 'sub' in el:
                path.append(None)
        return tuple(path)

    def index_value(self, l, ctx):
        e = strip_casts(self.body.expr_local(l, inline_user=True))
        if e[0] == 'const' and isinstance(e[1], int):
            return e[1]
        if self.loop is not None:
            # does l resolve to the induction variable?
            if l in self.loop.ivars:
                return self.loop.k_value(ctx)
        return None

    def _is_ivar_operand(self, o):
        pl = o.get('c') or o.get('m')
        return pl is not None and 'pj' not in pl and pl['l'] in self.loop.ivars

    def buffers_hit(self, path):
        """buffer ids whose path is touched by a mention of `path` (prefix either way; None index matches any)"""
        hit = []
        for bid, bp in self.buffers.items():
            n = min(len(bp), len(path))
            ok = True
            for i in range(n):
                if path[i] is None or bp[i] is None:
                    continue
                if path[i] != bp[i]:
                    ok = False
                    break
            if ok:
                hit.append(bid)
        return hit

    def exact_buffer(self, path):
        for bid, bp in self.buffers.items():
            if tuple(bp) == tuple(path):
                return bid
        return None

    # ---- events of one block in one context
    def mentions_in_operand(self, o, ctx):
        pl = o.get('c') or o.get('m')
        return [self.self_path(pl, ctx)] if pl is not None and self.self_path(pl, ctx) is not None else []

    def deferred_ref(self, s):
        """a `tmp = &[mut] self.path` statement whose temp is used exactly once, as a call argument"""
        if s['k'] != 'assign' or s['r']['k'] != 'ref' or 'pj' in s['p']:
            return False
        l = s['p']['l']
        if self.body.is_user(l):
            return False
        us = self.uses.get(l, [])
        if len(us) == 1 and us[0][0] == 'term' and us[0][2].startswith('arg'):
            return True
        # reborrow chains: tmp2 = &mut *tmp ; call(tmp2)
        if len(us) == 1 and us[0][0] == 'stmt':
            s2 = self.body.stmts(us[0][1])[us[0][2]]
            if s2['k'] == 'assign' and s2['r']['k'] == 'ref' and s2['r']['p'].get('pj') == ['*'] and \
                    s2['r']['p']['l'] == l:
                return self.deferred_ref(s2)
        return False

    def arg_self_ref(self, o, ctx):
        """if operand is a (temp holding a) reference to a self path return that path"""
        pl = o.get('c') or o.get('m')
        if pl is None or 'pj' in pl:
            return None
        l = pl['l']
        seen = set()
        while True:
            if l in seen:
                return None
            seen.add(l)
            sd = self.body.single_def(l)
            if sd is None or sd[0] != 'stmt':
                return None
            r = sd[3]['r']
            if r['k'] == 'ref':
                p = r['p']
                sp = self.self_path(p, ctx)
                if sp is not None:
                    return sp
                if p['l'] == self.root and p.get('pj') == ['*']:
                    return ()
                if p.get('pj') == ['*']:
                    l = p['l']
                    continue
                return None
            if r['k'] == 'use':
                q = r['o'].get('c') or r['o'].get('m')
                if q is not None and 'pj' not in q:
                    l = q['l']
                    continue
                if q is not None and q['l'] == self.root and 'pj' not in q:
                    return ()
            if r['k'] == 'cast':
                q = r['o'].get('c') or r['o'].get('m')
                if q is not None and 'pj' not in q:
                    l = q['l']
                    continue
            return None

    def process_block(self, bb, ctx, must, record):
        body = self.body
        must = set(must)

        def touch(path, what):
            for bid in self.buffers_hit(path):
                self.touches += 1
                if bid not in must and record:
                    self.violations.append((bid, bb, what))
                if bid not in must:
                    self.first_touch_read.add(bid)

        def reset(path, how):
            bid = self.exact_buffer(path)
            if bid is not None:
                must.add(bid)
                if record:
                    self.resets.append((bid, bb, how))
                return True
            return False

        for i, s in enumerate(body.stmts(bb)):
            if s['k'] == 'assign':
                if self.deferred_ref(s):
                    continue
                # mentions in the rvalue are reads
                r = s['r']
                k = r['k']
                ms = []
                if k in ('use', 'cast', 'repeat'):
                    ms += self.mentions_in_operand(r['o'], ctx)
                elif k in ('ref', 'rawptr', 'disc', 'copyderef'):
                    sp = self.self_path(r['p'], ctx)
                    if sp is not None:
                        ms.append(sp)
                elif k == 'bin':
                    ms += self.mentions_in_operand(r['a'], ctx) + self.mentions_in_operand(r['b'], ctx)
                elif k == 'un':
                    ms += self.mentions_in_operand(r['a'], ctx)
                elif k == 'agg':
                    for o in r['ops']:
                        ms += self.mentions_in_operand(o, ctx)
                for m in ms:
                    touch(m, 'read at %s' % body.loc(bb, i))
                sp = self.self_path(s['p'], ctx)
                if sp is not None:
                    if not reset(sp, 'whole-field assignment at %s' % body.loc(bb, i)):
                        touch(sp, 'partial store at %s' % body.loc(bb, i))
            elif s['k'] == 'setdisc':
                sp = self.self_path(s['p'], ctx)
                if sp is not None:
                    touch(sp, 'set discriminant')
        t = body.term(bb)
        if t['k'] == 'call':
            info = call_info(t)
            fn = info['fn'] if info else '<indirect>'
            callee = None
            if info is not None:
                callee = self.facts.bodies.get(info.get('res') or info.get('fn'))
            for ai, a in enumerate(t['args']):
                direct = self.mentions_in_operand(a, ctx)
                for m in direct:
                    touch(m, 'operand of call to %s at %s' % (fn, body.loc(bb)))
                sp = self.arg_self_ref(a, ctx)
                if sp is None:
                    continue
                if fn in RESET_CALLEES and ai == 0:
                    if reset(sp, '%s at %s' % (fn, body.loc(bb))):
                        continue
                if callee is not None and self.depth < 4:
                    # summary of the local callee for the buffers below sp
                    sub = {}
                    for bid, bp in self.buffers.items():
                        n = len(sp)
                        if len(bp) >= n and all(x is None or y is None or x == y for x, y in zip(sp, bp[:n])):
                            sub[bid] = tuple(bp[n:])
                    if sub:
                        summ = summarise(self.facts, callee, ai + 1, sub, self.depth + 1)
                        for bid in sub:
                            if bid in summ['reads_first']:
                                self.touches += 1
                                if bid not in must:
                                    self.first_touch_read.add(bid)
                                    if record:
                                        self.violations.append(
                                            (bid, bb, 'callee %s touches it before any reset (call at %s)' % (
                                                fn, body.loc(bb))))
                        for bid in sub:
                            if bid in summ['resets']:
                                must.add(bid)
                                if record:
                                    self.resets.append((bid, bb, 'callee %s resets it (verified summary) at %s' % (
                                        fn, body.loc(bb))))
                        continue
                touch(sp, 'reference passed to %s at %s' % (fn, body.loc(bb)))
            spd = self.self_path(t['dest'], ctx)
            if spd is not None:
                if not reset(spd, 'assigned from call to %s at %s' % (fn, body.loc(bb))):
                    touch(spd, 'call result stored into part of it at %s' % body.loc(bb))
        elif t['k'] == 'switch':
            for m in self.mentions_in_operand(t['d'], ctx):
                touch(m, 'branch on it at %s' % body.loc(bb))
        elif t['k'] == 'drop':
            sp = self.self_path(t['p'], ctx)
            if sp is not None:
                pass  # drop of the old value before an assignment: not a data dependence
        return must

    def feasible_succs(self, bb, ctx):
        """successors (bb, ctx) under loop-context and branch folding"""
        body = self.body
        lp = self.loop
        t = body.term(bb)
        succs = body.succ[bb]
        if lp is not None and bb == lp.switch_bb:
            n = lp.b - lp.a
            out = []
            if ctx == 3:
                # a second execution of the loop (e.g. nested in an outer loop): treat generically
                return [(s, 3) for s in succs]
            done = ctx  # iterations completed so far (2 = two or more)
            if ctx < 2:
                if done < n:
                    out.append((lp.some_bb, ctx + 1))
                else:
                    out.append((lp.none_bb, 3))
            else:
                if n == 2:
                    out.append((lp.none_bb, 3))
                else:
                    out.append((lp.some_bb, 2))
                    out.append((lp.none_bb, 3))
            return out
        if lp is not None and t['k'] == 'switch' and ctx in (1, 2):
            kv = lp.k_value(ctx)
            # discriminant is a temp defined by Eq/Ne(ivar, const)
            dl = t['d'].get('c') or t['d'].get('m')
            sd = body.single_def(dl['l']) if dl is not None and 'pj' not in dl else None
            if sd is not None and sd[0] == 'stmt' and sd[3]['r']['k'] == 'bin' and sd[3]['r']['op'] in ('Eq', 'Ne'):
                r = sd[3]['r']
                c = None
                for x, y in ((r['a'], r['b']), (r['b'], r['a'])):
                    if 'k' in y and isinstance(y['k'].get('v'), int) and self._is_ivar_operand(x):
                        c = y['k']['v']
                if c is not None:
                    truth = None
                    if kv is not None:
                        truth = (kv == c)
                    elif ctx == 2 and c <= lp.a:
                        truth = False
                    if truth is not None:
                        if r['op'] == 'Ne':
                            truth = not truth
                        tgt = None
                        for v, s in t['vals']:
                            if v == (1 if truth else 0):
                                tgt = s
                        if tgt is None:
                            tgt = t['else']
                        return [(tgt, ctx)]
        return [(s, ctx) for s in succs]

    def run(self):
        body = self.body
        start = (0, 0 if self.loop is not None else 3)
        inst = {start: frozenset()}
        work = [start]
        n = 0
        while work:
            node = work.pop()
            n += 1
            if n > 200000:
                raise RuntimeError('RI did not converge')
            bb, ctx = node
            out = self.process_block(bb, ctx, inst[node], record=False)
            for s in self.feasible_succs(bb, ctx):
                old = inst.get(s)
                new = frozenset(out) if old is None else (old & frozenset(out))
                if old is None or new != old:
                    inst[s] = new
                    if s not in work:
                        work.append(s)
        # final pass: record violations with the fixpoint states
        self.violations = []
        self.resets = []
        self.first_touch_read = set()
        self.touches = 0
        must_ret = None
        for node in sorted(inst):
            bb, ctx = node
            out = self.process_block(bb, ctx, inst[node], record=True)
            if body.term(bb)['k'] == 'return':
                must_ret = set(out) if must_ret is None else (must_ret & set(out))
        self.must_at_return = must_ret if must_ret is not None else set()
        self.nodes = len(inst)
        # de-duplicate
        seen = set()
        v2 = []
        for v in self.violations:
            if (v[0], v[2]) not in seen:
                seen.add((v[0], v[2]))
                v2.append(v)
        self.violations = v2
        return self


_SUMM = {}


def summarise(facts, callee, param, sub, depth):
    key = (callee.key, param, tuple(sorted(sub.items())))
    if key in _SUMM:
        return _SUMM[key]
    _SUMM[key] = {'reads_first': set(sub), 'resets': set()}  # recursion guard: conservative
    ri = RI(facts, callee, sub, root=param, depth=depth).run()
    res = {'reads_first': {v[0] for v in ri.violations} | set(ri.first_touch_read),
           'resets': set(ri.must_at_return)}
    _SUMM[key] = res
    return res


def buffers_from_adt(facts, adt_path, names, sub=None):
    """build the buffer table for the named fields of an ADT; array fields `[T; N]` are split per element"""
    adt = facts.adts.get(adt_path)
    out = {}
    if adt is None:
        return out
    fields = {f['name']: f for f in adt['variants'][0]['fields']}
    import re
    for nm in names:
        f = fields.get(nm)
        if f is None:
            continue
        m = re.match(r'^\[(.*); (\d+)\]$', f['ty'])
        if m:
            for i in range(int(m.group(2))):
                out['%s[%d]' % (nm, i)] = (nm, i)
        elif sub and nm in sub:
            for s in sub[nm]:
                out['%s.%s' % (nm, s)] = (nm, s)
        else:
            out[nm] = (nm,)
    return out
