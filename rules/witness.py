"""compile-fail witnesses (thorough tier): doc-tests of /verif/witness compiled against the analysed tree with
`cargo +nightly test --doc` (error codes are only honoured on nightly). Twins are `no_run`: nothing of rust-bio is
executed, the verdict is the type checker's."""
import os
import re
import shutil
import subprocess

from . import extract

VERIF = extract.VERIF


def run_witnesses(root, renames=None):
    """returns (results dict 'C07W1' -> {'compile_fail': bool|None, 'twin': bool|None}, log tail)"""
    th = extract.tree_hash(root)[:16]
    wd = os.path.join(extract.CACHE, 'witness-' + th)
    os.makedirs(os.path.join(wd, 'src'), exist_ok=True)
    with open(os.path.join(VERIF, 'witness', 'Cargo.toml.in')) as f:
        toml = f.read().replace('@ROOT@', root)
    with open(os.path.join(wd, 'Cargo.toml'), 'w') as f:
        f.write(toml)
    with open(os.path.join(VERIF, 'witness', 'src', 'lib.rs')) as f:
        src = f.read()
    # private methods named by a witness follow a pure rename (rules/renames.py: new path -> audited path)
    for newp, oldp in (renames or {}).items():
        old_name, new_name = oldp.rsplit('::', 1)[-1], newp.rsplit('::', 1)[-1]
        src = re.sub(r'(?<=\.)%s(?=\()' % re.escape(old_name), new_name, src)
    with open(os.path.join(wd, 'src', 'lib.rs'), 'w') as f:
        f.write(src)
    if os.path.exists(os.path.join(root, 'Cargo.lock')):
        shutil.copy(os.path.join(root, 'Cargo.lock'), os.path.join(wd, 'Cargo.lock'))
    env = dict(os.environ, CARGO_NET_OFFLINE='true', CARGO_TARGET_DIR=os.path.join(extract.CACHE, 'target-witness'))
    env.pop('RUSTC_WORKSPACE_WRAPPER', None)
    r = subprocess.run(['cargo', '+nightly', 'test', '--doc', '--offline'], cwd=wd, env=env, stdout=subprocess.PIPE,
                       stderr=subprocess.STDOUT, text=True)
    res = {}
    for m in re.finditer(r'^test src/lib\.rs - (\w+) \(line \d+\)( - compile fail)?( - compile)? \.\.\. (\w+)', r.stdout, re.M):
        name, cf, _c, verdict = m.group(1), m.group(2), m.group(3), m.group(4)
        d = res.setdefault(name, {'compile_fail': [], 'twin': []})
        d['compile_fail' if cf else 'twin'].append(verdict == 'ok')
    # keep only the newest witness dirs
    base = extract.CACHE
    ds = sorted([d for d in os.listdir(base) if d.startswith('witness-')], key=lambda d: os.path.getmtime(os.path.join(base, d)))
    for d in ds[:-3]:
        shutil.rmtree(os.path.join(base, d), ignore_errors=True)
    return res, r.stdout[-3000:], r.returncode


def report_witnesses(rep, pid, root, renames=None):
    rule = 'W'
    rep.rule(rule, 'compile-fail witnesses: doc-tests `compile_fail,E....` compiled against the analysed tree with cargo '
                   '+nightly test --doc, each paired with a compiling (no_run) twin that differs by the offending line')
    res, log, rc = run_witnesses(root, renames)
    mine = {k: v for k, v in res.items() if k.startswith(pid)}
    if not res:
        rep.missing(rule, pid + ' witnesses', 'the witness crate did not build or produced no results: ' + log[-400:])
        return
    for name, v in sorted(mine.items()):
        key = '%s|compile-fail-and-twin' % name
        if v['compile_fail'] and all(v['compile_fail']) and v['twin'] and all(v['twin']):
            rep.ok(rule, key, 'witness/src/lib.rs', 'offending program rejected with the expected error code; twin compiles')
        elif not all(v['compile_fail']):
            rep.bad(rule, key, 'witness/src/lib.rs', 'a program that must not type-check now compiles (or fails with a different '
                                                     'error): the type-level guarantee is gone')
        else:
            rep.bad(rule, key, 'witness/src/lib.rs', 'the compiling twin no longer compiles: the witness is vacuous (API changed?)')
    return len(mine)
