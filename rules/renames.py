"""Private functions that were merely renamed are given back their audited name.

Rules anchor on function names (`compute_alignment`, `read_into_buffer`, `seek_to`, `build_partlevel`, ...).  Renaming a
private function changes no behaviour, so it must not produce "anchor missing".  `rules/po_known.py` freezes, for every
function that existed when the rules were written, its owner, parameter types, return type and whether it is exported.
When the facts of the current tree lack such a function and contain exactly one *new* function with the same owner and
the same signature (and that new function matches no other missing one), the new function is the old one under a new
name: its path is rewritten back in the fact model (body path, closures nested in it, every call site), before any rule
runs.  Exported functions are never matched this way - renaming them is an API change the rules should report."""


import re


def _owner(path):
    return path.rsplit('::', 1)[0]


def compute(raw, sigs):
    bodies = [b for b in raw['bodies'] if b['kind'] in ('Fn', 'AssocFn')]
    present = {b['path'] for b in bodies}
    missing = [p for p, s in sigs.items() if s[0] in ('Fn', 'AssocFn') and p not in present and not s[4] and '::tests::' not in p]
    if not missing:
        return {}
    new = [b for b in bodies if b['path'] not in sigs and '::tests::' not in b['path']]
    cand = {}
    for p in missing:
        kind, impl_self, inputs, output, _exp = sigs[p]
        cs = [b for b in new if _owner(b['path']) == _owner(p) and b['kind'] == kind and
              (b.get('impl_self') or '') == impl_self and tuple(b.get('inputs') or ()) == tuple(inputs) and
              (b.get('output') or '') == output]
        if len(cs) == 1:
            cand[p] = cs[0]['path']
    # second pass: a private free function moved into an `impl` block of its module as an associated function (or
    # back) keeps its name and signature; only the owner gains / loses one path segment
    taken = set(cand.values())
    for p in missing:
        if p in cand:
            continue
        kind, impl_self, inputs, output, _exp = sigs[p]
        name = p.rsplit('::', 1)[-1]
        cs = []
        for b in new:
            if b['path'] in taken or b['path'].rsplit('::', 1)[-1] != name:
                continue
            o_old, o_new = _owner(p), _owner(b['path'])
            o_new_plain = re.sub(r'::<[^>]*>$', '', o_new)
            o_old_plain = re.sub(r'::<[^>]*>$', '', o_old)
            nested = o_new_plain.startswith(o_old + '::') and o_new_plain.count('::') == o_old.count('::') + 1 or \
                o_old_plain.startswith(o_new + '::') and o_old_plain.count('::') == o_new.count('::') + 1
            if nested and tuple(b.get('inputs') or ()) == tuple(inputs) and (b.get('output') or '') == output:
                cs.append(b)
        if len(cs) == 1:
            cand[p] = cs[0]['path']
    # one-to-one only
    inv = {}
    for old, newp in cand.items():
        inv.setdefault(newp, []).append(old)
    return {newp: olds[0] for newp, olds in inv.items() if len(olds) == 1}


def apply(raw, mapping):
    """rewrite new names back to the audited ones, in place"""
    if not mapping:
        return

    def fix(path):
        if not isinstance(path, str):
            return path
        if path in mapping:
            return mapping[path]
        for newp, old in mapping.items():
            if path.startswith(newp + '::{'):
                return old + path[len(newp):]
        return path
    for b in raw['bodies']:
        np_ = fix(b['path'])
        if np_ != b['path']:
            b['renamed_from'] = b['path']
            b['path'] = np_
            if b['kind'] in ('Fn', 'AssocFn'):
                b['name'] = np_.rsplit('::', 1)[-1]
        for k in ('parent', 'root'):
            if k in b:
                b[k] = fix(b[k])
        for blk in b['blocks']:
            for s in blk['s']:
                if s['k'] == 'assign' and s['r'].get('k') == 'agg' and s['r'].get('closure'):
                    s['r']['closure'] = fix(s['r']['closure'])
                _fix_ops(s, fix)
            t = blk['t']
            if t['k'] == 'call':
                k = t['f'].get('k')
                if k and 'fn' in k:
                    for fld in ('fn', 'res'):
                        if fld in k:
                            k[fld] = fix(k[fld])
                for a in t['args']:
                    _fix_operand(a, fix)


def _fix_operand(o, fix):
    k = o.get('k') if isinstance(o, dict) else None
    if isinstance(k, dict) and 'fn' in k:
        for fld in ('fn', 'res'):
            if fld in k:
                k[fld] = fix(k[fld])


def _fix_ops(s, fix):
    if s['k'] != 'assign':
        return
    r = s['r']
    for key in ('o', 'a', 'b'):
        if isinstance(r.get(key), dict):
            _fix_operand(r[key], fix)
    for o in r.get('ops', []) or []:
        _fix_operand(o, fix)
