"""Rules added after the third seeding round.  Same principles as round2/round3."""
import re
from . import eng_gd
from .mirlib import call_info, strip, strip_casts, fmt, walk
from .poly import poly, pstr

INT_MAX = {'u8': 255, 'u16': 65535, 'u32': 4294967295, 'u64': 18446744073709551615, 'usize': 18446744073709551615}


# ------------------------------------------------------------------------------------------------ TB-11 (C03)
def tb11(facts, rep, rule='TB-11'):
    rep.rule(rule, 'SAIS recursion width table: in Sais::calc_lms_pos the branch taken when the number of LMS substrings is <= '
                   'X::MAX sorts the reduced text with names of type X (a narrower type cannot hold the names: construction panics '
                   'or wraps for large, high-entropy texts)')
    b = None
    for c in facts.body_list:
        if c.name == 'calc_lms_pos' and 'suffix_array' in c.path:
            b = facts.view(c)
    key = 'Sais::calc_lms_pos|name-type-matches-threshold'
    if b is None:
        rep.missing(rule, key, 'not found')
        return
    rep.analysed_body(b)
    calls = [(bb, t) for bb, t in b.calls() if call_info(t) and call_info(t)['fn'].endswith('::sort_lms_suffixes')]
    if len(calls) < 2:
        rep.missing(rule, key, 'expected several instantiations of sort_lms_suffixes, found %d' % len(calls))
        return
    n = 0
    bad = []
    for bb, t in calls:
        full = call_info(t).get('fn_full') or ''
        m = re.search(r'sort_lms_suffixes::<[^,>]+,\s*(u8|u16|u32|u64|usize)>', full)
        if not m:
            continue
        ty = m.group(1)
        # tightest dominating upper bound `count <= C`
        bound = None
        for g in eng_gd.guards(b):
            e = strip_casts(g['expr'])
            if not (isinstance(e, tuple) and e[0] == 'bin' and e[1] in ('Le', 'Lt')):
                continue
            rhs = strip_casts(e[3])
            if rhs[0] != 'const' or not isinstance(rhs[1], int):
                continue
            v = rhs[1] if e[1] == 'Le' else rhs[1] - 1
            if b.edge_dominates((g['bb'], g['t']), bb):
                bound = v if bound is None else min(bound, v)
        n += 1
        if bound is None:
            if ty not in ('u64', 'usize'):
                bad.append((bb, 'names of type %s are used without any upper bound on the number of LMS substrings' % ty))
        elif bound > INT_MAX[ty]:
            bad.append((bb, 'up to %d LMS substrings are sorted with names of type %s (max %d)' % (bound, ty, INT_MAX[ty])))
    if bad:
        rep.bad(rule, key, b.loc(bad[0][0]), bad[0][1])
    elif n >= 3:
        rep.ok(rule, key, b.loc(calls[0][0]), '%d instantiations, each name type holds its branch bound' % n)
    else:
        rep.missing(rule, key, 'instantiation types not recognised')


# ------------------------------------------------------------------------------------------------ CF-1 (C09)
def cf1(facts, rep, rule='CF-1'):
    rep.rule(rule, 'Ukkonen with a user cost function: every store into the current DP column inside the row loop of '
                   'Matches::next is dominated (within the iteration) by the call of the cost function - no cell may be filled '
                   'from an assumption such as cost(a, a) == 0')
    b = None
    for c in facts.body_list:
        if c.name == 'next' and (c.raw.get('impl_self') or '').startswith('pattern_matching::ukkonen::Matches'):
            b = facts.view(c)
    key = 'ukkonen::Matches::next|cost-function-consulted-for-every-cell'
    if b is None:
        rep.missing(rule, key, 'not found')
        return
    rep.analysed_body(b)
    loops = b.natural_loops()
    # the cost call: an indirect call / Fn::call of the closure field `cost`
    cost_calls = []
    for bb, t in b.calls():
        info = call_info(t)
        txt = fmt(strip(b.expr_operand(t['args'][0], inline_user=True))) if t['args'] else ''
        if info and info['fn'].endswith(('Fn::call', 'FnMut::call_mut', 'FnOnce::call_once')) and 'cost' in txt:
            cost_calls.append(bb)
    if not cost_calls:
        rep.bad(rule, key, '%s:%s' % (b.file, b.line), 'the cost function is never called')
        return
    # innermost loop containing the cost call = the row loop
    def innermost(bb):
        best = None
        for h, blocks in loops.items():
            if bb in blocks and (best is None or len(blocks) < len(loops[best])):
                best = h
        return best
    h = innermost(cost_calls[0])
    if h is None:
        rep.missing(rule, key, 'cost call is not inside a loop')
        return
    body = loops[h]
    stores = []
    for bb in body:
        t = b.term(bb)
        if t['k'] == 'call' and call_info(t) and call_info(t)['fn'].endswith('IndexMut::index_mut') and innermost(bb) == h:
            txt = fmt(strip(b.expr_operand(t['args'][0], inline_user=True)))
            if '.D' in txt:
                # the final index into the column (Vec<usize>), not the selection of the column itself
                if 'Vec<usize>' in (call_info(t).get('fn_full') or '') and 'Vec<Vec' not in (call_info(t).get('fn_full') or ''):
                    stores.append(bb)
    if not stores:
        rep.missing(rule, key, 'no store into the DP column found in the row loop')
        return
    bad = [s for s in stores if not any(b.dominates(c, s) for c in cost_calls if c in body)]
    if bad:
        rep.bad(rule, key, b.loc(bad[0]), 'a cell of the column is written on a path that does not call the cost function')
    else:
        rep.ok(rule, key, b.loc(cost_calls[0]), '%d store(s), all after the cost call' % len(stores))


# ------------------------------------------------------------------------------------------------ TS-11 (C10)
ALN_FIELDS = ('xstart', 'xend', 'xlen', 'ylen', 'ystart', 'yend', 'mode', 'score')


def ts11(facts, rep, rule='TS-11'):
    rep.rule(rule, 'alignment bookkeeping: helpers::update_aln writes every coordinate field of the caller-supplied Alignment '
                   '(xstart, xend, xlen, ylen, ystart, yend, mode, score) on every path - a recycled Alignment must not keep '
                   'values of an earlier search')
    b = facts.body('pattern_matching::myers::helpers::update_aln')
    key = 'helpers::update_aln|all-fields-written-on-every-path'
    if b is None:
        rep.missing(rule, key, 'not found')
        return
    rep.analysed_body(b)
    rets = b.return_blocks()
    written = {}
    for bb in b.reachable(0):
        for s in b.stmts(bb):
            if s['k'] == 'assign' and s['p'].get('pj') and s['p']['pj'][0] == '*':
                names = [el['n'] for el in s['p']['pj'] if isinstance(el, dict) and 'f' in el]
                if names and names[0] in ALN_FIELDS:
                    written.setdefault(names[0], []).append(bb)
    missing = [f for f in ALN_FIELDS if not any(all(b.dominates(w, r) for r in rets) for w in written.get(f, []))]
    if missing:
        rep.bad(rule, key, '%s:%s' % (b.file, b.line), 'field(s) %s of the Alignment are not written on every path' % ', '.join(missing))
    else:
        rep.ok(rule, key, '%s:%s' % (b.file, b.line), 'all %d fields written unconditionally' % len(ALN_FIELDS))


def ri6(facts, rep, rule='RI-6'):
    rep.rule(rule, 'eager path getters: FullMatches::path_reverse (and everything built on it) empties the caller-supplied '
                   'operations vector before the traceback appends to it')
    n = 0
    for b in facts.body_list:
        if b.name != 'path_reverse' or 'FullMatches' not in (b.raw.get('impl_self') or ''):
            continue
        b = facts.view(b)
        n += 1
        rep.analysed_body(b)
        key = '%s|clears-ops-before-traceback' % b.path
        clears = [bb for bb, t in b.calls() if call_info(t) and call_info(t)['fn'].endswith('Vec::<T, A>::clear')]
        tbs = [bb for bb, t in b.calls() if call_info(t) and call_info(t)['fn'].endswith('::traceback')]
        if tbs and clears and all(any(b.dominates(c, t) for c in clears) for t in tbs):
            rep.ok(rule, key, b.loc(clears[0]), 'ops.clear() dominates the traceback')
        else:
            rep.bad(rule, key, '%s:%s' % (b.file, b.line), 'the traceback appends to the caller\'s vector without clearing it first: '
                                                           'a recycled vector yields a path that does not describe the hit')
    rep.floor(rule, 'path_reverse instantiations', n, 2)


# ------------------------------------------------------------------------------------------------ TB-12 (C09)
def tb12(facts, rep, rule='TB-12'):
    rep.rule(rule, 'best hit: find_best_end returns the first end position among those of minimal distance - either through '
                   'Iterator::min_by_key (which keeps the first minimum) or through a scan that replaces the best hit only on a '
                   'strictly smaller distance')
    n = 0
    for b in facts.body_list:
        if b.name != 'find_best_end' or 'myers' not in b.path:
            continue
        b = facts.view(b)
        n += 1
        rep.analysed_body(b)
        key = '%s|first-minimum' % b.path
        fam = facts.family(b)
        mbk = any(call_info(t) and call_info(t)['fn'].endswith('Iterator::min_by_key') for c in fam for _bb, t in c.calls())
        rev = any(call_info(t) and call_info(t)['fn'].rsplit('::', 1)[-1] in ('rev', 'max_by_key', 'min_by', 'last') for c in fam for _bb, t in c.calls())
        if mbk and not rev:
            rep.ok(rule, key, '%s:%s' % (b.file, b.line), 'find_all_end(..).min_by_key(dist)')
            continue
        # explicit scan: no non-strict comparison between two distances may guard the replacement
        nonstrict = []
        for c in fam:
            for bb in c.reachable(0):
                for st in c.stmts(bb):
                    if st['k'] == 'assign' and st['r']['k'] == 'bin' and st['r']['op'] in ('Le', 'Ge') and not st.get('exp'):
                        nonstrict.append((c, bb))
                t = c.term(bb)
                if t['k'] == 'call' and call_info(t) and call_info(t).get('trait') == 'std::cmp::PartialOrd' and \
                        call_info(t)['fn'].rsplit('::', 1)[-1] in ('le', 'ge'):
                    nonstrict.append((c, bb))
        if nonstrict:
            rep.bad(rule, key, nonstrict[0][0].loc(nonstrict[0][1]), 'the best hit is replaced on `<=`: on ties the last minimal end '
                                                                     'position is returned, not the first')
        elif rev:
            rep.bad(rule, key, '%s:%s' % (b.file, b.line), 'the minimum is not taken with first-wins semantics')
        else:
            rep.ok(rule, key, '%s:%s' % (b.file, b.line), 'explicit scan with strict comparison')
    rep.floor(rule, 'find_best_end instantiations', n, 2)


# ------------------------------------------------------------------------------------------------ TB-13 (C08)
def tb13(facts, rep, rule='TB-13'):
    rep.rule(rule, 'byte-indexed tables: a Vec that a matcher constructor builds with vec![x; N] and that is indexed by text / '
                   'pattern bytes has N = 256 entries (the whole byte alphabet)')
    n = 0
    for mod in ('horspool', 'bom', 'kmp', 'bndm', 'shift_and'):
        for b in facts.body_list:
            if not b.path.startswith('pattern_matching::%s::' % mod) or b.name != 'new' or b.kind == 'Closure':
                continue
            v = facts.view(b)
            for bb, t in v.calls():
                info = call_info(t)
                if not info or not info['fn'].endswith('vec::from_elem') or len(t['args']) != 2:
                    continue
                e = strip_casts(v.expr_operand(t['args'][1], inline_user=True))
                if e[0] != 'const' or not isinstance(e[1], int) or not (200 <= e[1] <= 300):
                    continue     # only tables whose size is (close to) the alphabet size
                n += 1
                key = '%s|byte-table-has-256-entries' % b.path
                rep.analysed_body(v)
                if e[1] == 256:
                    rep.ok(rule, key, v.loc(bb), 'vec![_; 256]')
                else:
                    rep.bad(rule, key, v.loc(bb), 'a per-byte table is created with %d entries: byte values >= %d index out of '
                                                  'bounds' % (e[1], e[1]))
    rep.floor(rule, 'byte tables', n, 1)


# ------------------------------------------------------------------------------------------------ RI-5 (C06, C14, ...)
def _vec_root_local(b, operand, depth=0):
    """local Vec an operand (a reference / reborrow / deref result) refers to, or None"""
    pl = operand.get('m') or operand.get('c')
    seen = set()
    while pl is not None and pl['l'] not in seen:
        l = pl['l']
        seen.add(l)
        if pl.get('pj') and pl['pj'] != ['*']:
            return None
        sd = b.single_def(l)
        if sd is None:
            return l if b.locals[l]['ty'].startswith('std::vec::Vec<') else None
        if sd[0] == 'stmt':
            r = sd[3]['r']
            if r['k'] == 'ref':
                q = r['p']
                if not q.get('pj'):
                    return q['l'] if b.locals[q['l']]['ty'].startswith('std::vec::Vec<') else None
                if q.get('pj') == ['*']:
                    pl = {'l': q['l']}
                    continue
                return None
            if r['k'] == 'use':
                pl = r['o'].get('m') or r['o'].get('c')
                continue
            return l if b.locals[l]['ty'].startswith('std::vec::Vec<') else None
        if sd[0] == 'call':
            info = call_info(sd[2])
            if info and info['fn'].rsplit('::', 1)[-1] in ('deref', 'deref_mut', 'as_slice', 'as_mut_slice', 'as_ref', 'as_mut', 'borrow', 'borrow_mut'):
                pl = sd[2]['args'][0].get('m') or sd[2]['args'][0].get('c')
                continue
            return l if b.locals[l]['ty'].startswith('std::vec::Vec<') else None
        return None
    return None


PUSHES = ('push', 'extend', 'extend_from_slice', 'insert', 'append', 'resize', 'push_back')
CLEARS = ('clear', 'truncate', 'drain')


def ri5(facts, rep, paths, rule='RI-5'):
    """scratch vectors reused across loop iterations never carry elements of an earlier iteration into a read"""
    rep.rule(rule, 'scratch buffers hoisted out of a loop: a local Vec that is created outside a loop, emptied somewhere inside it '
                   '(so it is per-iteration scratch, not an accumulator) must be empty again whenever an iteration that pushed '
                   'into it ends - otherwise a later iteration reads elements of an earlier one (typical after "allocate once, '
                   'reuse" optimisations that forget the early-continue / early-break paths)')
    n = 0
    for path in paths:
        b0 = facts.bodies.get(path) if path in facts.bodies else None
        if b0 is None:
            cands = [x for x in facts.body_list if x.path == path or x.path.endswith(path)]
            b0 = cands[0] if len(cands) == 1 else None
        if b0 is None:
            rep.missing(rule, path, 'not found')
            continue
        b = facts.view(b0)
        rep.analysed_body(b)
        n += 1
        loops = b.natural_loops()
        ev = {}          # block -> list of (kind, vec local)
        for bb, t in b.calls():
            info = call_info(t)
            if not info or not t['args']:
                continue
            nm = info['fn'].rsplit('::', 1)[-1]
            if 'Vec' not in info['fn'] and 'vec' not in info['fn'] and nm not in ('extend',):
                continue
            v = _vec_root_local(b, t['args'][0])
            if v is None:
                continue
            if nm in PUSHES:
                ev.setdefault(bb, []).append(('push', v))
            elif nm in CLEARS:
                ev.setdefault(bb, []).append(('clear', v))
        vecs = {v for evs in ev.values() for _k, v in evs}
        key = '%s|scratch-vectors-empty-between-iterations' % b.path
        bad = None
        checked = 0
        for v in sorted(vecs):
            # creation site: blocks that define v as a whole
            d, _p = b.defs()
            def_blocks = [df[1] for df in d.get(v, []) if df[0] in ('stmt', 'call')]
            for h, blocks in loops.items():
                if any(x in blocks for x in def_blocks):
                    continue        # created inside the loop: fresh every iteration
                has_clear = any(k == 'clear' and vv == v for bb in blocks for k, vv in ev.get(bb, []))
                has_push = any(k == 'push' and vv == v for bb in blocks for k, vv in ev.get(bb, []))
                if not (has_clear and has_push):
                    continue        # an accumulator (never emptied) or not filled here
                checked += 1
                # forward dataflow over the whole function, state of v at block entry: 'E' empty, 'N' holds elements of the
                # current iteration, 'S' may hold elements pushed in an EARLIER iteration of this loop. Pushing onto 'S'
                # mixes iterations. (Reading 'S' is fine: buffers are legitimately swapped / carried over.)
                backs = {(x, h) for x in blocks if h in b.succ[x]}
                inst = {0: {'E'}}
                work = [0]
                while work:
                    x = work.pop()
                    st = set(inst[x])
                    for k, vv in ev.get(x, []):
                        if vv != v:
                            continue
                        if k == 'clear':
                            st = {'E'}
                        else:
                            if 'S' in st and x in blocks:
                                bad = (x, v, h)
                            st = {'N'}
                    for s_ in b.succ[x]:
                        out = {('S' if q in ('N', 'S') else q) for q in st} if (x, s_) in backs else st
                        old = inst.get(s_, set())
                        if not out <= old:
                            inst[s_] = old | out
                            work.append(s_)
        if bad is not None:
            rep.bad(rule, key, b.loc(bad[0]), 'elements are appended to the vector `%s` although it may still hold elements of an earlier iteration of the '
                                              'loop at %s (the loop treats it as per-iteration scratch: it is cleared elsewhere in the loop)' % (
                        b.local_name(bad[1]) or '_%d' % bad[1], b.loc(bad[2])))
        else:
            rep.ok(rule, key, '%s:%s' % (b.file, b.line), '%d hoisted scratch vector/loop pair(s) checked' % checked)
    rep.floor(rule, 'functions', n, 1)


# ------------------------------------------------------------------------------------------------ NC-2 (C17)
def nc2(facts, rep, rule='NC-2'):
    """value-changing casts in rank/select and the wavelet matrix"""
    from . import eng_po
    from .round2 import narrowing_casts
    rep.rule(rule, 'value-changing integer casts in rank_select.rs / wavelet_matrix.rs (narrowing `as`, signed <-> unsigned) are '
                   'all discharged by interval analysis: a bit count or block offset that is truncated (e.g. to u8 before a '
                   '`min`) makes select/rank scan the wrong number of bits')
    n = 0
    for b in facts.body_list:
        if not b.path.startswith(('data_structures::rank_select', '<data_structures::rank_select', 'data_structures::wavelet_matrix',
                                  '<data_structures::wavelet_matrix')) or '::tests::' in b.path:
            continue
        v = facts.view(b)
        if not any(s['k'] == 'assign' and s['r']['k'] == 'cast' for bb in v.reachable(0) for s in v.stmts(bb)):
            continue
        for c in narrowing_casts(v, eng_po.Intervals(v, facts).run()):
            n += 1
            key = '%s|%s->%s' % (b.path, c['from'], c['to'])
            rep.analysed_body(v)
            if c['discharged']:
                rep.ok(rule, key, c['where'], 'operand interval fits the target type')
            else:
                rep.bad(rule, key, c['where'], 'the value `%s` is cast from %s to %s and may not fit' % (c['ops'][:120], c['from'], c['to']))
    rep.floor(rule, 'value-changing casts', n, 2)


# ------------------------------------------------------------------------------------------------ TB-7b (C17)
def tb7b(facts, rep, rule='TB-7'):
    """every level of the wavelet matrix is visited by rank"""
    WM = 'data_structures::wavelet_matrix'
    b = facts.method(WM + '::WaveletMatrix', 'rank')
    key = 'WaveletMatrix::rank|every-level-visited'
    if b is None:
        rep.missing(rule, key, 'rank not found')
        return
    rep.analysed_body(b)
    loops = b.natural_loops()
    pr = [bb for bb, t in b.calls() if call_info(t) and call_info(t)['fn'].endswith('::prank')]
    if not pr or not loops:
        rep.missing(rule, key, 'level loop / prank calls not found')
        return
    h = None
    for hh, blocks in loops.items():
        if all(x in blocks for x in pr) and (h is None or len(blocks) < len(loops[h])):
            h = hh
    if h is None:
        rep.missing(rule, key, 'prank calls are not inside one loop')
        return
    backs = [x for x in loops[h] if h in b.succ[x]]
    # on every path around the loop one of the prank calls is executed (both arms of the bit test call it)
    ok = True
    for s_ in backs:
        # is there a path h -> s_ inside the loop avoiding all prank blocks?
        seen = {h}
        st = [h]
        reach = False
        while st:
            x = st.pop()
            if x == s_:
                reach = True
                break
            for y in b.succ[x]:
                if y in loops[h] and y not in seen and y not in pr and y != h:
                    seen.add(y)
                    st.append(y)
        if reach and s_ not in pr:
            ok = False
    if ok:
        rep.ok(rule, key, b.loc(h), 'every iteration of the level loop maps the position through prank')
    else:
        rep.bad(rule, key, b.loc(h), 'a level can be skipped: for a symbol whose code has a 1 at a skipped level the count of another '
                                     'symbol is returned')


# ------------------------------------------------------------------------------------------------ C12: index order, clear-before-return
def or2(facts, rep, rule='OR-2'):
    rep.rule(rule, 'fasta::Index: record numbers stored in name_to_rid are positions in `inner` - after a record has been pushed '
                   'the vector is not reordered (sort / reverse / swap / retain / dedup / remove), otherwise names and record '
                   'numbers address other records')
    b = None
    for c in facts.body_list:
        if c.path == 'io::fasta::Index::new':
            b = facts.view(c)
    key = 'fasta::Index::new|records-not-reordered-after-numbering'
    if b is None:
        rep.missing(rule, key, 'not found')
        return
    rep.analysed_body(b)
    fam = facts.family(b)
    badc = []
    for c in fam:
        for bb, t in c.calls():
            info = call_info(t)
            if not info:
                continue
            nm = info['fn'].rsplit('::', 1)[-1]
            if (nm.startswith('sort') or nm in ('reverse', 'swap', 'retain', 'dedup', 'dedup_by_key', 'remove', 'swap_remove', 'rotate_left',
                                                 'rotate_right', 'insert')) and ('slice' in info['fn'] or 'Vec' in info['fn']):
                if nm == 'insert' and 'HashMap' in info['fn']:
                    continue
                badc.append((c, bb, nm))
    if badc:
        rep.bad(rule, key, badc[0][0].loc(badc[0][1]), 'the record vector is passed to `%s` although record numbers have already been handed out' % badc[0][2])
    else:
        rep.ok(rule, key, '%s:%s' % (b.file, b.line), 'records are only pushed')


def ri7(facts, rep, rule='RI-7'):
    rep.rule(rule, 'fetch independence of the output buffer: on every path on which IndexedReader::read returns Ok the caller\'s '
                   'vector has been cleared first (also for an empty interval)')
    from . import inline
    PRE = 'io::fasta::IndexedReader::<R>::'
    b0 = facts.body(PRE + 'read')
    key = 'IndexedReader::read|buffer-cleared-before-every-ok-return'
    if b0 is None:
        rep.missing(rule, key, 'not found')
        return
    keep = lambda pth: pth.rsplit('::', 1)[-1] in ('seek_to', 'read_line', 'read', 'idx', 'idx_by_rid')
    b = inline.inlined(facts, b0, keep)
    rep.analysed_body(b)
    clears = {bb for bb, t in b.calls() if call_info(t) and call_info(t)['fn'].endswith('Vec::<T, A>::clear')}
    # blocks that produce / propagate an error
    errs = set()
    for bb in b.reachable(0):
        for s in b.stmts(bb):
            if s['k'] == 'assign' and s['r']['k'] == 'agg' and s['r'].get('variant') == 'Err' and (s['r'].get('adt') or '').endswith('Result'):
                errs.add(bb)
        t = b.term(bb)
        if t['k'] == 'call' and call_info(t) and call_info(t)['fn'].endswith('FromResidual::from_residual'):
            errs.add(bb)
    if not clears:
        rep.bad(rule, key, '%s:%s' % (b.file, b.line), 'the caller\'s vector is never cleared')
        return
    # is a return reachable from the entry without passing a clear and without passing an error block?
    seen = {0}
    st = [0]
    hit = None
    while st:
        x = st.pop()
        if x in clears or x in errs:
            continue
        if b.term(x)['k'] == 'return':
            hit = x
            break
        for y in b.succ[x]:
            if y not in seen:
                seen.add(y)
                st.append(y)
    if hit is not None:
        rep.bad(rule, key, b.loc(hit), 'Ok is returned on a path that never cleared the caller\'s vector: it still holds the bases of '
                                       'the previous fetch')
    else:
        rep.ok(rule, key, b.loc(sorted(clears)[0]), 'every successful path passes seq.clear()')


# ------------------------------------------------------------------------------------------------ C13: float parse, dialect table
def vd2(facts, rep, rule='VD-2'):
    rep.rule(rule, 'coordinates are integers: nothing in io::bed / io::gff parses a floating point number (a float fallback turns '
                   '`-5`, `1.5`, `nan`, `1e400` into valid coordinates instead of errors)')
    n = 0
    bad = []
    for b in facts.body_list:
        if not b.path.startswith(('io::bed', '<io::bed', 'io::gff', '<io::gff')) or '::tests::' in b.path:
            continue
        n += 1
        for bb, t in b.calls():
            info = call_info(t)
            if not info:
                continue
            full = (info.get('fn_full') or '') + ' ' + (info.get('res') or '')
            if ('parse::<f64>' in full or 'parse::<f32>' in full or 'FromStr>::from_str' in full and ('<f64 as' in full or '<f32 as' in full)
                    or 'dec2flt' in full):
                bad.append((b, bb))
    key = 'io::bed+io::gff|no-float-parsing'
    if bad:
        rep.bad(rule, key, bad[0][0].loc(bad[0][1]), '%s parses a float' % bad[0][0].path)
    else:
        rep.ok(rule, key, '', '%d bodies, none parses a float' % n)


def tb4c(facts, rep, rule='TB-4'):
    """dialect table of GffType::separator"""
    b = facts.body('io::gff::GffType::separator')
    key = 'GffType::separator|dialect-table'
    if b is None:
        rep.missing(rule, key, 'not found')
        return
    rep.analysed_body(b)
    rows = []
    for bb in b.reachable(0):
        for s in b.stmts(bb):
            if s['k'] == 'assign' and s['r']['k'] == 'agg' and s['r'].get('ak') == 'tuple' and len(s['r']['ops']) == 3:
                vals = [strip_casts(b.expr_operand(o, inline_user=True)) for o in s['r']['ops']]
                if all(v[0] == 'const' and isinstance(v[1], int) for v in vals):
                    rows.append(tuple(v[1] for v in vals))
    want = sorted([(ord('='), ord(';'), ord(',')), (ord(' '), ord(';'), 0), (ord(' '), ord(';'), 0)])
    merged = sorted(set(want))
    if sorted(rows) == want or sorted(rows) == merged:
        rep.ok(rule, key, '%s:%s' % (b.file, b.line), 'GFF3 (=, ;, ,)  GFF2/GTF2 (space, ;, no value delimiter)')
    else:
        rep.bad(rule, key, '%s:%s' % (b.file, b.line), 'separator table is %s, expected GFF3 (=, ;, ,) and GFF2/GTF2 (space, ;, 0 = values are '
                                                       'not split): a comma inside a GFF2/GTF2 value would split it' % sorted(rows))


# ------------------------------------------------------------------------------------------------ C15: direct ln
def tb5b(facts, rep, rule='TB-5'):
    b = facts.one(r'^<stats::probs::LogProb as std::convert::From<stats::probs::Prob>>::from$')
    key = 'From<Prob> for LogProb|ln-of-the-probability-itself'
    if b is None:
        rep.missing(rule, key, 'not found')
        return
    rep.analysed_body(b)
    good = False
    txt = ''
    for bb in b.reachable(0):
        for s in b.stmts(bb):
            if s['k'] == 'assign' and s['r']['k'] == 'agg' and (s['r'].get('adt') or '').endswith('probs::LogProb'):
                e = strip(b.expr_operand(s['r']['ops'][0], inline_user=True))
                txt = fmt(e)
                good = e[0] == 'call' and e[1].rsplit('::', 1)[-1] == 'ln' and not any(
                    isinstance(x, tuple) and x[0] == 'bin' for x in walk(e))
    if good:
        rep.ok(rule, key, '%s:%s' % (b.file, b.line), txt)
    else:
        rep.bad(rule, key, '%s:%s' % (b.file, b.line), 'LogProb::from(Prob) is `%s`, not ln(p): arithmetic on p before the logarithm (e.g. '
                                                       'ln_1p(p - 1)) destroys the relative accuracy of small probabilities' % txt[:80])


# ------------------------------------------------------------------------------------------------ C18: Fenwick bound, SmallInts overwrite
def fw2(facts, rep, rule='FW-2'):
    rep.rule(rule, 'Fenwick tree extent: the update walk of FenwickTree::set runs while idx < tree.len() (the 1-based storage '
                   'length), compared as a polynomial - a bound one short never writes the last node')
    b = facts.method('data_structures::bit_tree::FenwickTree', 'set')
    key = 'FenwickTree::set|walk-covers-the-last-node'
    if b is None:
        rep.missing(rule, key, 'not found')
        return
    rep.analysed_body(b)
    loops = b.natural_loops()
    ok = False
    seen = []
    for g in eng_gd.guards(b):
        if not any(g['bb'] in blocks for blocks in loops.values()):
            continue
        e = strip_casts(g['expr'])
        if isinstance(e, tuple) and e[0] == 'bin' and e[1] in ('Lt', 'Gt', 'Le', 'Ge'):
            a_, c_ = (e[2], e[3]) if e[1] in ('Lt', 'Le') else (e[3], e[2])
            d = poly(c_)
            for m, v in poly(a_).items():
                d[m] = d.get(m, 0) - v
            if e[1] in ('Le', 'Ge'):
                d[()] = d.get((), 0) + 1      # a <= c  <=>  a < c + 1
            d = {m: v for m, v in d.items() if v}
            seen.append(pstr(d))
            lens = [m for m in d if len(m) == 1 and 'len(' in m[0] and 'tree' in m[0]]
            if len(d) == 2 and len(lens) == 1 and d[lens[0]] == 1 and sorted(d.values()) == [-1, 1] and () not in d:
                ok = True
    if ok:
        rep.ok(rule, key, '%s:%s' % (b.file, b.line), 'while idx < self.tree.len()')
    else:
        rep.bad(rule, key, '%s:%s' % (b.file, b.line), 'the update loop is bounded by `%s > 0`, not by idx < tree.len()' % (seen[:2],))


def sb5b(facts, rep, rule='SB-5'):
    SI = 'data_structures::smallints::SmallInts'
    b = facts.method(SI, 'set')
    key = SI + '::set|big-value-overwrites'
    if b is None:
        rep.missing(rule, key, 'not found')
        return
    rep.analysed_body(b)
    ins = [bb for bb, t in b.calls() if call_info(t) and call_info(t)['fn'].endswith('::insert') and 'BTreeMap' in call_info(t)['fn']]
    keepers = [bb for bb, t in b.calls() if call_info(t) and call_info(t)['fn'].rsplit('::', 1)[-1] in ('or_insert', 'or_insert_with', 'or_default', 'try_insert')]
    if ins and not keepers:
        rep.ok(rule, key, b.loc(ins[0]), 'bigints.insert(i, v) replaces an earlier big value')
    else:
        rep.bad(rule, key, '%s:%s' % (b.file, b.line), 'set() does not overwrite an existing big value (entry().or_insert keeps the old one): '
                                                       'get() returns a stale value')


# ------------------------------------------------------------------------------------------------ C20: gc denominator, byte ranges
def tb8b(facts, rep, rule='TB-8'):
    root = facts.body('seq_analysis::gc::gcn_content')
    key = 'seq_analysis::gc::gcn_content|length-is-counted'
    if root is None:
        rep.missing(rule, key, 'not found')
        return
    fam = facts.family(root)
    hint = [(c, bb) for c in fam for bb, t in c.calls() if call_info(t) and
            call_info(t)['fn'].rsplit('::', 1)[-1] in ('size_hint', 'len') and 'Iterator' in call_info(t)['fn']]
    if hint:
        rep.bad(rule, key, hint[0][0].loc(hint[0][1]), 'the number of symbols is taken from the iterator\'s size hint / length instead of being '
                                                       'counted: filtered or lazily cut iterators report a different number')
    else:
        rep.ok(rule, key, '%s:%s' % (root.file, root.line), 'symbols are counted while they are visited')


def br1(facts, rep, rule='BR-1'):
    rep.rule(rule, 'byte ranges: a half-open integer range over byte values that starts at 0 and ends at a constant ends at 256 '
                   '(0..255 / 0..u8::MAX silently excludes byte 0xFF), in the alphabets module')
    n = 0
    bad = []
    for b in facts.body_list:
        if not b.path.startswith(('alphabets', '<alphabets')) or '::tests::' in b.path:
            continue
        v = facts.view(b)
        for bb in v.reachable(0):
            for s in v.stmts(bb):
                if s['k'] == 'assign' and s['r']['k'] == 'agg' and (s['r'].get('adt') or '') == 'std::ops::Range' and len(s['r']['ops']) == 2:
                    lo = strip_casts(v.expr_operand(s['r']['ops'][0], inline_user=True))
                    hi = strip_casts(v.expr_operand(s['r']['ops'][1], inline_user=True))
                    if lo[0] == 'const' and lo[1] == 0 and hi[0] == 'const' and isinstance(hi[1], int) and 200 <= hi[1] <= 300:
                        n += 1
                        if hi[1] != 256:
                            bad.append((v, bb, hi[1]))
    key = 'alphabets|byte-ranges-end-at-256'
    if bad:
        rep.bad(rule, key, bad[0][0].loc(bad[0][1]), 'range 0..%d over byte values misses %s' % (bad[0][2], 'byte 0xFF' if bad[0][2] == 255 else 'bytes'))
    else:
        rep.ok(rule, key, '', '%d constant byte range(s), none short' % n)


PO9_AUDIT = {
    'data_structures::bwt::bwt|explicit-panic|assert_failed(AssertKind::Eq{},slice::len(arg1))<usize>':
        'documented precondition: assert_eq!(text.len(), pos.len())',
    'data_structures::bwt::bwt|bounds|idx=x0,len=PtrMetadata(arg2)':
        'pos is a permutation of 0..n (suffix array of the same text, asserted equal length): pos[r] - 1 < n when pos[r] > 0, n - 1 < n, r < n',
    'data_structures::bwt::bwt|bounds|idx=P[-1 + x0].0,len=PtrMetadata(arg1)':
        'pos is a permutation of 0..n (suffix array of the same text, asserted equal length): pos[r] - 1 < n when pos[r] > 0, n - 1 < n, r < n',
    'data_structures::bwt::bwt|overflow-sub|slice::len(arg1),1':
        'texts are non-empty (they end with a sentinel)',
    'data_structures::bwt::bwt|bounds|idx=P[-1 + slice::len(arg1)].0,len=PtrMetadata(arg1)':
        'pos is a permutation of 0..n (suffix array of the same text, asserted equal length): pos[r] - 1 < n when pos[r] > 0, n - 1 < n, r < n',
    'data_structures::bwt::bwt|index|index_mut(x0,x1)<std::vec::Vec<u8>>':
        'pos is a permutation of 0..n (suffix array of the same text, asserted equal length): pos[r] - 1 < n when pos[r] > 0, n - 1 < n, r < n',
    'data_structures::bwt::invert_bwt|index|index(bwt::bwtfind(arg1,Alphabet::new(arg1)),0)<std::vec::Vec<usize>>':
        'bwtfind has one entry per BWT row and holds row numbers < n; the BWT of a sentinel-terminated text is non-empty',
    'data_structures::bwt::invert_bwt|index|index(bwt::bwtfind(arg1,Alphabet::new(arg1)),x0)<std::vec::Vec<usize>>':
        'bwtfind has one entry per BWT row and holds row numbers < n; the BWT of a sentinel-terminated text is non-empty',
    'data_structures::bwt::invert_bwt|bounds|idx=x0,len=PtrMetadata(arg1)':
        'bwtfind has one entry per BWT row and holds row numbers < n; the BWT of a sentinel-terminated text is non-empty',
    'data_structures::bwt::Occ::new|unwrap|expect(Alphabet::max_symbol(arg3),lit)<u8>':
        'documented precondition: non-empty alphabet',
    'data_structures::bwt::Occ::new|index|index_mut(x0,x1)<std::vec::Vec<std::vec::Vec<usize>>>':
        'occ has max_symbol + 1 rows and curr_occ as many entries; BWT symbols are in the alphabet; counts are bounded by the text length',
    'data_structures::bwt::Occ::new|divzero|slice::len(arg1)':
        'sampling rate k >= 1 (documented; k = 0 is meaningless)',
    'data_structures::bwt::Occ::new|index|index_mut(x0,x1)<std::vec::Vec<usize>>':
        'occ has max_symbol + 1 rows and curr_occ as many entries; BWT symbols are in the alphabet; counts are bounded by the text length',
    'data_structures::bwt::Occ::new|overflow-add|1,IndexMut<I>>::index_mut(x0,x1)':
        'occ has max_symbol + 1 rows and curr_occ as many entries; BWT symbols are in the alphabet; counts are bounded by the text length',
    'data_structures::bwt::Occ::new|remzero|x0':
        'sampling rate k >= 1 (documented; k = 0 is meaningless)',
    'data_structures::bwt::Occ::new|index|index(x0,x1)<std::vec::Vec<usize>>':
        'occ has max_symbol + 1 rows and curr_occ as many entries; BWT symbols are in the alphabet; counts are bounded by the text length',
    'data_structures::bwt::Occ::get|divzero|arg3':
        'k >= 1 as established by Occ::new',
    'data_structures::bwt::Occ::get|index|index(arg1.occ,arg4)<std::vec::Vec<std::vec::Vec<usize>>>':
        'a is a symbol of the alphabet the table was built for (row exists); checkpoint r / k exists because one is pushed every k rows starting at row 0',
    'data_structures::bwt::Occ::get|index|index(Index<I>>::index(arg1.occ,arg4),Div(arg3,arg1.k))<std::vec::Vec<usize>>':
        'a is a symbol of the alphabet the table was built for (row exists); checkpoint r / k exists because one is pushed every k rows starting at row 0',
    'data_structures::bwt::Occ::get|overflow-add|1,Div(arg3,arg1.k)':
        'row numbers and checkpoint positions are bounded by the BWT length (far below usize::MAX); (q + 1) * k > r by definition of q = r / k',
    'data_structures::bwt::Occ::get|overflow-mul|P[1 + Div(arg3,arg1.k)].0,arg1.k':
        'row numbers and checkpoint positions are bounded by the BWT length (far below usize::MAX); (q + 1) * k > r by definition of q = r / k',
    'data_structures::bwt::Occ::get|overflow-sub|P[Div(arg3,arg1.k)*arg1.k + arg1.k].0,arg3':
        'row numbers and checkpoint positions are bounded by the BWT length (far below usize::MAX); (q + 1) * k > r by definition of q = r / k',
    'data_structures::bwt::Occ::get|overflow-add|1,arg3':
        'row numbers and checkpoint positions are bounded by the BWT length (far below usize::MAX); (q + 1) * k > r by definition of q = r / k',
    'data_structures::bwt::Occ::get|index|index(arg2,RangeInclusive::new(P[1 + arg3].0,P[Div(arg3,arg1.k)*arg1.k + arg1.k].0))<[u8]>':
        'r < bwt.len() (documented: r is a BWT row) and the checkpoint rows q*k, (q+1)*k bracket r; the high range is only used when checkpoint q + 1 exists (slice::get), i.e. (q+1)*k < bwt.len()',
    'data_structures::bwt::Occ::get|overflow-sub|val(slice::get(Deref>::deref(Index<I>>::index(arg1.occ,arg4)),P[1 + Div(arg3,arg1.k)].0)),bytecount::count(index for [T]>::index(arg2,RangeInclusive::new(P[1 + arg3].0,P[Div(arg3,arg1.k)*arg1.k + arg1.k].0)),arg4)':
        'the number of occurrences between r and the next checkpoint cannot exceed the checkpoint value',
    'data_structures::bwt::Occ::get|overflow-mul|Div(arg3,arg1.k),arg1.k':
        'row numbers and checkpoint positions are bounded by the BWT length (far below usize::MAX); (q + 1) * k > r by definition of q = r / k',
    'data_structures::bwt::Occ::get|overflow-add|1,P[Div(arg3,arg1.k)*arg1.k].0':
        'row numbers and checkpoint positions are bounded by the BWT length (far below usize::MAX); (q + 1) * k > r by definition of q = r / k',
    'data_structures::bwt::Occ::get|index|index(arg2,RangeInclusive::new(P[1 + Div(arg3,arg1.k)*arg1.k].0,arg3))<[u8]>':
        'r < bwt.len() (documented: r is a BWT row) and the checkpoint rows q*k, (q+1)*k bracket r; the high range is only used when checkpoint q + 1 exists (slice::get), i.e. (q+1)*k < bwt.len()',
    'data_structures::bwt::Occ::get|overflow-add|Index<I>>::index(Index<I>>::index(arg1.occ,arg4),Div(arg3,arg1.k)),bytecount::count(index for [T]>::index(arg2,RangeInclusive::new(P[1 + Div(arg3,arg1.k)*arg1.k].0,arg3)),arg4)':
        'row numbers and checkpoint positions are bounded by the BWT length (far below usize::MAX); (q + 1) * k > r by definition of q = r / k',
    'data_structures::bwt::less|unwrap|expect(Alphabet::max_symbol(arg2),lit)<u8>':
        'documented precondition: non-empty alphabet',
    'data_structures::bwt::less|index|index_mut(x0,x1)<std::vec::Vec<usize>>':
        'the table has max_symbol + 2 entries and every BWT symbol is <= max_symbol; counts and their prefix sums are bounded by the text length',
    'data_structures::bwt::less|index|index_mut(x0,RangeFull::RangeFull{})<std::vec::Vec<usize>>':
        'the table has max_symbol + 2 entries and every BWT symbol is <= max_symbol; counts and their prefix sums are bounded by the text length',
    'data_structures::bwt::less|overflow-add|1,IndexMut<I>>::index_mut(x0,x1)':
        'the table has max_symbol + 2 entries and every BWT symbol is <= max_symbol; counts and their prefix sums are bounded by the text length',
    'data_structures::bwt::less|overflow-add|x0,x1':
        'the table has max_symbol + 2 entries and every BWT symbol is <= max_symbol; counts and their prefix sums are bounded by the text length',
    'data_structures::bwt::bwtfind|index|index(x0,x1)<std::vec::Vec<usize>>':
        'less has max_symbol + 2 entries and every BWT symbol is in the alphabet; less[c] counts smaller symbols, so less[c] + (occurrences so far) < n; counts are bounded by n',
    'data_structures::bwt::bwtfind|index|index_mut(x0,Index<I>>::index(x1,x2))<std::vec::Vec<usize>>':
        'less has max_symbol + 2 entries and every BWT symbol is in the alphabet; less[c] counts smaller symbols, so less[c] + (occurrences so far) < n; counts are bounded by n',
    'data_structures::bwt::bwtfind|index|index_mut(x0,x1)<std::vec::Vec<usize>>':
        'less has max_symbol + 2 entries and every BWT symbol is in the alphabet; less[c] counts smaller symbols, so less[c] + (occurrences so far) < n; counts are bounded by n',
    'data_structures::bwt::bwtfind|overflow-add|1,IndexMut<I>>::index_mut(x0,x1)':
        'less has max_symbol + 2 entries and every BWT symbol is in the alphabet; less[c] counts smaller symbols, so less[c] + (occurrences so far) < n; counts are bounded by n',
}


def po9(facts, rep, rule='PO-9'):
    """panic / wrap obligations of the BWT module"""
    from . import eng_po
    from .po_known import KNOWN
    rep.rule(rule, 'panic obligations of bwt.rs (bwt, less, bwtfind, invert_bwt, Occ::new, Occ::get): every MIR Assert and may-panic '
                   'call is discharged by interval analysis or audited against the documented preconditions (sentinel-terminated text, '
                   'symbols in the alphabet, k >= 1); new arithmetic - e.g. a table size computed in u8 - is reported')
    bodies = [b for b in facts.body_list if b.path.startswith(('data_structures::bwt::', '<data_structures::bwt::')) and '::tests::' not in b.path and 'serde' not in b.path and
              '_::' not in b.path]
    rep.floor(rule, 'bodies', len(bodies), 6)
    total = 0
    for b, nb, ia, obs in eng_po.scan(facts, bodies, KNOWN):
        rep.analysed_body(b)
        seen = {}
        for o in obs:
            total += 1
            key = '%s|%s|%s' % (b.path, o['kind'], o['ops'])
            seen[key] = seen.get(key, 0) + 1
            k2 = key + ('#%d' % seen[key] if seen[key] > 1 else '')
            if o['discharged']:
                rep.ok(rule, k2, o['where'], 'interval analysis')
            elif key in PO9_AUDIT:
                rep.audited(rule, k2, o['where'], PO9_AUDIT[key])
            elif eng_po.orphan_match(key, PO9_AUDIT, set(facts.bodies)):
                k0 = eng_po.orphan_match(key, PO9_AUDIT, set(facts.bodies))
                rep.audited(rule, k2, o['where'], 'arithmetic of the removed function %s, now written in its caller: %s' % (k0.split('|')[0], PO9_AUDIT[k0]))
            elif eng_po.implied(key, PO9_AUDIT, o):
                rep.audited(rule, k2, o['where'], eng_po.implied(key, PO9_AUDIT, o)[1])
            else:
                rep.bad(rule, key, o['where'], 'undischarged %s obligation: %s' % (o['kind'], o['detail']))
    rep.floor(rule, 'obligations', total, 30)
