"""C12 indexed FASTA — GD-4 (errors instead of wrong data), SB-2 (buffer and iterator paths check the same things),
TS-6 (fetch sets all three cursor fields, on success only), PO-3 (panic obligations)."""
import re
from . import eng_po, eng_gd, inline
from .mirlib import call_info, strip, strip_casts, fmt, walk

LEVEL = 'other'
IR = 'io::fasta::IndexedReader'
PRE = 'io::fasta::IndexedReader::<R>::'

AUDIT = {
    "<io::fasta::IndexedReaderIterator<'a, R> as std::iter::Iterator>::next|index|index(arg1.buf,arg1.buf_idx)<std::vec::Vec<u8>>":
        'guarded by buf_idx < buf.len() in the same condition',
    "<io::fasta::IndexedReaderIterator<'a, R> as std::iter::Iterator>::next|overflow-add|1,arg1.buf_idx":
        'buf_idx < buf.len() <= isize::MAX',
    "<io::fasta::IndexedReaderIterator<'a, R> as std::iter::Iterator>::next|index|index(arg1.buf,0)<std::vec::Vec<u8>>":
        'fill_buffer returned Ok, and it loops `while self.buf.is_empty()`: the buffer holds at least one base',
    'io::fasta::IndexedReader::<R>::read_into_buffer|overflow-sub|x0,val(IndexedReader::read_line(arg1,arg2,x1,x0,arg5))':
        'read_line returns bytes_to_keep <= bases_left (both branches of its min logic)',
    'io::fasta::IndexedReader::<R>::read_line|overflow-sub|arg2.line_bases,cmp::min(arg2.line_bases,arg3)':
        'min(a, x) <= a',
    'io::fasta::IndexedReader::<R>::read_line|overflow-sub|arg2.line_bytes,arg3':
        'line_offset < line_bytes: seek_to returns start % line_bases < line_bases <= line_bytes and read_line resets the offset to 0 when it reaches line_bytes',
    'io::fasta::IndexedReader::<R>::read_line|index|index(val(BufRead>::fill_buf(arg1.reader)),RangeTo::RangeTo{x0})<[u8]>':
        'bytes_to_keep <= bases_in_buffer <= src.len()',
    'io::fasta::IndexedReader::<R>::read_line|overflow-add|arg3,x0':
        'line_offset + bytes_to_read <= line_bytes <= u64::MAX',
    'io::fasta::IndexedReader::<R>::read_line|explicit-panic|panic(lit)<>':
        'assert!(bytes_to_read > 0): src is non-empty (EOF returned an error above), line_offset < line_bytes, and callers pass bases_left > 0 (loop guard in read_into_buffer, assert + guard in fill_buffer/next)',
    'io::fasta::IndexedReader::<R>::seek_to|remzero|arg3':
        'assumption of C12: the index describes lines of width >= 1 (line_bases > 0); a .fai with a zero line width is outside the property',
    'io::fasta::IndexedReader::<R>::seek_to|explicit-panic|panic(lit)<>':
        'assert!(start <= idx.len): both callers return Err unless stop <= idx.len and start <= stop (rule GD-4 checks that these guards dominate the calls)',
    'io::fasta::IndexedReader::<R>::seek_to|overflow-mul|Div(arg3,arg2.line_bases),arg2.line_bytes':
        'start / line_bases * line_bytes <= file size of the indexed FASTA, which fits u64',
    'io::fasta::IndexedReader::<R>::seek_to|overflow-add|P[Div(arg3,arg2.line_bases)*arg2.line_bytes].0,arg2.offset':
        'file offsets of an existing file fit u64',
    'io::fasta::IndexedReader::<R>::seek_to|overflow-add|P[Div(arg3,arg2.line_bases)*arg2.line_bytes + arg2.offset].0,Rem(arg3,arg2.line_bases)':
        'file offsets of an existing file fit u64',
    "io::fasta::IndexedReaderIterator::<'a, R>::fill_buffer|explicit-panic|panic(lit)<>":
        'assert!(self.bases_left > 0): the only caller (next) calls it on the edge bases_left > 0 (checked by GD-4)',
    "io::fasta::IndexedReaderIterator::<'a, R>::fill_buffer|overflow-sub|arg1.bases_left,val(IndexedReader::read_line(arg1.reader,arg1.record,arg1.line_offset,cmp::min(Vec::capacity(arg1.buf),arg1.bases_left),arg1.buf))":
        'read_line returns at most bases_to_read <= bases_left',
}


# functions the rules below (and the audited table) name themselves; every other private helper is analysed in place
KEEP = {'seek_to', 'read_line', 'read_into_buffer', 'read_into_iter', 'fill_buffer', 'idx', 'idx_by_rid', 'fetch',
        'fetch_by_rid', 'fetch_all', 'fetch_all_by_rid', 'read', 'read_iter', 'next', 'new', 'with_index', 'from_file'}


def _keep(path):
    return path.rsplit('::', 1)[-1] in KEEP


def ibody(facts, path):
    b = facts.body(path)
    return inline.inlined(facts, b, _keep) if b is not None else None


def err_on(b, region_blocks):
    """an Err is produced in the region: built into the return place (or the return place of an inlined helper), or
    propagated by `?`"""
    for x in region_blocks:
        for s in b.stmts(x):
            if s['k'] == 'assign' and s['r']['k'] == 'agg' and s['r'].get('variant') == 'Err' and 'pj' not in s['p'] and \
                    (s['p']['l'] == 0 or b.locals[s['p']['l']].get('inl')):
                return True
        t = b.term(x)
        if t['k'] == 'call' and 'pj' not in t['dest'] and t['dest']['l'] == 0 and call_info(t) and \
                call_info(t)['fn'].endswith('FromResidual::from_residual'):
            return True
    return False


def gd4(facts, rep):
    rule = 'GD-4'
    rep.rule(rule, 'errors instead of wrong data: read/read_iter reach read_into_* only when fetched_idx, start and stop are '
                   'all Some (else Err); in read_into_buffer and read_into_iter seek_to is dominated by !(stop > idx.len) and '
                   '!(start > stop) whose other edges return Err; idx/idx_by_rid return Err for unknown names / numbers; '
                   'read_line returns Err(UnexpectedEof) when the underlying reader is exhausted, before consuming')
    n = 0
    # the two public read paths are analysed with their private workers (read_into_buffer / read_into_iter, or whatever
    # they are split into) in place, so the rule does not depend on where the validation is written
    KEEP2 = KEEP - {'read_into_buffer', 'read_into_iter'}
    keep2 = lambda pth: pth.rsplit('::', 1)[-1] in KEEP2
    sigs = {}
    for nm in ('read', 'read_iter'):
        b0 = facts.body(PRE + nm)
        key = 'IndexedReader::%s|needs-complete-fetch' % nm
        if b0 is None:
            rep.missing(rule, key, 'not found')
            continue
        b = inline.inlined(facts, b0, keep2)
        rep.analysed_body(b)
        seek = [bb for bb, t in b.calls() if call_info(t) and call_info(t)['fn'] == PRE + 'seek_to']
        if not seek:
            rep.bad(rule, key, '%s:%s' % (b.file, b.line), 'no seek_to on the read path')
            continue
        some_edges = set()
        err_edges = True
        for bb in b.reachable(0):
            t = b.term(bb)
            if t['k'] != 'switch':
                continue
            dl = t['d'].get('c') or t['d'].get('m')
            sd = b.single_def(dl['l']) if dl is not None and 'pj' not in dl else None
            if sd is None or sd[0] != 'stmt' or sd[3]['r']['k'] != 'disc':
                continue
            pl = sd[3]['r']['p']
            if not pl.get('ty', '').startswith('std::option::Option<'):
                continue
            for v, tgt in t['vals']:
                if v == 1 and all(b.edge_dominates((bb, tgt), s_) for s_ in seek):
                    fld = tuple(el.get('f') for el in pl.get('pj', []) if isinstance(el, dict) and 'f' in el)
                    some_edges.add((pl['l'], fld))
                    other = t['else']
                    oreg = eng_gd.region(b, other)
                    if not err_on(b, oreg) or any(s_ in oreg for s_ in seek):
                        err_edges = False
        n += 1
        if len(some_edges) >= 3 and err_edges:
            rep.ok(rule, key, b.loc(seek[0]), '%d Option tests dominate the seek; None edges return Err' % len(some_edges))
        else:
            rep.bad(rule, key, b.loc(seek[0]), 'the file is read although only %d of fetched_idx/start/stop were tested for Some '
                                               '(or a None edge does not return Err)' % len(some_edges))
        # ---- interval validation before the seek; roles from the arguments of seek_to(self, &idx, start)
        key = 'IndexedReader::%s|interval-validated-before-seek' % nm
        st = b.term(seek[0])
        IDX = fmt(strip(b.expr_operand(st['args'][1], inline_user=True)))
        START = fmt(strip(b.expr_operand(st['args'][2], inline_user=True)))
        cmps = []
        for g in eng_gd.guards(b):
            for c, tgt, other in ((g['cmp_true'], g['t'], g['f']), (g['cmp_false'], g['f'], g['t'])):
                if c is not None:
                    cmps.append((c, g, tgt, other))
        STOP = None
        for c, g, tgt, other in cmps:
            if c[0] == 'Lt' and c[1] == IDX + '.len':
                STOP = c[2]

        def canon(c):
            out = []
            for x in c[1:]:
                for k, v in ((IDX, 'idx'), (START, 'start'), (STOP, 'stop')):
                    if k:
                        x = x.replace(k, v) if k == IDX else re.sub(r'(?<![\w.])%s(?![\w.])' % re.escape(k), v, x)
                out.append(x)
            return (c[0],) + tuple(out)
        need = {('Lt', 'idx.len', 'stop'): None, ('Lt', 'stop', 'start'): None}
        allg = set()
        for c, g, tgt, other in cmps:
            cc = canon(c)
            allg.add(cc)
            if cc in need:
                need[cc] = (g, tgt, other)
        sigs[nm] = sorted(x for x in allg if x[0] in ('Lt', 'Le'))
        why = []
        for cc, hit in need.items():
            if hit is None:
                why.append('no test `%s < %s`' % (cc[1], cc[2]))
                continue
            g, bad_edge, good_edge = hit
            if any(not b.edge_dominates((g['bb'], good_edge), s_) for s_ in seek):
                why.append('seek_to is reachable although `%s < %s` may hold' % (cc[1], cc[2]))
            if not err_on(b, eng_gd.region(b, bad_edge) - eng_gd.region(b, good_edge)):
                why.append('`%s < %s` does not lead to Err' % (cc[1], cc[2]))
        n += 1
        if why:
            rep.bad(rule, key, '%s:%s' % (b.file, b.line), '; '.join(why))
        else:
            rep.ok(rule, key, b.loc(seek[0]), 'stop <= idx.len and start <= stop before seeking; violations return Err')
    rule2 = 'SB-2'
    rep.rule(rule2, 'sibling agreement: read_into_buffer and read_into_iter validate the interval with the same comparisons')
    if len(sigs) == 2:
        a, c = sigs['read'], sigs['read_iter']
        key = 'read-vs-read_iter|same-interval-checks'
        core = lambda s: sorted(x for x in s if 'idx.len' in x or 'start' in x[1:] and 'stop' in x[1:])
        if core(a) == core(c) and core(a):
            rep.ok(rule2, key, '', str(core(a)))
        else:
            rep.bad(rule2, key, '', 'buffer path checks %s, iterator path checks %s' % (core(a), core(c)))
    for nm in ('idx', 'idx_by_rid'):
        b = ibody(facts, PRE + nm)
        key = 'IndexedReader::%s|unknown-is-error' % nm
        if b is None:
            rep.missing(rule, key, 'not found')
            continue
        rep.analysed_body(b)
        ok = False
        for bb in b.reachable(0):
            t = b.term(bb)
            if t['k'] == 'switch':
                dl = t['d'].get('c') or t['d'].get('m')
                sd = b.single_def(dl['l']) if dl is not None and 'pj' not in dl else None
                if sd and sd[0] == 'stmt' and sd[3]['r']['k'] == 'disc':
                    src = fmt(strip(b.expr_place(sd[3]['r']['p'], inline_user=True)))
                    if '::get(' in src or 'get(' in src:
                        none_t = [tgt for v, tgt in t['vals'] if v == 0] or [t['else']]
                        some_t = [tgt for v, tgt in t['vals'] if v == 1] or [t['else']]
                        if err_on(b, eng_gd.region(b, none_t[0]) - eng_gd.region(b, some_t[0])):
                            ok = True
        # combinator form: map.get(k)[.cloned()].ok_or_else(|| Error)[.and_then(..)] returned
        for bb, t in b.calls():
            info = call_info(t)
            if info and info['fn'].rsplit('::', 1)[-1] == 'get' and 'pj' not in t['dest'] and \
                    b.locals[t['dest']['l']]['ty'].startswith('std::option::Option<') and \
                    eng_gd.none_becomes_err(b, t['dest']['l']):
                ok = True
        n += 1
        if ok:
            rep.ok(rule, key, '%s:%s' % (b.file, b.line), 'lookup miss -> Err')
        else:
            rep.bad(rule, key, '%s:%s' % (b.file, b.line), 'a missing name / record number does not produce Err')
    b = ibody(facts, PRE + 'read_line')
    key = 'IndexedReader::read_line|eof-is-error-before-consume'
    if b is None:
        rep.missing(rule, key, 'not found')
    else:
        rep.analysed_body(b)
        g = None
        for gg in eng_gd.guards(b):
            if 'is_empty' in gg['text']:
                g = gg
        cons = [bb for bb, t in b.calls() if call_info(t) and call_info(t)['fn'].endswith('BufRead::consume')]
        ext = [bb for bb, t in b.calls() if call_info(t) and call_info(t)['fn'].endswith('extend_from_slice')]
        if g is None:
            rep.bad(rule, key, '%s:%s' % (b.file, b.line), 'an exhausted reader (empty fill_buf) is not detected: a truncated file '
                                                           'loops forever or yields short data')
        else:
            neg = g['text'].startswith('Not')
            empty_t, go = (g['f'], g['t']) if neg else (g['t'], g['f'])
            if not err_on(b, eng_gd.region(b, empty_t) - eng_gd.region(b, go)):
                rep.bad(rule, key, b.loc(g['bb']), 'empty buffer does not return Err(UnexpectedEof)')
            elif any(not b.edge_dominates((g['bb'], go), x) for x in cons + ext) or not cons:
                rep.bad(rule, key, b.loc(g['bb']), 'data is copied / consumed before the end-of-file test')
            else:
                rep.ok(rule, key, b.loc(g['bb']), 'src.is_empty() -> Err; copy and consume only afterwards')
        n += 1
    nx = (facts.methods('io::fasta::IndexedReaderIterator', 'next', 'Iterator') or [None])[0]
    key = 'IndexedReaderIterator::next|fill_buffer-only-with-bases-left'
    if nx is None:
        rep.missing(rule, key, 'not found')
    else:
        nx = inline.inlined(facts, nx, _keep)
        rep.analysed_body(nx)
        fb = [bb for bb, t in nx.calls() if call_info(t) and call_info(t)['fn'].endswith('::fill_buffer')]
        es = eng_gd.edges_where(nx, lambda c: c == ('Lt', '0', 'self.bases_left'))
        if fb and es and all(nx.edge_dominates((es[0][0], es[0][1]), x) for x in fb):
            rep.ok(rule, key, nx.loc(fb[0]), 'behind bases_left > 0')
        else:
            rep.bad(rule, key, '%s:%s' % (nx.file, nx.line), 'fill_buffer may be called with no bases left (its assertion panics)')
        n += 1
    rep.floor(rule, 'guard sites', n, 8)


def ts6(facts, rep):
    rule = 'TS-6'
    rep.rule(rule, 'fetch independence: each fetch* stores all of start, stop and fetched_idx, only on the success edge of the '
                   'index lookup (`?` Continue), start/stop taken from the parameters in order (or 0 / idx.len for fetch_all*)')
    n = 0
    for nm in ('fetch', 'fetch_by_rid', 'fetch_all', 'fetch_all_by_rid'):
        b = facts.body(PRE + nm)
        key = 'IndexedReader::%s|sets-start-stop-idx-on-success' % nm
        if b is None:
            rep.missing(rule, key, 'not found')
            continue
        n += 1
        rep.analysed_body(b)
        stores = {}
        for bb in b.reachable(0):
            for s in b.stmts(bb):
                if s['k'] == 'assign':
                    sp = eng_gd.self_field_path(s['p'])
                    if sp and sp[0] in ('start', 'stop', 'fetched_idx') and len(sp) == 1:
                        stores.setdefault(sp[0], []).append((bb, s))
        # the `?` branch switch
        br = None
        for bb in b.reachable(0):
            t = b.term(bb)
            if t['k'] == 'switch':
                dl = t['d'].get('c') or t['d'].get('m')
                sd = b.single_def(dl['l']) if dl is not None and 'pj' not in dl else None
                if sd and sd[0] == 'stmt' and sd[3]['r']['k'] == 'disc' and 'ControlFlow' in sd[3]['r']['p'].get('ty', '') + \
                        b.locals[sd[3]['r']['p']['l']]['ty']:
                    br = (bb, t)
        why = []
        miss = {'start', 'stop', 'fetched_idx'} - set(stores)
        if miss:
            why.append('never sets self.%s: the previous fetch leaks into this one' % ', self.'.join(sorted(miss)))
        if br is None:
            why.append('no `?` on the index lookup')
        else:
            bb0, t = br
            cont = [tgt for v, tgt in t['vals'] if v == 0]
            brk = [tgt for v, tgt in t['vals'] if v == 1] or [t['else']]
            if cont:
                for f, lst in stores.items():
                    for (sbb, s) in lst:
                        if not b.edge_dominates((bb0, cont[0]), sbb):
                            why.append('self.%s is changed although the lookup may have failed' % f)
                    sblocks = {sbb for (sbb, _s) in lst}
                    reg = eng_gd.region(b, cont[0], stop=sblocks)
                    if any(b.term(x)['k'] == 'return' and x not in sblocks for x in reg):
                        why.append('a successful %s can return without setting self.%s: the value of an earlier fetch is '
                                   'kept' % (nm, f))
        # parameter order for fetch / fetch_by_rid
        if nm in ('fetch', 'fetch_by_rid') and not miss:
            def src_param(f):
                e = strip(b.expr_rvalue(stores[f][0][1]['r'], inline_user=True))
                ps = [x[1] for x in walk(e) if isinstance(x, tuple) and x[0] == 'local' and 2 <= x[1] <= b.arg_count]
                return ps[0] if ps else None
            ps, pe = src_param('start'), src_param('stop')
            if ps is None or pe is None or not (ps < pe):
                why.append('start/stop are not taken from the start/stop parameters in order (got params %s, %s)' % (ps, pe))
        if nm.startswith('fetch_all') and not miss:
            es = strip(b.expr_rvalue(stores['start'][0][1]['r'], inline_user=True))
            ee = fmt(strip(b.expr_rvalue(stores['stop'][0][1]['r'], inline_user=True)))
            if not ('Some{0}' in fmt(es) or fmt(es).endswith('{0}')):
                why.append('fetch_all start is %s, not 0' % fmt(es))
            if not ee.endswith('.len}'):
                why.append('fetch_all stop is %s, not idx.len' % ee)
        if why:
            rep.bad(rule, key, '%s:%s' % (b.file, b.line), '; '.join(sorted(set(why))))
        else:
            rep.ok(rule, key, '%s:%s' % (b.file, b.line), 'all three fields, on the Continue edge only')
    rep.floor(rule, 'fetch entry points', n, 4)


def po3(facts, rep):
    rule = 'PO-3'
    rep.rule(rule, 'panic obligations reachable from fetch*/read/read_iter/IndexedReaderIterator::next: discharged by '
                   'interval + difference-constraint analysis (e.g. stop - start behind start <= stop) or audited with a '
                   'proof sketch that refers to the guards verified by GD-4')
    roots = []
    for nm in ('fetch', 'fetch_by_rid', 'fetch_all', 'fetch_all_by_rid', 'read', 'read_iter'):
        roots += facts.methods(IR, nm)
    roots += facts.methods('io::fasta::IndexedReaderIterator', 'next', 'Iterator')
    rep.floor(rule, 'entry points', len(roots), 7)
    reach = facts.reachable_bodies(roots)
    total = 0
    from .po_known import KNOWN
    bodies = [facts.bodies[k] for k in sorted(reach) if facts.bodies[k].path.startswith(('io::fasta', '<io::fasta'))]
    present = set(facts.bodies)
    for b, nb, ia, obs in eng_po.scan(facts, bodies, KNOWN):
        rep.analysed_body(b)
        for o in obs:
            total += 1
            key = '%s|%s|%s' % (b.path, o['kind'], o['ops'])
            if o['discharged']:
                rep.ok(rule, key, o['where'], 'interval / difference analysis')
            elif key in AUDIT:
                rep.audited(rule, key, o['where'], AUDIT[key])
            elif eng_po.orphan_match(key, AUDIT, present):
                k0 = eng_po.orphan_match(key, AUDIT, present)
                rep.audited(rule, key, o['where'], 'arithmetic of the removed function %s, now written in its caller: %s' % (k0.split('|')[0], AUDIT[k0]))
            elif eng_po.implied(key, AUDIT, o):
                rep.audited(rule, key, o['where'], eng_po.implied(key, AUDIT, o)[1])
            else:
                rep.bad(rule, key, o['where'], 'undischarged %s obligation: %s' % (o['kind'], o['detail']))
    rep.floor(rule, 'obligations enumerated', total, 15)


def ed2(facts, rep):
    rule = 'ED-2'
    rep.rule(rule, 'short-read discipline: on the IndexedReader paths the underlying reader is only consumed through '
                   'fill_buf/consume or read_exact; a plain Read::read whose byte count is not used would silently accept '
                   'short reads and truncated files')
    roots = []
    for nm in ('read', 'read_iter'):
        roots += facts.methods(IR, nm)
    roots += facts.methods('io::fasta::IndexedReaderIterator', 'next', 'Iterator')
    reach = facts.reachable_bodies(roots)
    from .eng_ri import uses_of_locals
    n = 0
    for k in sorted(reach):
        b = facts.bodies[k]
        if not b.path.startswith(('io::fasta', '<io::fasta')):
            continue
        rep.analysed_body(b)
        for bb, t in b.calls():
            info = call_info(t)
            if not info:
                continue
            fn = info['fn']
            if fn.endswith(('io::Read::read', 'io::Read::read_to_end', 'io::Read::read_vectored')):
                n += 1
                key = '%s|read-count-used' % b.path
                # follow: dest -> Try::branch -> Continue payload -> uses
                uses = uses_of_locals(b)

                def value_used(l, depth=0):
                    """is the value held in local l consumed by anything other than copies into unused locals?"""
                    if depth > 8:
                        return True
                    for (kind, ubb, x) in uses.get(l, []):
                        if kind == 'term':
                            if b.term(ubb)['k'] == 'drop':
                                continue
                            return True
                        st = b.stmts(ubb)[x]
                        if st['k'] == 'assign' and 'pj' not in st['p'] and st['r']['k'] == 'use':
                            if value_used(st['p']['l'], depth + 1):
                                return True
                            continue
                        return True
                    return False
                used = False
                # dest -> Try::branch -> payload of the Continue variant
                cur = [t['dest']['l']]
                seen = set()
                while cur:
                    l = cur.pop()
                    if l in seen:
                        continue
                    seen.add(l)
                    for (kind, ubb, x) in uses.get(l, []):
                        if kind == 'term':
                            tt = b.term(ubb)
                            if tt['k'] == 'call' and call_info(tt) and call_info(tt)['fn'].endswith('Try::branch'):
                                cur.append(tt['dest']['l'])
                            elif tt['k'] in ('switch', 'drop'):
                                continue
                            elif tt['k'] == 'call' and call_info(tt) and call_info(tt)['fn'].rsplit('::', 1)[-1] in (
                                    'unwrap', 'expect', 'unwrap_or', 'unwrap_or_default', 'map', 'and_then'):
                                if 'pj' not in tt['dest'] and value_used(tt['dest']['l']):
                                    used = True
                            else:
                                used = True
                        else:
                            st = b.stmts(ubb)[x]
                            if st['k'] != 'assign' or st['r']['k'] == 'disc':
                                continue
                            src = st['r'].get('o', {}).get('c') or st['r'].get('o', {}).get('m') or st['r'].get('p')
                            dcs = [el.get('dc') for el in (src or {}).get('pj', []) if isinstance(el, dict) and 'dc' in el]
                            if 'Break' in dcs or 'Err' in dcs:
                                continue
                            if 'Continue' in dcs or 'Ok' in dcs:
                                if 'pj' not in st['p'] and value_used(st['p']['l']):
                                    used = True
                                continue
                            if 'pj' not in st['p']:
                                cur.append(st['p']['l'])
                if used:
                    rep.ok(rule, key, b.loc(bb), 'byte count inspected')
                else:
                    rep.bad(rule, key, b.loc(bb), '%s is called and the number of bytes actually read is ignored: a short read '
                                                  'or a truncated file yields Ok with missing data' % fn.rsplit('::', 2)[-2:][0])
    key = 'IndexedReader|reads-through-fill_buf'
    fb = 0
    for k in reach:
        b = facts.bodies[k]
        fb += sum(1 for _bb, t in b.calls() if call_info(t) and call_info(t)['fn'].endswith('BufRead::fill_buf'))
    if fb >= 1:
        rep.ok(rule, key, '', '%d fill_buf site(s); %d plain read site(s)' % (fb, n))
    else:
        rep.bad(rule, key, '', 'the buffered fill_buf/consume protocol is no longer used')


def run(facts, rep, ctx):
    ed2(facts, rep)
    gd4(facts, rep)
    ts6(facts, rep)
    po3(facts, rep)


_run_before_round4b = run


def run(facts, rep, ctx):
    """further rules added after the third seeding round (rules/round4.py)"""
    _run_before_round4b(facts, rep, ctx)
    from . import round4
    round4.or2(facts, rep)
    round4.ri7(facts, rep)



_run_before_round6 = run


def run(facts, rep, ctx):
    """rules added after the fifth seeding round (rules/round6.py)"""
    _run_before_round6(facts, rep, ctx)
    from . import round6
    round6.ef10(facts, rep)


_run_before_round7 = run


def run(facts, rep, ctx):
    """rules added in the sixth seeding round (rules/round7.py)"""
    _run_before_round7(facts, rep, ctx)
    from . import round7
    round7.gd12(facts, rep)
