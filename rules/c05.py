"""C05 FM-index backward search — LF-1: the shape of the LF-mapping step, the saved interval for partial matches and the
result classification of FMIndexable::backward_search, decided by def-use analysis over its MIR (roles of the mutable
variables are identified from the result aggregates, not from their names)."""
from . import eng_gd
from .mirlib import call_info, strip, strip_casts, fmt, walk
from .poly import poly, pstr

LEVEL = 'other'
FN = 'data_structures::fmindex::FMIndexable::backward_search'


def src_local(b, o):
    """local an operand is a (chain of) plain copy of"""
    pl = _through_tuple(b, o.get('c') or o.get('m'))
    seen = set()
    while pl is not None and 'pj' not in pl and pl['l'] not in seen:
        l = pl['l']
        seen.add(l)
        if b.is_user(l):
            return l
        sd = b.single_def(l)
        if sd is None or sd[0] != 'stmt' or sd[3]['r']['k'] != 'use':
            return l
        pl = sd[3]['r']['o'].get('c') or sd[3]['r']['o'].get('m')
        pl = _through_tuple(b, pl)
    return None


def _through_tuple(b, pl):
    """`(a, b).k` of a tuple built once is the k-th operand"""
    if pl is not None and len(pl.get('pj', [])) == 1 and isinstance(pl['pj'][0], dict) and 'f' in pl['pj'][0]:
        sd = b.single_def(pl['l'])
        if sd is not None and sd[0] == 'stmt' and sd[3]['r']['k'] == 'agg' and sd[3]['r'].get('ak') == 'tuple' and \
                pl['pj'][0]['f'] < len(sd[3]['r']['ops']):
            o = sd[3]['r']['ops'][pl['pj'][0]['f']]
            return o.get('c') or o.get('m')
    return pl


def plus_one_of(b, o):
    """user local x if operand is x + 1, else None"""
    pl = o.get('c') or o.get('m')
    if pl is None or 'pj' in pl:
        return None
    sd = b.single_def(pl['l'])
    if sd is None or sd[0] != 'stmt':
        return None
    r = sd[3]['r']
    if r['k'] == 'use':
        q = r['o'].get('c') or r['o'].get('m')
        if q is not None and q.get('pj') and q['pj'][-1].get('f') == 0:
            sd2 = b.single_def(q['l'])
            if sd2 and sd2[0] == 'stmt':
                r = sd2[3]['r']
    if r['k'] == 'bin' and r['op'].startswith('Add') and r['b'].get('k', {}).get('v') == 1:
        return src_local(b, r['a'])
    return None


def stores_in(b, blocks, l):
    out = []
    for bb in blocks:
        for i, s in enumerate(b.stmts(bb)):
            if s['k'] == 'assign' and 'pj' not in s['p'] and s['p']['l'] == l:
                out.append((bb, i, s))
    return out


def run(facts, rep, ctx):
    rule = 'LF-1'
    rep.rule(rule, 'backward search shape: inside the pattern loop the current interval (l, r) is saved into (pl, pr) before '
                   'it is updated; l := less(a) + (occ(l - 1, a) if l > 0 else 0) and r := less(a) + occ(r, a) - 1; an empty '
                   'interval (l > r) clears the complete flag and leaves the loop without counting the symbol, otherwise the '
                   'matched length grows by one; the result is Complete{l, r + 1} iff matched > 0 and complete, '
                   'Partial({pl, pr + 1}, matched) iff matched > 0 and not complete, Absent otherwise')
    b = facts.body(FN)
    if b is None:
        rep.missing(rule, FN, 'not found')
        return
    rep.analysed_body(b)
    # ---- roles from the result aggregates
    aggs = {}
    all_aggs = {}
    for bb in b.reachable(0):
        for i, s in enumerate(b.stmts(bb)):
            if s['k'] == 'assign' and s['r']['k'] == 'agg' and s['r'].get('adt', '').endswith('BackwardSearchResult'):
                aggs[s['r']['variant']] = (bb, s)
                all_aggs.setdefault(s['r']['variant'], []).append(bb)
    key = 'backward_search|result-variants'
    if set(aggs) != {'Complete', 'Partial', 'Absent'} or len(all_aggs.get('Complete', [])) != 1 or len(all_aggs.get('Partial', [])) != 1:
        rep.bad(rule, key, '%s:%s' % (b.file, b.line), 'expected Complete, Partial and Absent results, found %s' % sorted(aggs))
        return
    rep.ok(rule, key, '%s:%s' % (b.file, b.line), 'three result variants')

    def interval_of(op):
        pl = op.get('m') or op.get('c')
        sd = b.single_def(pl['l']) if pl is not None and 'pj' not in pl else None
        if sd and sd[0] == 'stmt' and sd[3]['r']['k'] == 'agg' and sd[3]['r'].get('adt', '').endswith('fmindex::Interval'):
            f = dict(zip(sd[3]['r']['fields'], sd[3]['r']['ops']))
            return src_local(b, f['lower']), plus_one_of(b, f['upper'])
        return None, None
    l, r = interval_of(aggs['Complete'][1]['r']['ops'][0])
    pl_, pr_ = interval_of(aggs['Partial'][1]['r']['ops'][0])
    mlen = src_local(b, aggs['Partial'][1]['r']['ops'][1]) if len(aggs['Partial'][1]['r']['ops']) > 1 else None
    key = 'backward_search|interval-roles'
    if None in (l, r, pl_, pr_, mlen) or len({l, r, pl_, pr_, mlen}) != 5:
        rep.bad(rule, key, aggs['Complete'][0] and b.loc(aggs['Complete'][0]),
                'Complete must be Interval{lower: l, upper: r + 1} and Partial Interval{lower: pl, upper: pr + 1} with the '
                'matched length, over five distinct variables (found l=%s r=%s pl=%s pr=%s len=%s)' % (l, r, pl_, pr_, mlen))
        return
    rep.ok(rule, key, b.loc(aggs['Complete'][0]), 'Complete{l, r+1}, Partial({pl, pr+1}, matched)')
    # ---- the pattern loop
    loops = b.natural_loops()
    if len(loops) != 1:
        rep.bad(rule, 'backward_search|single-loop', '%s:%s' % (b.file, b.line), 'expected one loop over the pattern, found %d' % len(loops))
        return
    (h, body), = loops.items()
    # the loop must consume the whole pattern from its last symbol: iterator = pattern.rev(), no take/skip/step_by/filter
    key = 'backward_search|loop-consumes-whole-pattern'
    nxt = [(bb, t) for bb, t in b.calls() if bb in body and call_info(t) and call_info(t)['fn'].endswith('Iterator::next')]
    good = False
    if len(nxt) == 1:
        e = strip(b.expr_operand(nxt[0][1]['args'][0], inline_user='force'))
        if e[0] == 'call' and e[1].endswith('into_iter') and len(e[2]) == 1:
            r0 = strip(e[2][0])
            if r0[0] == 'call' and (r0[3] or r0[1]).endswith('Iterator::rev') and len(r0[2]) == 1 and \
                    strip(r0[2][0])[0] == 'local' and strip(r0[2][0])[1] == 2:
                good = True
        why = fmt(e)
    else:
        why = '%d iterator steps in the loop' % len(nxt)
    if good:
        rep.ok(rule, key, b.loc(nxt[0][0]), 'for &a in pattern.rev()')
    else:
        rep.bad(rule, key, '%s:%s' % (b.file, b.line), 'the search loop iterates `%s`, not the complete reversed pattern: if it stops early '
                                                       'the complete flag is still set and a pattern that does not occur is reported '
                                                       'as Complete' % why[:120])
    sl, sr_ = stores_in(b, body, l), stores_in(b, body, r)
    spl, spr = stores_in(b, body, pl_), stores_in(b, body, pr_)
    key = 'backward_search|previous-interval-saved-before-update'
    ok = len(sl) == 1 and len(sr_) == 1 and len(spl) == 1 and len(spr) == 1
    if ok:
        ok = spl[0][2]['r']['k'] == 'use' and src_local(b, spl[0][2]['r']['o']) in (l,) and \
            spr[0][2]['r']['k'] == 'use' and src_local(b, spr[0][2]['r']['o']) in (r,)
        before = all((x[0] == y[0] and x[1] < y[1]) or (x[0] != y[0] and b.dominates(x[0], y[0]))
                     for x in (spl[0], spr[0]) for y in (sl[0], sr_[0]))
        ok = ok and before
    if ok:
        rep.ok(rule, key, b.loc(spl[0][0], spl[0][1]), 'pl = l; pr = r precede the LF step')
    else:
        rep.bad(rule, key, '%s:%s' % (b.file, b.line), 'the interval of the longest matching suffix is not saved (as pl = l, pr = r) '
                                                       'before l and r are overwritten: Partial results describe the wrong suffix')
    # ---- LF step for r:  less(a) + occ(r, a) - 1
    def atom(e):
        e = strip(e)
        if e[0] == 'call':
            nm = (e[3] or e[1]).rsplit('::', 1)[-1]
            if nm == 'less':
                return 'less(a)'
            if nm == 'occ' and len(e[2]) == 3:
                return 'occ(%s)' % pstr(poly(e[2][1], atom))
        if e[0] == 'local':
            if e[1] in (l, r, pl_, pr_, mlen):
                return {l: 'l', r: 'r', pl_: 'pl', pr_: 'pr', mlen: 'n'}[e[1]]
            sd = b.single_def(e[1])
            if sd is not None and sd[0] == 'call' and call_info(sd[2]) and \
                    call_info(sd[2])['fn'].rsplit('::', 1)[-1] == 'less':
                return 'less(a)'
            return e[2]
        return None
    key = 'backward_search|lf-step-upper'
    if len(sr_) == 1:
        pr = poly(b.expr_rvalue(sr_[0][2]['r'], inline_user=False), atom)
        want = {('less(a)',): 1, ('occ(r)',): 1, (): -1}
        if pr == want:
            rep.ok(rule, key, b.loc(sr_[0][0], sr_[0][1]), 'r := ' + pstr(pr))
        else:
            rep.bad(rule, key, b.loc(sr_[0][0], sr_[0][1]), 'r := %s, expected less(a) + occ(r) - 1' % pstr(pr))
    # ---- LF step for l: less(a) + phi, phi = occ(l - 1) on l > 0, 0 otherwise
    key = 'backward_search|lf-step-lower'
    if len(sl) == 1:
        e = strip_casts(b.expr_rvalue(sl[0][2]['r'], inline_user=False))
        if e[0] == 'field' and e[2] == '0':
            e = e[1]
        good = False
        why = 'l := %s' % fmt(e)
        if e[0] == 'bin' and e[1].startswith('Add'):
            a, c = strip_casts(e[2]), strip_casts(e[3])
            parts = [a, c]
            lessp = [x for x in parts if atom(x) == 'less(a)']
            phi = [x for x in parts if x[0] == 'local' and not b.is_user(x[1])]
            if len(lessp) == 1 and len(phi) == 1:
                d, _ = b.defs()
                defs = d.get(phi[0][1], [])
                zero = [df for df in defs if df[0] == 'stmt' and df[3]['r']['k'] == 'use' and
                        df[3]['r']['o'].get('k', {}).get('v') == 0]
                occ = [df for df in defs if df[0] == 'call' and call_info(df[2]) and
                       call_info(df[2])['fn'].rsplit('::', 1)[-1] == 'occ']
                if len(defs) == 2 and len(zero) == 1 and len(occ) == 1:
                    arg = poly(b.expr_operand(occ[0][2]['args'][1], inline_user=False), atom)
                    es = eng_gd.edges_where(b, lambda cmp_: cmp_ == ('Lt', '0', b.local_name(l) or ''))
                    gpos = [x for x in es if x[0] in body]
                    if arg == {('l',): 1, (): -1} and len(gpos) == 1 and \
                            b.edge_dominates((gpos[0][0], gpos[0][1]), occ[0][1]) and \
                            b.edge_dominates((gpos[0][0], gpos[0][3]), zero[0][1]):
                        good = True
                    else:
                        why = 'occ is taken at %s under guards %s (expected occ(l - 1) on the edge l > 0, 0 otherwise)' % (
                            pstr(arg), [x[2] for x in es])
        if good:
            rep.ok(rule, key, b.loc(sl[0][0], sl[0][1]), 'l := less(a) + (l > 0 ? occ(l - 1) : 0)')
        else:
            rep.bad(rule, key, b.loc(sl[0][0], sl[0][1]), why)
    # ---- emptiness test and counting
    key = 'backward_search|empty-interval-ends-search'
    ln, rn = b.local_name(l) or '', b.local_name(r) or ''
    es = [x for x in eng_gd.edges_where(b, lambda c: c == ('Lt', rn, ln)) if x[0] in body]
    incs = [x for x in stores_in(b, body, mlen)]
    if len(es) != 1 or len(incs) != 1:
        rep.bad(rule, key, '%s:%s' % (b.file, b.line), 'expected one test `l > r` in the loop and one increment of the matched '
                                                       'length (found %d, %d)' % (len(es), len(incs)))
    else:
        gbb, empty_t, _c, nonempty_t = es[0]
        leaves = empty_t not in body or not (eng_gd.region(b, empty_t, stop={h}) & {h})
        inc_ok = b.edge_dominates((gbb, nonempty_t), incs[0][0])
        pinc = poly(b.expr_rvalue(incs[0][2]['r'], inline_user=False), atom)
        # the complete flag is cleared on the empty edge
        flag = None
        for x in eng_gd.region(b, empty_t, stop={h}):
            for s in b.stmts(x):
                if s['k'] == 'assign' and 'pj' not in s['p'] and b.locals[s['p']['l']]['ty'] == 'bool' and \
                        s['r']['k'] == 'use' and s['r']['o'].get('k', {}).get('v') == 0 and b.is_user(s['p']['l']):
                    flag = s['p']['l']
        after = [x for x in (sl + sr_) if not b.dominates(x[0], gbb)]
        # without a flag the give-up edge must not be able to reach the Complete result at all (it returns on its own)
        cb0 = aggs['Complete'][0]
        direct = flag is None and cb0 not in eng_gd.region(b, empty_t)
        if leaves and inc_ok and pinc == {('n',): 1, (): 1} and (flag is not None or direct) and not after:
            rep.ok(rule, key, b.loc(gbb), 'l > r: %s, loop left, symbol not counted; else matched += 1' % (
                'flag cleared' if flag is not None else 'returns Partial/Absent directly'))
            # ---- classification
            key2 = 'backward_search|classification'
            mn = b.local_name(mlen) or ''
            POS = {('Lt', '0', mn), ('Le', '1', mn), ('Ne', '0', mn), ('Ne', mn, '0')}
            ZERO = {('Eq', '0', mn), ('Eq', mn, '0'), ('Lt', mn, '1'), ('Le', mn, '0')}

            def facts_at(target):
                """what the guards after the loop establish on every path to `target`"""
                out = set()
                for g in eng_gd.guards(b):
                    if g['bb'] in body:
                        continue
                    for c, tgt in ((g['cmp_true'], g['t']), (g['cmp_false'], g['f'])):
                        if c is not None and b.edge_dominates((g['bb'], tgt), target):
                            if c in POS:
                                out.add('matched>0')
                            elif c in ZERO:
                                out.add('matched=0')
                    e0 = strip(g['expr'])
                    neg = False
                    while isinstance(e0, tuple) and e0[0] == 'un' and e0[1] == 'Not':
                        neg = not neg
                        e0 = strip(e0[2])
                    if flag is not None and e0 == ('local', flag, b.local_name(flag)):
                        te, fe = (g['f'], g['t']) if neg else (g['t'], g['f'])
                        if b.edge_dominates((g['bb'], te), target):
                            out.add('complete')
                        if b.edge_dominates((g['bb'], fe), target):
                            out.add('incomplete')
                if flag is None:
                    # flag-less form: completeness is positional - behind the give-up edge or unreachable from it
                    if b.edge_dominates((gbb, empty_t), target):
                        out.add('incomplete')
                    elif target not in eng_gd.region(b, empty_t):
                        out.add('complete')
                return out
            cb, ps_ = aggs['Complete'][0], aggs['Partial'][0]
            fc, fp = facts_at(cb), facts_at(ps_)
            fas = [facts_at(x) for x in all_aggs['Absent']]
            okc = {'matched>0', 'complete'} <= fc and {'matched>0', 'incomplete'} <= fp and \
                all('matched=0' in fa and 'matched>0' not in fa for fa in fas) and \
                not ({'matched=0', 'incomplete'} & fc) and not ({'matched=0', 'complete'} & fp)
            gm = [(cb,)]
            if okc:
                rep.ok(rule, key2, b.loc(gm[0][0]), 'matched > 0 & complete -> Complete; matched > 0 & !complete -> Partial; else Absent')
            else:
                rep.bad(rule, key2, '%s:%s' % (b.file, b.line), 'the result variant is not selected by (matched > 0, complete flag) as '
                                                               'documented')
        else:
            rep.bad(rule, key, b.loc(gbb), 'an empty interval does not end the search cleanly (leaves loop: %s, symbol counted only '
                                           'when non-empty: %s, increment %s, flag cleared: %s, l/r updated after the test: %s)' % (
                        leaves, inc_ok, pstr(pinc), flag is not None, bool(after)))
    # ---- positions may be resolved through a sampled suffix array: its writer/reader agreement is rule SB-7 of C03
    from .c03 import sb7
    rep.rule('SB-7', 'sampled suffix array writer/reader agreement (see C03): rows, rate, extra sentinel rows, sentinel taken from the text')
    sb7(facts, rep)
    # ---- Interval::occ maps exactly lower..upper through the suffix array
    io = facts.one(r'^data_structures::fmindex::Interval::occ$')
    key = 'Interval::occ|maps-lower-to-upper'
    if io is None:
        rep.missing(rule, key, 'not found')
    else:
        rep.analysed_body(io)
        good = False
        for bb in io.reachable(0):
            for s in io.stmts(bb):
                if s['k'] == 'assign' and s['r']['k'] == 'agg' and s['r'].get('adt', '').endswith('ops::Range') and len(s['r']['ops']) == 2:
                    a = fmt(strip_casts(io.expr_operand(s['r']['ops'][0], inline_user=True)))
                    c = fmt(strip_casts(io.expr_operand(s['r']['ops'][1], inline_user=True)))
                    good = (a, c) == ('self.lower', 'self.upper')
        if good:
            rep.ok(rule, key, '%s:%s' % (io.file, io.line), '(self.lower..self.upper).map(sa.get)')
        else:
            rep.bad(rule, key, '%s:%s' % (io.file, io.line), 'Interval::occ does not enumerate exactly lower..upper')


_run_before_round2 = run


def run(facts, rep, ctx):
    """rules added after the second round of independent seeding (rules/round2.py)"""
    _run_before_round2(facts, rep, ctx)
    from . import round2
    round2.lf2(facts, rep)
    # the interval arithmetic rests on the sampled Occ table: its writer/reader agreement (rule SB-10 of C04) is part of this check
    from . import c04
    c04.run(facts, rep, ctx)



_run_before_round5 = run


def run(facts, rep, ctx):
    """rules added after the fourth seeding round (rules/round5.py)"""
    _run_before_round5(facts, rep, ctx)
    from . import round5
    round5.ls1(facts, rep)


_run_before_round6 = run


def run(facts, rep, ctx):
    """rules added after the fifth seeding round (rules/round6.py)"""
    _run_before_round6(facts, rep, ctx)
    from . import round6
    round6.cf2(facts, rep, ['data_structures::fmindex::', 'data_structures::bwt::'], 70)
