"""fact extraction: runs the biofacts driver over a crate with cargo +nightly check and caches the fact file under a
key that is the content hash of the analysed tree (recomputed on every run) and of the driver binary."""
import fcntl
import glob
import hashlib
import json
import os
import shutil
import subprocess
import sys
import time

VERIF = os.path.dirname(os.path.dirname(os.path.abspath(__file__)))
CACHE = os.path.join(VERIF, '.cache')
DRIVER_DIR = os.path.join(VERIF, 'driver')
DRIVER = os.path.join(DRIVER_DIR, 'target', 'debug', 'biofacts')
SKIP_DIRS = {'target', '.git', 'benches', 'fuzz', 'img'}


def _sysroot():
    return subprocess.check_output(['rustc', '+nightly', '--print', 'sysroot'], text=True).strip()


def tree_hash(root):
    h = hashlib.sha256()
    for dp, dns, fns in os.walk(root):
        dns[:] = sorted(d for d in dns if not (dp == root and d in SKIP_DIRS))
        for fn in sorted(fns):
            p = os.path.join(dp, fn)
            if os.path.islink(p) or not os.path.isfile(p):
                continue
            h.update(os.path.relpath(p, root).encode())
            h.update(b'\0')
            with open(p, 'rb') as f:
                h.update(f.read())
            h.update(b'\0')
    return h.hexdigest()


def file_hash(p):
    h = hashlib.sha256()
    with open(p, 'rb') as f:
        h.update(f.read())
    return h.hexdigest()


def build_driver(force=False):
    srcs = sorted(glob.glob(os.path.join(DRIVER_DIR, 'src', '*.rs')))
    if not force and os.path.exists(DRIVER):
        m = os.path.getmtime(DRIVER)
        if all(os.path.getmtime(s) <= m for s in srcs):
            return
    env = dict(os.environ, CARGO_NET_OFFLINE='true')
    r = subprocess.run(['cargo', 'build', '--offline'], cwd=DRIVER_DIR, env=env, stdout=subprocess.PIPE,
                       stderr=subprocess.STDOUT, text=True)
    if r.returncode != 0:
        sys.stderr.write(r.stdout)
        raise SystemExit('BROKEN: driver build failed')


class ExtractError(Exception):
    pass


def ensure_facts(root='/repo', crate='bio', flavor='dev', log=None):
    """returns (fact_path, info dict). flavor 'dev' = debug assertions + overflow checks on (default dev profile);
    'nochk' = -C debug-assertions=off -C overflow-checks=off."""
    os.makedirs(os.path.join(CACHE, 'facts'), exist_ok=True)
    lockf = open(os.path.join(CACHE, 'lock'), 'w')
    fcntl.flock(lockf, fcntl.LOCK_EX)
    try:
        build_driver()
        th = tree_hash(root)
        dh = file_hash(DRIVER)
        key = hashlib.sha256(('%s|%s|%s|%s' % (th, dh, crate, flavor)).encode()).hexdigest()[:24]
        out = os.path.join(CACHE, 'facts', '%s-%s.json' % (crate, key))
        info = {'tree_hash': th, 'driver_hash': dh[:16], 'key': key, 'cached': True, 'flavor': flavor}
        if os.path.exists(out):
            return out, info
        info['cached'] = False
        t0 = time.time()
        target = os.path.join(CACHE, 'target-%s' % flavor)
        os.makedirs(target, exist_ok=True)
        # force the wrapper to run for the analysed crate
        for fp in glob.glob(os.path.join(target, 'debug', '.fingerprint', '%s-*' % crate)):
            shutil.rmtree(fp, ignore_errors=True)
        env = dict(os.environ)
        env['LD_LIBRARY_PATH'] = os.path.join(_sysroot(), 'lib') + ':' + env.get('LD_LIBRARY_PATH', '')
        flags = '-Zmir-opt-level=0 -Awarnings'
        if flavor == 'nochk':
            flags += ' -C debug-assertions=off -C overflow-checks=off'
        env['RUSTFLAGS'] = flags
        env['RUSTC_WORKSPACE_WRAPPER'] = DRIVER
        env['CARGO_TARGET_DIR'] = target
        env['CARGO_NET_OFFLINE'] = 'true'
        env['BIOFACTS_OUT'] = out + '.part'
        env['BIOFACTS_CRATE'] = crate
        env['BIOFACTS_NONCE'] = key
        env.pop('RUSTC_WRAPPER', None)
        if os.path.exists(out + '.part'):
            os.remove(out + '.part')
        r = subprocess.run(['cargo', '+nightly', 'check', '--offline', '--lib'], cwd=root, env=env,
                           stdout=subprocess.PIPE, stderr=subprocess.STDOUT, text=True)
        if r.returncode != 0:
            raise ExtractError('cargo check of %s failed:\n%s' % (root, r.stdout[-4000:]))
        if not os.path.exists(out + '.part'):
            raise ExtractError('driver did not write facts (wrapper skipped?)\n' + r.stdout[-2000:])
        with open(out + '.part') as f:
            head = f.read(4096)
        if ('"nonce":"%s"' % key) not in head:
            raise ExtractError('fact file nonce mismatch')
        os.rename(out + '.part', out)
        info['extract_s'] = round(time.time() - t0, 2)
        # keep the cache small: drop fact files older than the 12 newest
        files = sorted(glob.glob(os.path.join(CACHE, 'facts', '*.json')), key=os.path.getmtime)
        for old in files[:-12]:
            try:
                os.remove(old)
            except OSError:
                pass
        return out, info
    finally:
        fcntl.flock(lockf, fcntl.LOCK_UN)
        lockf.close()
