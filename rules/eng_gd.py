"""GD: guard-dominance helpers.  A guard is a SwitchInt on a boolean (or discriminant) whose condition expression is
matched semantically after normalisation (operand orientation, negation, branch polarity)."""
from .mirlib import norm_cmp, edge_truth, strip, strip_casts, fmt, call_info, walk


def bool_switches(body):
    """yield (bb, cond_expr, true_target, false_target) for every two-way switch on a bool-like value"""
    for bb in sorted(body.reachable(0)):
        t = body.term(bb)
        if t['k'] != 'switch' or len(t['vals']) != 1:
            continue
        v, tgt = t['vals'][0]
        e = body.expr_operand(t['d'], inline_user=True)
        if v == 0:
            yield bb, e, t['else'], tgt
        elif v == 1 and t.get('dty') == 'bool':
            yield bb, e, tgt, t['else']


def guards(body):
    """list of dict(bb, cmp_true, cmp_false, t, f, expr): normalised comparison holding on the true / false edge"""
    out = []
    for bb, e, tt, ff in bool_switches(body):
        ct = norm_cmp(e, True)
        cf = norm_cmp(e, False)
        if ct is None and cf is None and body.term(bb).get('dty') not in ('bool', None) and body.term(bb)['vals'][0][0] == 0:
            # `match n { 0 => .., _ => .. }` on an integer: n == 0 on the listed edge, n != 0 on the other
            txt = fmt(strip_casts(e))
            ct, cf = ('Ne', txt, '0'), ('Eq', txt, '0')
        out.append({'bb': bb, 'expr': e, 'cmp_true': ct, 'cmp_false': cf, 't': tt, 'f': ff,
                    'text': fmt(strip(e))})
    return out


def edges_where(body, cmp_pred):
    """edges (bb, target, cmp) on which a normalised comparison satisfying cmp_pred holds"""
    out = []
    for g in guards(body):
        if g['cmp_true'] is not None and cmp_pred(g['cmp_true']):
            out.append((g['bb'], g['t'], g['cmp_true'], g['f']))
        if g['cmp_false'] is not None and cmp_pred(g['cmp_false']):
            out.append((g['bb'], g['f'], g['cmp_false'], g['t']))
    return out


def region(body, start, stop=()):
    """blocks reachable from start through normal edges, not expanding blocks in `stop`"""
    seen = {start}
    st = [start]
    while st:
        b = st.pop()
        if b in stop:
            continue
        for s in body.succ[b]:
            if s not in seen:
                seen.add(s)
                st.append(s)
    return seen


def reaches_panic_only(body, start):
    """True if every path from start ends in a diverging call/unreachable (no normal return reachable)"""
    r = region(body, start)
    return not any(body.term(b)['k'] == 'return' for b in r)


def place_mentions(body, bb):
    """all places mentioned in block bb (statements and terminator): list of place dicts"""
    out = []

    def op(o):
        pl = o.get('c') or o.get('m')
        if pl is not None:
            out.append(pl)

    for s in body.stmts(bb):
        if s['k'] == 'assign':
            out.append(s['p'])
            r = s['r']
            k = r['k']
            if k in ('use', 'cast', 'repeat'):
                op(r['o'])
            elif k in ('ref', 'rawptr', 'disc', 'copyderef'):
                out.append(r['p'])
            elif k == 'bin':
                op(r['a']); op(r['b'])
            elif k == 'un':
                op(r['a'])
            elif k == 'agg':
                for o in r['ops']:
                    op(o)
        elif s['k'] == 'setdisc':
            out.append(s['p'])
    t = body.term(bb)
    if t['k'] == 'call':
        for a in t['args']:
            op(a)
        out.append(t['dest'])
    elif t['k'] == 'switch':
        op(t['d'])
    elif t['k'] == 'drop':
        out.append(t['p'])
    return out


def self_field_path(place, root=1):
    if place['l'] != root:
        return None
    pj = place.get('pj', [])
    if not pj or pj[0] != '*':
        return None
    return tuple(el['n'] for el in pj[1:] if isinstance(el, dict) and 'f' in el)


def blocks_touching_self_fields(body, names, root=1):
    """blocks mentioning (*self).<name>... for name in names, or passing `&mut *self` / self itself to a call"""
    out = {}
    for bb in body.reachable(0):
        for pl in place_mentions(body, bb):
            sp = self_field_path(pl, root)
            if sp is None:
                if pl['l'] == root and pl.get('pj') == ['*']:
                    out.setdefault(bb, set()).add('*self')
                continue
            if sp and sp[0] in names:
                out.setdefault(bb, set()).add(sp[0])
    return out


OPTION_KEEP = ('cloned', 'copied', 'as_ref', 'as_mut', 'as_deref', 'map', 'inspect', 'filter')
OPTION_TO_RESULT = ('ok_or', 'ok_or_else')
RESULT_KEEP = ('and_then', 'map', 'map_err', 'or_else', 'inspect_err')


def none_becomes_err(body, opt_local):
    """combinator form of "a lookup miss is an error": the Option held in `opt_local` flows (through cloned / copied /
    map ...) into ok_or / ok_or_else, and the resulting Result is what the function returns (directly, through
    and_then / map / map_err, or through `?`). Returns True when that chain is found."""
    from .eng_ri import uses_of_locals
    uses = uses_of_locals(body)
    seen = set()
    work = [(opt_local, 'option')]
    while work:
        l, kind = work.pop()
        if (l, kind) in seen:
            continue
        seen.add((l, kind))
        if kind == 'result' and l == 0:
            return True
        for site in uses.get(l, []):
            if site[0] == 'stmt':
                st = body.stmts(site[1])[site[2]]
                if st['k'] == 'assign' and 'pj' not in st['p'] and st['r']['k'] == 'use':
                    src = st['r']['o'].get('m') or st['r']['o'].get('c')
                    if src is not None and 'pj' not in src and src['l'] == l:
                        work.append((st['p']['l'], kind))
            else:
                t = body.term(site[1])
                if t['k'] != 'call' or not t['args']:
                    continue
                a0 = t['args'][0].get('m') or t['args'][0].get('c')
                if a0 is None or 'pj' in a0 or a0['l'] != l or 'pj' in t['dest']:
                    continue
                info = call_info(t)
                if not info:
                    continue
                nm = info['fn'].rsplit('::', 1)[-1]
                recv = info['fn']
                if kind == 'option' and 'Option' in recv and nm in OPTION_KEEP:
                    work.append((t['dest']['l'], 'option'))
                elif kind == 'option' and 'Option' in recv and nm in OPTION_TO_RESULT:
                    work.append((t['dest']['l'], 'result'))
                elif kind == 'result' and 'Result' in recv and nm in RESULT_KEEP:
                    work.append((t['dest']['l'], 'result'))
                elif kind == 'result' and info['fn'].endswith('Try::branch'):
                    return True
    return False


def counted_while(body, h, loop_blocks, backs):
    """`let mut c = a; while c < n { ..; c += k; }` with k a positive constant, n loop-invariant and c not otherwise
    assigned in the loop: the hand-written form of a counted Range loop. Returns the description or None."""
    d, _partial = body.defs()
    for g in guards(body):
        if g['bb'] not in loop_blocks:
            continue
        e = strip_casts(g['expr'])
        neg = False
        while isinstance(e, tuple) and e[0] == 'un' and e[1] == 'Not':
            neg = not neg
            e = strip_casts(e[2])
        if not (isinstance(e, tuple) and e[0] == 'bin' and e[1] in ('Lt', 'Le', 'Gt', 'Ge', 'Ne')):
            continue
        a, c = strip_casts(e[2]), strip_casts(e[3])
        if e[1] in ('Gt', 'Ge'):
            a, c = c, a
        stay, leave = (g['f'], g['t']) if neg else (g['t'], g['f'])
        if stay not in loop_blocks or leave in loop_blocks:
            continue
        if a[0] != 'local':
            continue
        cnt = a[1]
        # bound: no local of it is assigned inside the loop
        inv = True
        for x in walk(c):
            if isinstance(x, tuple) and x[0] == 'local' and x[1] != 0:
                for df in d.get(x[1], []):
                    dbb = df[1] if df[0] in ('stmt', 'call') else None
                    if dbb is not None and dbb in loop_blocks:
                        inv = False
        if not inv:
            continue
        incs, other = [], False
        for df in d.get(cnt, []):
            if df[0] == 'arg' or df[1] not in loop_blocks:
                continue
            if df[0] != 'stmt':
                other = True
                continue
            r = strip_casts(body.expr_rvalue(df[3]['r'], inline_user=False))
            if r[0] == 'field' and r[2] == '0':
                r = r[1]
            if r[0] == 'bin' and r[1].startswith('Add') and strip_casts(r[2]) == ('local', cnt, body.local_name(cnt) or '_%d' % cnt) and \
                    strip_casts(r[3])[0] == 'const' and isinstance(strip_casts(r[3])[1], int) and strip_casts(r[3])[1] > 0:
                incs.append(df[1])
            else:
                other = True
        if other or not incs:
            continue
        srcs = [s_ for s_, hh in backs if hh == h]
        if all(any(body.dominates(i, s_) for i in incs) for s_ in srcs):
            return 'counter %s advances by a positive constant on every iteration towards the loop-invariant bound %s' % (
                fmt(a), fmt(c))
    return None
