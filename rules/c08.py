"""C08 exact matchers — EF-1/SG-2 (a search cannot change a matcher: history independence, proved) and PO-1 (all
panic / word-width obligations of the five matchers discharged from the constructor guards or audited)."""
import re
from . import eng_po
from .mirlib import call_info, walk, strip_casts

LEVEL = 'proof'
MATCHERS = {
    'ShiftAnd': ('pattern_matching::shift_and', 'pattern_matching::shift_and::ShiftAnd'),
    'BNDM': ('pattern_matching::bndm', 'pattern_matching::bndm::BNDM'),
    'BOM': ('pattern_matching::bom', 'pattern_matching::bom::BOM'),
    'Horspool': ('pattern_matching::horspool', 'pattern_matching::horspool::Horspool'),
    'KMP': ('pattern_matching::kmp', 'pattern_matching::kmp::KMP'),
}
SKIP_TRAITS = ('fmt::Debug', 'clone::Clone', 'cmp::', 'hash::Hash', 'default::Default', '_serde::', 'marker::')

# audited obligations: key -> one-line proof sketch.  Keys: <function>|<kind>|<normalised operands>
AUDIT = {
    'shift_and::ShiftAnd::new|explicit-panic|begin_panic(lit)<&str>':
        'documented refusal: assert!(m <= 64) outside the length limit of C08',
    'shift_and::Matches::next|overflow-add|1,x0':
        'i is an Enumerate index of the text: i + 1 <= text length <= usize::MAX',
    'shift_and::Matches::next|overflow-sub|P[1 + x0].0,arg1.shiftand.m':
        'the accept bit (bit m-1) can only be set after m shifts, i.e. after at least m symbols: i + 1 >= m',
    'bndm::BNDM::new|explicit-panic|begin_panic(lit)<&str>':
        'documented refusal: assert!(m <= 64) outside the length limit of C08',
    'bndm::Matches::next|overflow-sub|arg1.window,x0':
        'j <= m <= window: active has at most m live bits, loses the top one per step, so the inner loop runs at most m times; window starts at m and only grows',
    'bndm::Matches::next|bounds|idx=P[arg1.window + -1*x0].0,len=PtrMetadata(arg1.text)':
        'window <= text.len() by the outer loop guard and j >= 1',
    'bndm::Matches::next|overflow-sub|arg1.window,arg1.bndm.m':
        'window >= m (starts at m, only grows)',
    'bndm::Matches::next|overflow-add|1,x0':
        'j <= m <= 64',
    'bndm::Matches::next|overflow-sub|arg1.bndm.m,x0':
        'lastsuffix is a value of j taken when j != m and j <= m, so < m',
    'bndm::Matches::next|overflow-add|P[arg1.bndm.m + -1*x0].0,arg1.window':
        'window <= text.len() <= isize::MAX and the shift is <= 64',
    'bom::BOM::new|unwrap|expect(Iterator::max(Clone::clone(IntoIterator::into_iter(arg1))),lit)<C>':
        'documented refusal of the empty pattern (C08 quantifies over non-empty patterns)',
    'bom::BOM::new|overflow-add|1,ExactSizeIterator::len(IntoIterator::into_iter(arg1))':
        'm = pattern length <= isize::MAX',
    'bom::BOM::new|overflow-add|1,x0':
        'm = pattern length <= isize::MAX',
    'bom::BOM::new|index|index(x0,P[x1].0)<std::vec::Vec<std::option::Option<usize>>>':
        'suff has m + 1 entries and i - 1 = j < m',
    'bom::BOM::new|index|index(x0,val(x1))<std::vec::Vec<vec_map::VecMap<usize>>>':
        'k_ is a suffix-link state < i - 1 + 1 = number of tables pushed so far (oracle construction invariant)',
    'bom::BOM::new|index|index_mut(x0,val(x1))<std::vec::Vec<vec_map::VecMap<usize>>>':
        'same state as the preceding contains_key test',
    'bom::BOM::new|index|index(x0,val(x1))<std::vec::Vec<std::option::Option<usize>>>':
        'k_ < i <= m and suff has m + 1 entries',
    'bom::BOM::new|unwrap|unwrap(VecMap::get(Index<I>>::index(x0,val(x1)),Borrow::borrow(x2)))<&usize>':
        'the loop left through `break` exactly when table[k].contains_key(a)',
    'bom::BOM::new|index|index_mut(x0,P[1 + x1].0)<std::vec::Vec<std::option::Option<usize>>>':
        'i = j + 1 <= m, suff has m + 1 entries',
    'bom::BOM::delta|index|index(arg1.table,arg2)<std::vec::Vec<vec_map::VecMap<usize>>>':
        'guarded by q >= self.table.len() on the other branch',
    'bom::Matches::next|overflow-sub|arg1.window,x0':
        'j <= m (inner loop guard) and window >= m',
    'bom::Matches::next|bounds|idx=P[arg1.window + -1*x0].0,len=PtrMetadata(arg1.text)':
        'window <= text.len() by the outer guard and j >= 1',
    'bom::Matches::next|overflow-add|1,x0':
        'j <= m',
    'bom::Matches::next|overflow-sub|arg1.window,arg1.bom.m':
        'window >= m',
    'bom::Matches::next|overflow-add|2,arg1.bom.m':
        'm <= isize::MAX',
    'bom::Matches::next|overflow-sub|P[2 + arg1.bom.m].0,x0':
        'j <= m + 1 after the inner loop',
    'bom::Matches::next|overflow-add|P[2 + arg1.bom.m + -1*x0].0,arg1.window':
        'window, m <= isize::MAX',
    'horspool::Horspool::new|overflow-sub|slice::len(arg1),1':
        'non-empty pattern (quantifier of C08): m >= 1',
    'horspool::Horspool::new|index|index(arg1,RangeTo::RangeTo{P[-1 + slice::len(arg1)].0})<[u8]>':
        'm - 1 <= m = pattern.len()',
    'horspool::Horspool::new|overflow-sub|P[-1 + slice::len(arg1)].0,x0':
        'j enumerates pattern[..m-1]: j <= m - 2',
    'horspool::Horspool::new|index|index_mut(x0,x1)<std::vec::Vec<usize>>':
        'shift has 256 entries, index is a u8',
    'horspool::Horspool::find_all|overflow-sub|arg1.m,1':
        'm >= 1 (non-empty pattern)',
    'horspool::Horspool::find_all|bounds|idx=P[-1 + arg1.m].0,len=PtrMetadata(arg1.pattern)':
        'm = pattern.len() >= 1',
    'horspool::Matches::next|bounds|idx=arg1.last,len=PtrMetadata(arg1.text)':
        'guarded by last < n (= text.len()) in the same condition / by the early return on last >= n',
    'horspool::Matches::next|index|index(arg1.horspool.shift,arg1.text[arg1.last])<std::vec::Vec<usize>>':
        'shift has 256 entries, index is a u8',
    'horspool::Matches::next|overflow-add|Index<I>>::index(arg1.horspool.shift,arg1.text[arg1.last]),arg1.last':
        'last < n <= isize::MAX and shift <= m <= isize::MAX',
    'horspool::Matches::next|overflow-sub|P[1 + arg1.last].0,arg1.horspool.m':
        'last starts at m - 1 and only grows',
    'horspool::Matches::next|index|index(arg1.horspool.shift,arg1.pattern_last)<std::vec::Vec<usize>>':
        'shift has 256 entries, index is a u8',
    'horspool::Matches::next|overflow-add|Index<I>>::index(arg1.horspool.shift,arg1.pattern_last),arg1.last':
        'last < n <= isize::MAX and shift <= m',
    'horspool::Matches::next|index|index(arg1.text,Range::Range{P[1 + -1*arg1.horspool.m + arg1.last].0,arg1.last})<[u8]>':
        'i = last + 1 - m <= j = last < n',
    'horspool::Matches::next|overflow-sub|arg1.horspool.m,1':
        'm >= 1',
    'horspool::Matches::next|index|index(arg1.horspool.pattern,RangeTo::RangeTo{P[-1 + arg1.horspool.m].0})<[u8]>':
        'm - 1 <= pattern.len()',
    'kmp::KMP::delta|bounds|idx=arg2,len=PtrMetadata(arg1.pattern)':
        'evaluated only when q != m (short-circuit / loop exit) and q <= m is the automaton state invariant',
    'kmp::KMP::delta|overflow-sub|arg2,1':
        'loop body entered only with q == m >= 1 or q > 0',
    'kmp::KMP::delta|index|index(arg1.lps,P[-1 + arg2].0)<std::vec::Vec<usize>>':
        'q - 1 < m = lps.len()',
    'kmp::lps|bounds|idx=x0,len=PtrMetadata(arg1)':
        'q <= i < m (q counts matched prefix symbols)',
    'kmp::lps|index|index(x0,P[-1 + x1].0)<std::vec::Vec<usize>>':
        'q - 1 < i < m = lps.len()',
    'kmp::lps|index|index_mut(x0,x1)<std::vec::Vec<usize>>':
        'i < m = lps.len()',
    'kmp::Matches::next|overflow-add|1,x0':
        'i is an Enumerate index',
    'kmp::Matches::next|overflow-sub|P[1 + x0].0,arg1.kmp.m':
        'q == m only after at least m symbols: i + 1 >= m',
}


def fn_short(path):
    p = re.sub(r'::<[^>]*>', '', path)
    p = re.sub(r"<'[a-z_]+>", '', p)
    m = re.match(r'^<(.*?)(?:<.*>)? as .*>::(\w+)$', p)
    if m:
        p = m.group(1) + '::' + m.group(2)
    p = re.sub(r'<[^<>]*>', '', p)
    return p.replace('pattern_matching::', '')


def matcher_bodies(facts, mod):
    out = []
    for b in facts.body_list:
        pth = b.path
        if not (pth.startswith(mod + '::') or pth.startswith('<' + mod + '::')):
            continue
        if any(t in pth for t in SKIP_TRAITS) or '::tests::' in pth:
            continue
        out.append(b)
    return out


def purity(facts, rep):
    rule = 'EF-1'
    rep.rule(rule, 'history independence of matchers: find_all takes &self, the matcher type is Freeze (no interior '
                   'mutability), the iterator state is created in find_all, and no body reachable from find_all / next '
                   'touches a static that is mutable or not Freeze')
    bad_statics = {s['path'] for s in facts.statics if s['mut'] or not s['freeze']}
    n = 0
    for name, (mod, adt) in MATCHERS.items():
        a = facts.adts.get(adt)
        fa = facts.method(adt, 'find_all')
        if a is None or fa is None:
            rep.missing(rule, adt, 'matcher type or find_all not found')
            continue
        n += 1
        rep.analysed_body(fa)
        key = '%s|find_all-takes-shared-self' % name
        if fa.raw.get('self_kind') == 'ref':
            rep.ok(rule, key, '%s:%s' % (fa.file, fa.line), '&self')
        else:
            rep.bad(rule, key, '%s:%s' % (fa.file, fa.line), 'find_all takes `%s self`: a search can change the matcher' %
                    fa.raw.get('self_kind'))
        key = '%s|type-is-freeze' % name
        if facts.adt_freeze(adt):
            rep.ok(rule, key, '%s:%s' % (a['file'], a['line']), 'no UnsafeCell reachable')
        else:
            nf = [f['name'] for f in a['variants'][0]['fields'] if not f['freeze']]
            rep.bad(rule, key, '%s:%s' % (a['file'], a['line']), 'matcher has interior mutability in field(s) %s: searches '
                                                                 'through &self can carry state over' % nf)
        # statics reachable
        roots = [fa] + [b for b in matcher_bodies(facts, mod) if b.name == 'next']
        reach = facts.reachable_bodies(roots)
        used = set()
        unsafe_calls = []
        for k in reach:
            b = facts.bodies[k]
            for bb in b.reachable(0):
                for s in b.stmts(bb):
                    if s['k'] == 'assign':
                        for x in walk(b.expr_rvalue(s['r'])):
                            pass
                        o = s['r'].get('o')
                        if o and 'k' in o and o['k'].get('static'):
                            used.add(o['k']['static'])
        key = '%s|no-mutable-global-state' % name
        hit = used & bad_statics
        mutst = {u for u in used if any(s['path'] == u and s['mut'] for s in facts.statics)}
        if hit or mutst:
            rep.bad(rule, key, '%s:%s' % (fa.file, fa.line), 'search code reads/writes global state %s' % sorted(hit | mutst))
        else:
            rep.ok(rule, key, '%s:%s' % (fa.file, fa.line), '%d bodies reachable, statics used: %s' % (len(reach), sorted(used)))
        # iterator state is a fresh aggregate
        key = '%s|iterator-state-fresh' % name
        aggs = [s for bb in fa.reachable(0) for s in fa.stmts(bb)
                if s['k'] == 'assign' and s['r']['k'] == 'agg' and s['r'].get('adt', '').startswith(mod)]
        if aggs:
            rep.ok(rule, key, '%s:%s' % (fa.file, fa.line), 'find_all builds %s' % aggs[0]['r']['adt'])
        else:
            rep.bad(rule, key, '%s:%s' % (fa.file, fa.line), 'find_all does not construct a fresh iterator state')
    rep.floor(rule, 'matcher types', n, 5)


def po1(facts, rep):
    rule = 'PO-1'
    rep.rule(rule, 'panic / word-width obligations: every MIR Assert (bounds, overflow, shift, div) and every may-panic '
                   'std call in the five matchers is discharged by interval analysis from the constructor guard '
                   '(private field invariant m <= 64 established at all struct-literal sites) or is in the audited '
                   'table with a proof sketch; anything else is reported')
    inv = {}
    for name in ('ShiftAnd', 'BNDM'):
        mod, adt = MATCHERS[name]
        r = eng_po.field_invariants(facts, adt, ['m'], mod)
        iv, problems, sites = r
        key = '%s|field-invariant-m' % name
        got = iv.get((adt, 'm'))
        if problems:
            rep.bad(rule, key, '', '; '.join(problems))
        elif got is None or got[1] > 64:
            rep.bad(rule, key, '', 'constructor does not bound the pattern length by 64 (m in %s at %d literal sites): the '
                                   'documented limit is not enforced' % (got, sites))
        else:
            rep.ok(rule, key, '', 'm in [%d, %d] at all %d struct-literal sites; field private and never assigned' % (
                got[0], got[1], sites))
            inv.update(iv)
    used_audit = set()
    total = auto = 0
    nbodies = 0
    from .po_known import KNOWN
    present_short = {fn_short(b.path) for b in facts.body_list}
    for name, (mod, adt) in MATCHERS.items():
        for b, nb, ia, obs in eng_po.scan(facts, matcher_bodies(facts, mod), KNOWN, field_inv=inv):
            nbodies += 1
            rep.analysed_body(b)
            # masks() is public; its obligations are discharged under the precondition established by all in-crate
            # callers (pattern length <= 64), which the interval analysis cannot see: iterations are not counted
            seen = {}
            for o in obs:
                total += 1
                k = '%s|%s|%s' % (fn_short(b.path), o['kind'], o['ops'])
                # obligations sharing a key in one body are distinguished by ordinal only for reporting
                seen[k] = seen.get(k, 0) + 1
                if o['discharged']:
                    auto += 1
                    rep.ok(rule, k + ('#%d' % seen[k] if seen[k] > 1 else ''), o['where'], 'interval analysis')
                elif k in AUDIT:
                    used_audit.add(k)
                    rep.audited(rule, k + ('#%d' % seen[k] if seen[k] > 1 else ''), o['where'], AUDIT[k])
                elif eng_po.orphan_match(k, AUDIT, present_short):
                    k0 = eng_po.orphan_match(k, AUDIT, present_short)
                    rep.audited(rule, k, o['where'], 'arithmetic of the removed function %s, now written in its caller: %s' % (k0.split('|')[0], AUDIT[k0]))
                elif eng_po.implied(k, AUDIT, o):
                    rep.audited(rule, k, o['where'], eng_po.implied(k, AUDIT, o)[1])
                else:
                    rep.bad(rule, k, o['where'], 'undischarged %s obligation: %s' % (o['kind'], o['detail']))
    rep.floor(rule, 'matcher bodies analysed', nbodies, 15)
    rep.floor(rule, 'obligations enumerated', total, 60)
    rep.extra['po'] = {'obligations': total, 'auto_discharged': auto, 'audited_keys_used': len(used_audit),
                       'audit_table_size': len(AUDIT)}


def fallback_sites(b):
    """blocks with an assignment  q = table[q - 1]  (failure-link step): a local that is overwritten with the element
    of a Vec indexed by (the same local - 1)"""
    out = []
    for bb in b.reachable(0):
        for i, s in enumerate(b.stmts(bb)):
            if s['k'] != 'assign' or 'pj' in s['p'] or not b.is_user(s['p']['l']):
                continue
            q = s['p']['l']
            e = strip_casts(b.expr_rvalue(s['r'], inline_user=False))
            # expect index(call)(table, Sub(q, 1).0)
            if e[0] == 'call' and (e[3] or e[1]).endswith('Index::index') and len(e[2]) == 2:
                idx = strip_casts(e[2][1])
                if idx[0] == 'field' and idx[2] == '0':
                    idx = idx[1]
                if idx[0] == 'bin' and idx[1].startswith('Sub') and strip_casts(idx[2]) == ('local', q, b.local_name(q)) \
                        and strip_casts(idx[3])[0] == 'const' and strip_casts(idx[3])[1] == 1:
                    out.append((bb, i, q))
    return out


def ts9(facts, rep):
    rule = 'TS-9'
    rep.rule(rule, 'failure links are followed iteratively: the step q = lps[q - 1] of KMP::delta lies on a CFG cycle and the '
                   'one of kmp::lps on an inner cycle of the table-filling loop (a single fallback step is wrong for patterns '
                   'with nested borders); BOM::new follows suffix links in a loop likewise')
    for path, depth in (('pattern_matching::kmp::KMP::<\'a>::delta', 1), ('pattern_matching::kmp::lps', 2)):
        b = facts.body(path)
        key = '%s|fallback-iterated' % fn_short(path)
        if b is None:
            rep.missing(rule, key, 'not found')
            continue
        rep.analysed_body(b)
        sites = fallback_sites(b)
        if not sites:
            rep.bad(rule, key, '%s:%s' % (b.file, b.line), 'no failure-link step q = lps[q - 1] found')
            continue
        bad = [(bb, i) for bb, i, _q in sites if b.loop_depth(bb) < depth]
        if bad:
            rep.bad(rule, key, b.loc(bad[0][0], bad[0][1]), 'the failure-link step is executed at most once per symbol (loop depth '
                                                           '%d, need %d): after a mismatch the automaton may stay in a state '
                                                           'that claims more matched prefix than the text supports' % (
                        b.loop_depth(bad[0][0]), depth))
        else:
            rep.ok(rule, key, b.loc(sites[0][0], sites[0][1]), 'q = lps[q - 1] inside a loop of depth >= %d' % depth)


def run(facts, rep, ctx):
    purity(facts, rep)
    po1(facts, rep)
    ts9(facts, rep)


_run_before_round4 = run


def run(facts, rep, ctx):
    """rules added after the third seeding round (rules/round4.py)"""
    _run_before_round4(facts, rep, ctx)
    from . import round4
    round4.tb13(facts, rep)



_run_before_round5 = run


def run(facts, rep, ctx):
    """rules added after the fourth seeding round (rules/round5.py)"""
    _run_before_round5(facts, rep, ctx)
    from . import round5
    round5.et1(facts, rep)


_run_before_round6 = run


def run(facts, rep, ctx):
    """rules added after the fifth seeding round (rules/round6.py)"""
    _run_before_round6(facts, rep, ctx)
    from . import round6
    round6.cf2(facts, rep, ['pattern_matching::shift_and::', 'pattern_matching::bndm::', 'pattern_matching::bom::', 'pattern_matching::horspool::', 'pattern_matching::kmp::'], 50)
