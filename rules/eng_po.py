"""PO: panic / word-width obligations.

(1) obligation enumeration: every MIR `Assert` terminator (bounds, overflow incl. shifts, division/remainder by zero)
    and every call into a curated may-panic std table, in a set of bodies;
(2) an interval abstract interpreter over MIR (integers and booleans, overflow tuples, branch refinement, frozen
    memory locations behind shared references, private-field invariants established at all struct-literal sites)
    that discharges Assert obligations automatically;
(3) keys for the remaining obligations that do not depend on positions or variable names, to be looked up in an
    audited table."""
import os
import re
from .mirlib import call_info, strip, strip_casts, fmt, short, _INT_FROM

INT_RANGES = {
    'u8': (0, 2 ** 8 - 1), 'u16': (0, 2 ** 16 - 1), 'u32': (0, 2 ** 32 - 1), 'u64': (0, 2 ** 64 - 1),
    'u128': (0, 2 ** 128 - 1), 'usize': (0, 2 ** 64 - 1),
    'i8': (-2 ** 7, 2 ** 7 - 1), 'i16': (-2 ** 15, 2 ** 15 - 1), 'i32': (-2 ** 31, 2 ** 31 - 1),
    'i64': (-2 ** 63, 2 ** 63 - 1), 'i128': (-2 ** 127, 2 ** 127 - 1), 'isize': (-2 ** 63, 2 ** 63 - 1),
    'bool': (0, 1), 'char': (0, 0x10FFFF),
}
LEN_RANGE = (0, 2 ** 63 - 1)
BITS = {'u8': 8, 'u16': 16, 'u32': 32, 'u64': 64, 'u128': 128, 'usize': 64, 'i8': 8, 'i16': 16, 'i32': 32,
        'i64': 64, 'i128': 128, 'isize': 64}


def ty_range(ty):
    return INT_RANGES.get(ty)


def clip(iv, rng):
    if iv is None or rng is None:
        return rng
    if iv[0] >= rng[0] and iv[1] <= rng[1]:
        return iv
    return rng


def join_iv(a, b):
    if a is None or b is None:
        return None
    if a[0] == 'ovf' or b[0] == 'ovf' or a[0] == 'tup' or b[0] == 'tup':
        if a == b:
            return a
        if a[0] == 'ovf' and b[0] == 'ovf':
            return ('ovf', (min(a[1][0], b[1][0]), max(a[1][1], b[1][1])), a[2])
        if a[0] == 'tup' and b[0] == 'tup' and len(a[1]) == len(b[1]):
            return ('tup', tuple(join_iv(x, y) for x, y in zip(a[1], b[1])))
        return None
    return (min(a[0], b[0]), max(a[1], b[1]))


class Intervals:
    """forward interval analysis of one body"""

    def __init__(self, body, facts, field_inv=None, param_ranges=None, widen_after=3):
        self.body = body
        self.facts = facts
        self.field_inv = field_inv or {}      # (adt path, field name) -> interval
        self.param_ranges = param_ranges or {}
        self.widen_after = widen_after
        self.instates = {}
        self.assert_results = {}  # bb -> True (always holds) / False (may fail) / 'dead'
        self.agg_values = []      # (bb, stmt idx, adt, {field: interval})
        self.call_args = {}       # bb -> intervals of the call arguments

    # ---------------- helpers
    def lty(self, l):
        return self.body.locals[l]['ty']

    def place_key(self, p):
        """(key string, frozen) for a memory place without variable indexes, else None"""
        pj = p.get('pj', [])
        if not pj:
            return None
        parts = ['_%d' % p['l']]
        frozen = False
        pjt = p.get('pjt', [])
        for i, el in enumerate(pj):
            if el == '*':
                parts.append('*')
                bt = pjt[i] if i < len(pjt) else ''
                if bt.startswith('&') and not bt.startswith('&mut'):
                    frozen = True
            elif isinstance(el, dict) and 'f' in el:
                parts.append('.' + el['n'])
            elif isinstance(el, dict) and 'dc' in el:
                parts.append('as ' + el['dc'])
            elif isinstance(el, dict) and 'ci' in el and not el['fe']:
                parts.append('[%d]' % el['ci'])
            else:
                return None
        return (' '.join(parts), frozen)

    def field_invariant(self, p):
        pj = p.get('pj', [])
        pjt = p.get('pjt', [])
        if not pj or not isinstance(pj[-1], dict) or 'f' not in pj[-1]:
            return None
        bt = pjt[len(pj) - 1] if len(pjt) >= len(pj) else ''
        base = re.sub(r'<.*$', '', bt)
        return self.field_inv.get((base, pj[-1]['n']))

    def read_place(self, st, p):
        pj = p.get('pj', [])
        if not pj:
            v = st['L'].get(p['l'])
            if v is None:
                return ty_range(self.lty(p['l']))
            return v
        base = st['L'].get(p['l'])
        # fields of overflow tuples / tuples held in locals
        if len(pj) == 1 and isinstance(pj[0], dict) and 'f' in pj[0] and base is not None and base[0] in ('ovf', 'tup'):
            f = pj[0]['f']
            if base[0] == 'ovf':
                exact, rng = base[1], base[2]
                if f == 0:
                    return clip(exact, rng)
                if exact[0] >= rng[0] and exact[1] <= rng[1]:
                    return (0, 0)
                if exact[1] < rng[0] or exact[0] > rng[1]:
                    return (1, 1)
                return (0, 1)
            if f < len(base[1]):
                return base[1][f] if base[1][f] is not None else ty_range(p.get('ty', ''))
        tr = ty_range(p.get('ty', ''))
        pk = self.place_key(p)
        if pk is not None and pk[0] in st['M']:
            return st['M'][pk[0]]
        inv = self.field_invariant(p)
        if inv is not None:
            return clip(inv, tr) if tr else inv
        return tr

    def operand(self, st, o):
        if 'c' in o:
            return self.read_place(st, o['c'])
        if 'm' in o:
            return self.read_place(st, o['m'])
        if 'k' in o:
            v = o['k'].get('v')
            if isinstance(v, int):
                return (v, v)
            return ty_range(o['k'].get('ty', ''))
        return None

    def operand_ty(self, o):
        pl = o.get('c') or o.get('m')
        if pl is not None:
            return pl.get('ty') or self.lty(pl['l'])
        if 'k' in o:
            return o['k'].get('ty', '')
        return ''

    def binop(self, op, a, b, ty):
        rng = ty_range(ty)
        if op in ('Eq', 'Ne', 'Lt', 'Le', 'Gt', 'Ge'):
            if a is None or b is None or a[0] in ('ovf', 'tup') or b[0] in ('ovf', 'tup'):
                return (0, 1)
            r = None
            if op == 'Lt':
                r = True if a[1] < b[0] else (False if a[0] >= b[1] else None)
            elif op == 'Le':
                r = True if a[1] <= b[0] else (False if a[0] > b[1] else None)
            elif op == 'Gt':
                r = True if a[0] > b[1] else (False if a[1] <= b[0] else None)
            elif op == 'Ge':
                r = True if a[0] >= b[1] else (False if a[1] < b[0] else None)
            elif op == 'Eq':
                r = True if a[0] == a[1] == b[0] == b[1] else (False if a[1] < b[0] or b[1] < a[0] else None)
            elif op == 'Ne':
                r = False if a[0] == a[1] == b[0] == b[1] else (True if a[1] < b[0] or b[1] < a[0] else None)
            return (1, 1) if r is True else ((0, 0) if r is False else (0, 1))
        if a is None or b is None or a[0] in ('ovf', 'tup') or b[0] in ('ovf', 'tup'):
            base = op.replace('WithOverflow', '').replace('Unchecked', '')
            if op.endswith('WithOverflow'):
                return None
            return rng
        base = op.replace('WithOverflow', '').replace('Unchecked', '')
        ex = None
        if base == 'Add':
            ex = (a[0] + b[0], a[1] + b[1])
        elif base == 'Sub':
            ex = (a[0] - b[1], a[1] - b[0])
        elif base == 'Mul':
            c = [a[0] * b[0], a[0] * b[1], a[1] * b[0], a[1] * b[1]]
            ex = (min(c), max(c))
        elif base == 'Div':
            if b[0] > 0 and a[0] >= 0:
                ex = (a[0] // b[1], a[1] // b[0])
        elif base == 'Rem':
            if b[0] > 0 and a[0] >= 0:
                ex = (0, min(a[1], b[1] - 1))
        elif base == 'Shl':
            if a[0] >= 0 and b[0] >= 0 and b[1] <= 256:
                ex = (a[0] << b[0], a[1] << b[1])
        elif base == 'Shr':
            if a[0] >= 0 and b[0] >= 0 and b[1] <= 256:
                ex = (a[0] >> b[1], a[1] >> b[0])
        elif base == 'BitAnd':
            if a[0] >= 0 and b[0] >= 0:
                ex = (0, min(a[1], b[1]))
            elif a[0] >= 0:
                ex = (0, a[1])
            elif b[0] >= 0:
                ex = (0, b[1])
        elif base in ('BitOr', 'BitXor'):
            if a[0] >= 0 and b[0] >= 0:
                hi = (1 << max(a[1].bit_length(), b[1].bit_length())) - 1
                ex = ((max(a[0], b[0]) if base == 'BitOr' else 0), hi)
        if op.endswith('WithOverflow'):
            if ex is None:
                return None
            return ('ovf', ex, rng)
        if ex is None:
            return rng
        return clip(ex, rng)

    def rvalue(self, st, r, dest_ty):
        k = r['k']
        if k == 'use':
            return self.operand(st, r['o'])
        if k == 'cast':
            v = self.operand(st, r['o'])
            rng = ty_range(r['ty'])
            if r['ck'] == 'IntToInt' and v is not None and v[0] not in ('ovf', 'tup'):
                return clip(v, rng)
            return rng
        if k == 'bin':
            v = self.binop(r['op'], self.operand(st, r['a']), self.operand(st, r['b']), dest_ty
                           if not r['op'].endswith('WithOverflow') else self.operand_ty(r['a']))
            if r['op'].startswith('Sub') and st.get('R'):
                ra, rb = self.root_local(st, r['a']), self.root_local(st, r['b'])
                if ra is not None and rb is not None and (rb, ra) in st['R']:
                    # b <= a is known: the difference is non-negative
                    if v is not None and v[0] == 'ovf':
                        v = ('ovf', (max(v[1][0], 0), max(v[1][1], 0)), v[2])
                    elif v is not None and v[0] not in ('tup',):
                        v = (max(v[0], 0), max(v[1], 0))
            return v
        if k == 'un':
            v = self.operand(st, r['a'])
            if r['op'] == 'Not' and dest_ty == 'bool' and v is not None and v[0] not in ('ovf', 'tup'):
                return (1 - v[1], 1 - v[0])
            if r['op'] == 'PtrMetadata':
                return LEN_RANGE
            return ty_range(dest_ty)
        if k == 'agg' and r['ak'] == 'tuple':
            return ('tup', tuple(self.operand(st, o) for o in r['ops']))
        if k == 'disc':
            return None
        return ty_range(dest_ty)

    # ---------------- transfer
    def new_state(self):
        return {'L': {}, 'M': {}, 'C': {}, 'MF': {}, 'R': set()}

    def copy_state(self, st):
        return {'L': dict(st['L']), 'M': dict(st['M']), 'C': dict(st['C']), 'MF': dict(st.get('MF', {})),
                'R': set(st.get('R', ()))}

    def kill_copies_of(self, st, l):
        for t in [t for t, s in st['C'].items() if s == ('L', l) or t == l]:
            del st['C'][t]
        if st.get('R'):
            st['R'] = {(a, b) for (a, b) in st['R'] if a != l and b != l}

    def root_local(self, st, o):
        """root local an operand is an (unmodified) copy of, or None"""
        pl = o.get('c') or o.get('m')
        if pl is None or 'pj' in pl:
            return None
        l = pl['l']
        seen = set()
        while l not in seen:
            seen.add(l)
            src = st['C'].get(l)
            if src is None or src[0] != 'L':
                break
            l = src[1]
        return l

    def invalidate_mem(self, st):
        for k in [k for k, fz in st.get('MF', {}).items() if not fz]:
            st['M'].pop(k, None)
        for t in [t for t, s in st['C'].items() if s[0] == 'M' and not st.get('MF', {}).get(s[1], False)]:
            del st['C'][t]

    def transfer_stmt(self, st, bb, i, s):
        if s['k'] != 'assign':
            return
        p = s['p']
        r = s['r']
        if 'pj' not in p:
            l = p['l']
            v = self.rvalue(st, r, self.lty(l))
            self.kill_copies_of(st, l)
            if v is None:
                st['L'].pop(l, None)
            else:
                st['L'][l] = v
            if r['k'] == 'use':
                q = r['o'].get('c') or r['o'].get('m')
                if q is not None and getattr(self, 'range_end', None) and q.get('pj') and q['l'] in self.range_end and \
                        len(q['pj']) == 2 and isinstance(q['pj'][0], dict) and q['pj'][0].get('dc') == 'Some':
                    # loop variable of `for i in a..end`: i < end
                    st.setdefault('R', set()).add((l, self.range_end[q['l']]))
                if q is not None:
                    if 'pj' not in q:
                        if q['l'] != l:
                            st['C'][l] = ('L', q['l'])
                    else:
                        pk = self.place_key(q)
                        if pk is not None:
                            st['C'][l] = ('M', pk[0])
                            st.setdefault('MF', {})[pk[0]] = pk[1]
            if r['k'] == 'agg' and r['ak'] == 'adt':
                vals = {f: self.operand(st, o) for f, o in zip(r.get('fields', []), r['ops'])}
                self.agg_values.append((bb, i, r['adt'], vals))
        else:
            # store to memory
            if p['pj'][0] != '*' and len(p['pj']) == 1 and isinstance(p['pj'][0], dict) and 'f' in p['pj'][0]:
                # field of a local tuple/struct
                base = st['L'].get(p['l'])
                if base is not None and base[0] == 'tup':
                    f = p['pj'][0]['f']
                    v = self.rvalue(st, r, p.get('ty', ''))
                    lst = list(base[1])
                    if f < len(lst):
                        lst[f] = v
                    st['L'][p['l']] = ('tup', tuple(lst))
                    return
                st['L'].pop(p['l'], None)
                return
            v = self.rvalue(st, r, p.get('ty', ''))
            pk = self.place_key(p)
            self.invalidate_mem(st)
            if p['pj'][0] != '*':
                st['L'].pop(p['l'], None)
            if pk is not None and v is not None and v[0] not in ('ovf', 'tup'):
                st['M'][pk[0]] = v
                st.setdefault('MF', {})[pk[0]] = False

    def refine_operand(self, st, o, iv):
        """intersect the value of operand o (a local or memory place) with iv; returns False if empty"""
        pl = o.get('c') or o.get('m')
        if pl is None:
            v = o.get('k', {}).get('v')
            if isinstance(v, int):
                return iv[0] <= v <= iv[1]
            return True
        cur = self.read_place(st, pl)
        if cur is None or cur[0] in ('ovf', 'tup'):
            return True
        new = (max(cur[0], iv[0]), min(cur[1], iv[1]))
        if new[0] > new[1]:
            return False
        if 'pj' not in pl:
            self.set_local_chain(st, pl['l'], new)
        else:
            pk = self.place_key(pl)
            if pk is not None:
                st['M'][pk[0]] = new
                st.setdefault('MF', {})[pk[0]] = pk[1]
        return True

    def set_local_chain(self, st, l, new):
        seen = set()
        while l not in seen:
            seen.add(l)
            cur = st['L'].get(l) or ty_range(self.lty(l))
            if cur is not None and cur[0] not in ('ovf', 'tup'):
                st['L'][l] = (max(cur[0], new[0]), min(cur[1], new[1]))
            src = st['C'].get(l)
            if src is None:
                break
            if src[0] == 'L':
                l = src[1]
            else:
                cur = st['M'].get(src[1])
                st['M'][src[1]] = new if cur is None else (max(cur[0], new[0]), min(cur[1], new[1]))
                break

    def refine_bool(self, st, l, truth, depth=0):
        """refine state assuming bool local l == truth; returns False if infeasible"""
        cur = st['L'].get(l)
        if cur is not None and cur[0] not in ('ovf', 'tup'):
            if (truth and cur[1] == 0) or (not truth and cur[0] == 1):
                return False
        if depth > 6:
            return True
        sd = self.body.single_def(l)
        if sd is None or sd[0] != 'stmt':
            return True
        r = sd[3]['r']
        if r['k'] == 'un' and r['op'] == 'Not':
            q = r['a'].get('c') or r['a'].get('m')
            if q is not None and 'pj' not in q:
                return self.refine_bool(st, q['l'], not truth, depth + 1)
            return True
        if r['k'] == 'use':
            q = r['o'].get('c') or r['o'].get('m')
            if q is not None and 'pj' not in q:
                return self.refine_bool(st, q['l'], truth, depth + 1)
            return True
        if r['k'] != 'bin' or r['op'] not in ('Lt', 'Le', 'Gt', 'Ge', 'Eq', 'Ne'):
            return True
        # operands must still hold the values they had at the comparison: temps are single-def and the
        # comparison is evaluated in the same block as the branch in MIR built from `if`
        op = r['op']
        if not truth:
            op = {'Lt': 'Ge', 'Le': 'Gt', 'Gt': 'Le', 'Ge': 'Lt', 'Eq': 'Ne', 'Ne': 'Eq'}[op]
        ra, rb = self.root_local(st, r['a']), self.root_local(st, r['b'])
        if ra is not None and rb is not None and ra != rb:
            if op in ('Lt', 'Le'):
                st['R'].add((ra, rb))
            elif op in ('Gt', 'Ge'):
                st['R'].add((rb, ra))
            elif op == 'Eq':
                st['R'].add((ra, rb))
                st['R'].add((rb, ra))
        a = self.operand(st, r['a'])
        b = self.operand(st, r['b'])
        if a is None or b is None or a[0] in ('ovf', 'tup') or b[0] in ('ovf', 'tup'):
            return True
        INF = 2 ** 200
        if op == 'Lt':
            ok = self.refine_operand(st, r['a'], (-INF, b[1] - 1)) and self.refine_operand(st, r['b'], (a[0] + 1, INF))
        elif op == 'Le':
            ok = self.refine_operand(st, r['a'], (-INF, b[1])) and self.refine_operand(st, r['b'], (a[0], INF))
        elif op == 'Gt':
            ok = self.refine_operand(st, r['a'], (b[0] + 1, INF)) and self.refine_operand(st, r['b'], (-INF, a[1] - 1))
        elif op == 'Ge':
            ok = self.refine_operand(st, r['a'], (b[0], INF)) and self.refine_operand(st, r['b'], (-INF, a[1]))
        elif op == 'Eq':
            lo, hi = max(a[0], b[0]), min(a[1], b[1])
            if lo > hi:
                return False
            ok = self.refine_operand(st, r['a'], (lo, hi)) and self.refine_operand(st, r['b'], (lo, hi))
        else:  # Ne: only useful at interval endpoints with a constant
            ok = True
            if b[0] == b[1]:
                if a[0] == a[1] == b[0]:
                    return False
                if a[0] == b[0]:
                    ok = self.refine_operand(st, r['a'], (a[0] + 1, INF))
                elif a[1] == b[0]:
                    ok = self.refine_operand(st, r['a'], (-INF, a[1] - 1))
            elif a[0] == a[1]:
                if b[0] == a[0]:
                    ok = self.refine_operand(st, r['b'], (b[0] + 1, INF))
                elif b[1] == a[0]:
                    ok = self.refine_operand(st, r['b'], (-INF, b[1] - 1))
        return ok

    def edge_states(self, st, bb):
        """list of (succ, state) after the terminator of bb"""
        body = self.body
        t = body.term(bb)
        k = t['k']
        out = []
        if k == 'switch':
            d = t['d'].get('c') or t['d'].get('m')
            isbool = t.get('dty') == 'bool'
            for v, tgt in t['vals']:
                s2 = self.copy_state(st)
                ok = True
                if d is not None and 'pj' not in d:
                    if isbool:
                        ok = self.refine_bool(s2, d['l'], bool(v))
                    else:
                        ok = self.refine_operand(s2, t['d'], (v, v))
                if ok:
                    out.append((tgt, s2))
            s2 = self.copy_state(st)
            ok = True
            if d is not None and 'pj' not in d and isbool and len(t['vals']) == 1:
                ok = self.refine_bool(s2, d['l'], not bool(t['vals'][0][0]))
            elif d is not None and 'pj' not in d and isbool and len(t['vals']) == 2:
                ok = False
            if ok:
                out.append((t['else'], s2))
            return out
        if k == 'assert':
            c = t['cond'].get('c') or t['cond'].get('m')
            s2 = self.copy_state(st)
            ok = True
            if c is not None:
                if 'pj' not in c:
                    ok = self.refine_bool(s2, c['l'], t['expected'])
                else:
                    # (_x.1: bool) overflow flag: after success the result fits
                    base = s2['L'].get(c['l'])
                    if base is not None and base[0] == 'ovf':
                        ex, rng = base[1], base[2]
                        new = (max(ex[0], rng[0]), min(ex[1], rng[1]))
                        if new[0] > new[1]:
                            ok = False
                        else:
                            s2['L'][c['l']] = ('ovf', new, rng)
            if ok:
                out.append((t['t'], s2))
            return out
        if k == 'call':
            s2 = self.copy_state(st)
            self.invalidate_mem(s2)
            p = t['dest']
            if 'pj' not in p:
                self.kill_copies_of(s2, p['l'])
                info = call_info(t)
                rng = ty_range(self.lty(p['l']))
                if info and rng is not None:
                    fn = info['fn']
                    if fn.endswith('::len') and self.lty(p['l']) == 'usize' and (
                            'slice' in fn or 'Vec' in fn or 'str' in fn):
                        rng = LEN_RANGE
                    elif _INT_FROM.search(info.get('res') or fn) and len(t['args']) == 1:
                        # lossless integer conversion (usize::from(x), x.into()): the value of the argument
                        v = self.operand(st, t['args'][0])
                        if v is None:
                            v = ty_range(self.operand_ty(t['args'][0]))
                        if v is not None and v[0] not in ('ovf', 'tup'):
                            rng = clip(v, rng)
                if rng is None:
                    s2['L'].pop(p['l'], None)
                else:
                    s2['L'][p['l']] = rng
            else:
                s2['L'].pop(p['l'], None)
            if t['t'] is not None:
                out.append((t['t'], s2))
            return out
        for s in body.succ[bb]:
            out.append((s, st))
        return out

    def _range_ends(self):
        """dest local of `<Range<_> as Iterator>::next(&mut it)` -> local holding the (never reassigned) end of the range
        `it` was built from: the yielded value is < end"""
        body = self.body
        out = {}
        d, _partial = body.defs()

        def only_def(l):
            defs = d.get(l, [])
            return defs[0] if len(defs) == 1 else None
        for bb, t in body.calls():
            info = call_info(t)
            if not info or not info['fn'].endswith('Iterator::next') or 'pj' in t['dest'] or not t['args']:
                continue
            a0 = (info.get('args') or [''])[0]
            if not re.match(r'std::ops::Range<[iu](\d+|size)>$', a0):
                continue
            pl = t['args'][0].get('m') or t['args'][0].get('c')
            l = pl['l'] if pl is not None and 'pj' not in pl else None
            hops = 0
            end = None
            while l is not None and hops < 8:
                hops += 1
                df = only_def(l)
                if df is None:
                    break
                if df[0] == 'stmt':
                    r = df[3]['r']
                    if r['k'] == 'ref' and (r['p'].get('pj') in (None, [], ['*'])):
                        l = r['p']['l']
                        continue
                    if r['k'] == 'use':
                        q = r['o'].get('m') or r['o'].get('c')
                        l = q['l'] if q is not None and 'pj' not in q else None
                        continue
                    if r['k'] == 'agg' and (r.get('adt') or '') == 'std::ops::Range' and len(r['ops']) == 2:
                        q = r['ops'][1].get('m') or r['ops'][1].get('c')
                        if q is not None and 'pj' not in q:
                            end = q['l']
                    break
                if df[0] == 'call':
                    ci = call_info(df[2])
                    if ci and ci['fn'].endswith('IntoIterator::into_iter') and df[2]['args']:
                        q = df[2]['args'][0].get('m') or df[2]['args'][0].get('c')
                        l = q['l'] if q is not None and 'pj' not in q else None
                        continue
                    break
                break
            if end is None:
                continue
            # the end operand is a temp copy of a variable: follow to a local that is assigned exactly once (or a parameter)
            e = end
            for _ in range(4):
                df = only_def(e)
                if df is not None and df[0] == 'stmt' and df[3]['r']['k'] == 'use':
                    q = df[3]['r']['o'].get('m') or df[3]['r']['o'].get('c')
                    if q is not None and 'pj' not in q:
                        e = q['l']
                        continue
                break
            if e <= body.arg_count or only_def(e) is not None:
                out[t['dest']['l']] = e
        return out

    def run(self):
        body = self.body
        self.range_end = self._range_ends()
        st0 = self.new_state()
        for l, iv in self.param_ranges.items():
            st0['L'][l] = iv
        self.instates = {0: st0}
        visits = {}
        work = [0]
        heads = {h for (_s, h) in body.loops_back_edges()}
        n = 0
        while work:
            bb = work.pop()
            n += 1
            if n > 100000:
                raise RuntimeError('interval analysis did not converge: ' + body.path)
            st = self.copy_state(self.instates[bb])
            for i, s in enumerate(body.stmts(bb)):
                self.transfer_stmt(st, bb, i, s)
            for tgt, s2 in self.edge_states(st, bb):
                old = self.instates.get(tgt)
                if old is None:
                    self.instates[tgt] = self.copy_state(s2)
                    work.append(tgt)
                    continue
                new = self.join_states(old, s2)
                if tgt in heads:
                    visits[tgt] = visits.get(tgt, 0) + 1
                    if visits[tgt] > self.widen_after:
                        new = self.widen(old, new)
                if not self.state_eq(old, new):
                    self.instates[tgt] = new
                    if tgt not in work:
                        work.append(tgt)
        # final pass: evaluate asserts and aggregates with fixpoint states
        self.agg_values = []
        self.upper_bounds = {}
        for bb in sorted(self.instates):
            st = self.copy_state(self.instates[bb])
            for i, s in enumerate(body.stmts(bb)):
                self.transfer_stmt(st, bb, i, s)
            t = body.term(bb)
            if t['k'] == 'assert':
                v = self.operand(st, t['cond'])
                exp = 1 if t['expected'] else 0
                self.assert_results[bb] = (v is not None and v[0] not in ('ovf', 'tup') and v[0] == v[1] == exp)
                m = t.get('msg') or {}
                if m.get('k') == 'overflow' and m.get('op') in ('Add', 'Mul') and st.get('R'):
                    # x <= y established by a dominating guard (both unchanged since): y is an upper bound of the operand
                    ub = {}
                    for side in ('a', 'b'):
                        o = m.get(side)
                        r0 = self.root_local(st, o) if isinstance(o, dict) else None
                        if r0 is not None:
                            ub[side] = sorted(y for (x, y) in st['R'] if x == r0 and y != r0)
                    if any(ub.values()):
                        self.upper_bounds[bb] = ub
            elif t['k'] == 'call':
                self.call_args[bb] = [self.operand(st, a) for a in t['args']]
        return self

    def join_states(self, a, b):
        out = self.new_state()
        for l in set(a['L']) & set(b['L']):
            v = join_iv(a['L'][l], b['L'][l])
            if v is not None:
                out['L'][l] = v
        for k in set(a['M']) & set(b['M']):
            v = join_iv(a['M'][k], b['M'][k])
            if v is not None:
                out['M'][k] = v
        for t in set(a['C']) & set(b['C']):
            if a['C'][t] == b['C'][t]:
                out['C'][t] = a['C'][t]
        mf = dict(a.get('MF', {}))
        mf.update(b.get('MF', {}))
        out['MF'] = mf
        out['R'] = set(a.get('R', ())) & set(b.get('R', ()))
        return out

    def widen(self, old, new):
        out = self.copy_state(new)
        out['MF'] = dict(new.get('MF', {}))
        out['R'] = set(new.get('R', ())) & set(old.get('R', ()))
        for l, v in list(new['L'].items()):
            o = old['L'].get(l)
            if o is None or v == o:
                continue
            if v[0] in ('ovf', 'tup') or o[0] in ('ovf', 'tup'):
                if v != o:
                    out['L'].pop(l, None)
                continue
            rng = ty_range(self.lty(l)) or (-2 ** 200, 2 ** 200)
            out['L'][l] = (rng[0] if v[0] < o[0] else v[0], rng[1] if v[1] > o[1] else v[1])
        for k, v in list(new['M'].items()):
            o = old['M'].get(k)
            if o is not None and v != o:
                out['M'].pop(k, None)
        return out

    @staticmethod
    def state_eq(a, b):
        return a['L'] == b['L'] and a['M'] == b['M'] and a['C'] == b['C'] and a.get('R', set()) == b.get('R', set())


# --------------------------------------------------------------------------- field invariants

def field_invariants(facts, adt_path, fields, module_prefix):
    """interval invariants of private integer fields, established at every struct-literal site of the type in the
    crate; returns ({(adt, field): interval}, problems list). The invariant only holds if no code stores to the field
    outside literals (checked over the bodies of the defining module)."""
    inv = {}
    problems = []
    adt = facts.adts.get(adt_path)
    if adt is None:
        return inv, ['type %s not found' % adt_path]
    fdefs = {f['name']: f for f in adt['variants'][0]['fields']}
    for f in fields:
        if f not in fdefs:
            problems.append('field %s.%s not found' % (adt_path, f))
        elif fdefs[f]['pub']:
            problems.append('field %s.%s is public: users may set it, no invariant' % (adt_path, f))
    sites = 0
    vals = {f: None for f in fields}
    for b in facts.body_list:
        has = False
        for bb in range(b.n):
            for s in b.stmts(bb):
                if s['k'] == 'assign' and s['r']['k'] == 'agg' and s['r'].get('adt') == adt_path:
                    has = True
        if not has:
            continue
        if not b.path.startswith(module_prefix) and 'Deserialize' not in b.path:
            problems.append('literal of %s outside its module in %s' % (adt_path, b.path))
        if 'Deserialize' in b.path or 'deserialize' in b.path:
            # derived deserialisers build the struct from unvalidated input
            for f in fields:
                vals[f] = join_iv_opt(vals[f], ty_range(fdefs[f]['ty']) if f in fdefs else None, first=(vals[f] is None and sites == 0))
            sites += 1
            continue
        ia = Intervals(b, facts).run()
        for (bb, i, a, v) in ia.agg_values:
            if a != adt_path:
                continue
            sites += 1
            for f in fields:
                iv = v.get(f)
                if iv is None or iv[0] in ('ovf', 'tup'):
                    iv = ty_range(fdefs[f]['ty']) if f in fdefs else None
                vals[f] = iv if vals[f] is None else join_iv(vals[f], iv)
    # stores to the field anywhere in the crate
    for b in facts.body_list:
        for bb in range(b.n):
            for s in b.stmts(bb):
                if s['k'] != 'assign' or 'pj' not in s['p']:
                    continue
                pj = s['p']['pj']
                pjt = s['p'].get('pjt', [])
                for i, el in enumerate(pj):
                    if isinstance(el, dict) and 'f' in el and el['n'] in fields and i < len(pjt) and \
                            re.sub(r'<.*$', '', pjt[i]) == adt_path:
                        if i == len(pj) - 1:
                            problems.append('field %s.%s is assigned in %s' % (adt_path, el['n'], b.path))
    for f in fields:
        if vals[f] is not None:
            inv[(adt_path, f)] = vals[f]
    return inv, problems, sites


def join_iv_opt(a, b, first=False):
    if a is None:
        return b
    if b is None:
        return a
    return join_iv(a, b)


# --------------------------------------------------------------------------- obligations

def canon_names(body):
    """positional canonical names of user locals: independent of identifiers"""
    names = {}
    n = 0
    for l, d in enumerate(body.locals):
        if l == 0:
            continue
        if l <= body.arg_count:
            names[l] = 'arg%d' % l
        elif d.get('user') or d.get('iuser'):
            names[l] = 'v%d' % n
            n += 1
    return names


CANON_INLINE_USER = os.environ.get('VERIF_PO_CANON', 'new') != 'old'


def canon_expr(body, o, names=None):
    """canonical operand text of an obligation key. Single-assignment `let` bindings are looked through (so naming a
    sub-expression, or caching a field in a local, does not change a key); variables assigned more than once are named
    positionally (v<N>, alpha-renamed to x<K> per key)."""
    names = names or canon_names(body)
    e = strip_casts(body.expr_operand(o, inline_user=True if CANON_INLINE_USER else False))
    return canon_fmt(e, names)


CANON_V3 = os.environ.get('VERIF_PO_CANON', 'new') not in ('old', 'v2')
CANON_V4 = os.environ.get('VERIF_PO_CANON', 'new') not in ('old', 'v2', 'v3')
CANON_V9 = os.environ.get('VERIF_PO_CANON', 'new') not in ('old', 'v2', 'v3', 'v4', 'v5', 'v6', 'v7', 'v8')
COMMUTATIVE_BIN = ('Add', 'Mul', 'BitAnd', 'BitOr', 'BitXor', 'Eq', 'Ne', 'AddUnchecked', 'MulUnchecked')
COMMUTATIVE_CALLS = ('min', 'max', 'wrapping_add', 'wrapping_mul')


def _locals_in(e, out):
    if isinstance(e, tuple):
        if e and e[0] == 'local' and len(e) > 1 and isinstance(e[1], int):
            out.add(e[1])
        for x in (e[1:] if e and isinstance(e[0], str) else e):
            _locals_in(x, out)
    elif isinstance(e, list):
        for x in e:
            _locals_in(x, out)
    return out


def _vtext(e):
    """identity of an opaque leaf: its text plus the locals it is built from - two loops both iterate over a compiler
    temporary called `iter`, their variables are different variables (v9)"""
    t = fmt(e)
    if CANON_V9:
        ls = sorted(_locals_in(e, set()))
        if ls:
            t += '#' + ','.join(str(x) for x in ls)
    return t


def _var(names, text):
    """positional variable for an opaque leaf (alpha-renamed per key later)"""
    tab = names.setdefault('#opaque', {})
    if text not in tab:
        tab[text] = 'v%d' % (1000 + len(tab))
    return tab[text]


def _is_iter_payload(e):
    """(X::next(..) as Some).0[.k]* - the loop variable of a `for` over any iterator"""
    while isinstance(e, tuple) and e[0] in ('field', 'deref', 'ref'):
        e = e[1]
    if isinstance(e, tuple) and e[0] == 'downcast' and e[2] == 'Some':
        c = e[1]
        while isinstance(c, tuple) and c[0] in ('deref', 'ref'):
            c = c[1]
        return isinstance(c, tuple) and c[0] == 'call' and (c[1] or '').rsplit('::', 1)[-1] in ('next', 'next_back')
    return False


def _is_temp_projection(e, names):
    """t.0 / (t as V).0: projections of a local that could not be resolved to an expression"""
    while isinstance(e, tuple) and e[0] in ('field', 'deref', 'ref', 'downcast', 'cindex'):
        e = e[1]
    return isinstance(e, tuple) and e[0] == 'local' and e[1] not in names


def canon_fmt(e, names):
    if not isinstance(e, tuple):
        return str(e)
    k = e[0]
    if CANON_V3 and k in ('field', 'deref', 'ref', 'downcast', 'local', 'cindex'):
        # loop variables and values of locals assigned on several paths are opaque variables: how a loop variable is
        # produced (range, enumerate, zip) or how a two-armed value is carried (tuple field, deferred `let`) is not
        # part of the obligation's identity
        if _is_iter_payload(e):
            return _var(names, _vtext(e))
        if k != 'local' and _is_temp_projection(e, names):
            return _var(names, _vtext(e))
        if k == 'local' and e[1] not in names:
            return _var(names, _vtext(e))
    if CANON_V7 and k == 'field' and str(e[2]) == '0' and isinstance(e[1], tuple) and e[1][0] == 'downcast' and \
            e[1][2] in ('Some', 'Ok', 'Continue'):
        # the value carried by a successful Option / Result, however it is taken out (`if let Some(x)`, `?`, match)
        inner = e[1][1]
        while isinstance(inner, tuple) and inner[0] in ('deref', 'ref'):
            inner = inner[1]
        if isinstance(inner, tuple) and inner[0] == 'call' and (inner[1] or '').endswith('Try>::branch') and len(inner[2]) == 1:
            inner = inner[2][0]
        return 'val(%s)' % canon_fmt(inner, names)
    if k == 'local':
        return names.get(e[1], 't')
    if k == 'const':
        if e[3]:
            return e[3].rsplit('::', 1)[-1]
        return str(e[1]) if not isinstance(e[1], tuple) else 'lit'
    if k == 'field':
        return '%s.%s' % (canon_fmt(e[1], names), e[2])
    if k in ('deref', 'ref'):
        return canon_fmt(e[1], names)
    if k == 'index':
        base_, idx_ = canon_fmt(e[1], names), canon_fmt(e[2], names)
        if CANON_V7 and re.fullmatch(r'v\d+', idx_) and re.fullmatch(r'arg\d+(\.\w+)*', base_):
            # element of a parameter slice at a loop variable: the same value a zip / iter over that slice yields
            return _var(names, 'elem:' + base_ + ':' + idx_)
        return '%s[%s]' % (base_, idx_)
    if k == 'cindex':
        return '%s[%d]' % (canon_fmt(e[1], names), e[2])
    if k == 'downcast':
        return '(%s as %s)' % (canon_fmt(e[1], names), e[2])
    if CANON_V8 and (k == 'bin' and e[1].replace('WithOverflow', '').replace('Unchecked', '') in ('Add', 'Sub', 'Mul') or
                     k == 'field' and str(e[2]) == '0' and isinstance(e[1], tuple) and e[1][0] == 'bin' and
                     e[1][1].endswith('WithOverflow')):
        # integer arithmetic is written in polynomial normal form: `(q + 1) * k` and `q * k + k` are the same operand
        from .poly import poly, pstr
        pe = poly(e, atom=lambda x: canon_fmt(x, names))
        return 'P[%s]' % pstr(pe)
    if k == 'bin':
        a_, b_ = canon_fmt(e[2], names), canon_fmt(e[3], names)
        op = e[1].replace('WithOverflow', '')
        if CANON_V4 and op in COMMUTATIVE_BIN and b_ < a_:
            a_, b_ = b_, a_        # operand order of a commutative operation is not part of the identity
        return '%s(%s,%s)' % (op, a_, b_)
    if k == 'un':
        return '%s(%s)' % (e[1], canon_fmt(e[2], names))
    if k == 'cast':
        return canon_fmt(e[1], names)
    if k == 'call':
        from .mirlib import short
        args = [canon_fmt(a, names) for a in e[2]]
        if CANON_V4 and len(args) == 2 and (e[1] or '').rsplit('::', 1)[-1] in COMMUTATIVE_CALLS:
            args.sort()
        return '%s(%s)' % (short(e[1]), ','.join(args))
    if k == 'fnconst':
        from .mirlib import short
        if CANON_V9:
            # a function handed over by value is a closure that captures nothing (`.map(|s| s.to_owned())` / `.map(str::to_owned)`)
            return 'closure{}'
        return short(e[1])
    if k == 'agg':
        from .mirlib import short
        if CANON_V4 and e[1] == 'closure':
            # a closure literal is identified by what it captures, not by the function it happens to be written in
            return 'closure{%s}' % ','.join(canon_fmt(a, names) for a in e[3])
        return '%s{%s}' % (short(e[2]), ','.join(canon_fmt(a, names) for a in e[3]))
    return '?'


MAY_PANIC = [
    # (regex on callee path, kind)
    (r'Option::<T>::(unwrap|expect)$', 'unwrap'),
    (r'Result::<T, E>::(unwrap|expect|unwrap_err|expect_err)$', 'unwrap'),
    (r'ops::Index::index$', 'index'),
    (r'ops::IndexMut::index_mut$', 'index'),
    (r'slice::<impl \[T\]>::(split_at|split_at_mut|copy_from_slice|clone_from_slice|swap|chunks|windows|chunks_exact|rotate_left|rotate_right)$', 'slice-api'),
    (r'str::<impl str>::(split_at)$', 'slice-api'),
    (r'Vec::<T, A>::(remove|insert|swap_remove|split_off|drain|truncate_front)$', 'vec-api'),
    (r'panicking::(panic|panic_fmt|panic_display|panic_str|begin_panic|unreachable_display|panic_explicit|assert_failed|panic_nounwind)', 'explicit-panic'),
    (r'rt::(begin_panic|panic_fmt)', 'explicit-panic'),
    (r'RefCell::<T>::(borrow|borrow_mut)$', 'refcell'),
    (r'(from_utf8_unchecked)$', 'unchecked'),
]
_MP = [(re.compile(r), k) for r, k in MAY_PANIC]


def alpha(ops):
    """rename positional variable names v<N> in order of first appearance: keys become independent of unrelated
    local declarations"""
    m = {}

    def sub(mo):
        k = mo.group(0)
        if k not in m:
            m[k] = 'x%d' % len(m)
        return m[k]
    return re.sub(r'\bv\d+\b', sub, ops)


def obligations(body, ia=None):
    """list of dict(kind, key, bb, discharged, detail)"""
    out = _obligations(body, ia)
    for o in out:
        o['ops_raw'] = o['ops']
        o['ops'] = alpha(o['ops'])
    return out


def _merged_obligations(nb, ia, own_only=False):
    """obligations of an inlined/threaded body, one per (kind, operands, original block): a block duplicated by jump
    threading yields one obligation that is discharged only if every copy is"""
    merged = {}
    order = []
    for o in obligations(nb, ia):
        blk = nb.blocks[o['bb']]
        if own_only and blk.get('inl'):
            continue
        k = (o['kind'], o['ops'], blk.get('clone_of', o['bb']))
        if k in merged:
            merged[k]['discharged'] = merged[k]['discharged'] and o['discharged']
        else:
            merged[k] = o
            order.append(k)
    return [merged[k] for k in order]


def obligations_in_context(facts, body, keep=None):
    """obligations of `body` itself, decided on the body with its private helpers analysed in place (rules/inline.py):
    facts established by a helper (a validation returning Err, an assertion) refine the caller's state. Obligations
    located in the inlined blocks are not reported here - they are reported when the helper's own body is analysed."""
    from . import inline
    nb = inline.inlined(facts, body, keep)
    ia = Intervals(nb, facts).run()
    if nb is body:
        return obligations(body, ia)
    return _merged_obligations(nb, ia, own_only=True)


CANON_V5 = os.environ.get('VERIF_PO_CANON', 'new') not in ('old', 'v2', 'v3', 'v4')
CANON_V6 = os.environ.get('VERIF_PO_CANON', 'new') not in ('old', 'v2', 'v3', 'v4', 'v5')
CANON_V7 = os.environ.get('VERIF_PO_CANON', 'new') not in ('old', 'v2', 'v3', 'v4', 'v5', 'v6')
CANON_V8 = os.environ.get('VERIF_PO_CANON', 'new') not in ('old', 'v2', 'v3', 'v4', 'v5', 'v6', 'v7')


class KeyBody(object):
    """a body presented to the rules under the path its obligations are keyed by (closures: their root function)"""
    def __init__(self, body, path):
        self._b = body
        self.path = path
        self.key_path = path

    def __getattr__(self, name):
        return getattr(self._b, name)


def closure_vocabulary(facts, cb, depth=0):
    """for a closure body: (path of the function it is written in, {captured variable name: canonical text of that
    variable in the enclosing function}). Obligations of a closure are keyed in the vocabulary of the enclosing function,
    so moving arithmetic between a closure and its parent does not change a key."""
    parent_path = cb.raw.get('parent') or cb.raw.get('root')
    pb = facts.bodies.get(parent_path) if parent_path else None
    if pb is None or depth > 3:
        return cb.path, {}
    pv = facts.view(pb)
    lit = None
    for cand in (pv, pb):
        for bb in range(cand.n):
            for st in cand.stmts(bb):
                if st['k'] == 'assign' and st['r'].get('k') == 'agg' and st['r'].get('ak') == 'closure' and \
                        st['r'].get('closure') == cb.path:
                    lit = (cand, st)
        if lit:
            break
    if lit is None:
        return cb.path, {}
    cand, st = lit
    names = canon_names(cand)
    vocab = {}
    ups = cb.raw.get('upvars') or []
    for k, u in enumerate(ups):
        if k < len(st['r']['ops']) and u.get('name'):
            vocab[u['name']] = canon_expr(cand, st['r']['ops'][k], names)
    root_path = parent_path
    if pb.kind == 'Closure':
        root_path, pvocab = closure_vocabulary(facts, pb, depth + 1)
        # captured variables of the parent closure, expressed once more in its parent's vocabulary
        for k in list(vocab):
            vocab[k] = _subst_upvars(vocab[k], pvocab)
    return root_path, vocab


def _subst_upvars(text, vocab):
    if not vocab:
        return text
    return re.sub(r'arg1\.\^(\w+)', lambda m: vocab.get(m.group(1), m.group(0)), text)


def _po_policy(facts, caller, callee, keep):
    return callee.kind in ('Fn', 'AssocFn', 'Closure') and not (keep is not None and keep(callee.path)) and len(callee.blocks) <= 120


def _fn_item_user(facts, b):
    """the single known function that passes the (new) function b by value (`prescan(.., add_counts)`), else None"""
    users = set()
    for c in facts.body_list:
        for blk in c.blocks:
            t = blk['t']
            if t['k'] == 'call':
                for a in t['args']:
                    k = a.get('k') if isinstance(a, dict) else None
                    if isinstance(k, dict) and (k.get('res') or k.get('fn')) == b.path:
                        users.add(c.path)
    return list(users)[0] if len(users) == 1 else None


def _keyed(facts, b, obs):
    """closures: re-express the operands of their obligations in the vocabulary of the enclosing function and key them by it"""
    if CANON_V7 and b.kind in ('Fn', 'AssocFn'):
        # a function that did not exist at audit time and is only handed to an adaptor by value replaces a closure
        try:
            from .po_known import KNOWN
        except ImportError:
            KNOWN = ()
        if b.path not in KNOWN:
            user = _fn_item_user(facts, b)
            if user is not None:
                for o in obs:
                    o['ops'] = alpha(re.sub(r'\barg(\d)\b', r'v8\1', o.get('ops_raw', o['ops'])))
                return KeyBody(b, user)
        return b
    if b.kind != 'Closure' or not CANON_V5:
        return b
    root, vocab = closure_vocabulary(facts, b)
    # variables of the enclosing function get their own number space before the per-key alpha renaming
    vocab = {k: re.sub(r'\bv(\d+)\b', r'v7\1', v) for k, v in vocab.items()}
    for o in obs:
        txt = o.get('ops_raw', o['ops'])
        if CANON_V6:
            # the closure's own parameters (the element handed in by map / fold / for_each) are loop variables of the
            # enclosing function once the closure is written as a loop: name them as variables (before the captured
            # variables are replaced by the enclosing function's expressions, which may mention its parameters)
            txt = re.sub(r'\barg([2-9])\b', r'v8\1', txt)
        txt = _subst_upvars(txt, vocab)
        o['ops'] = alpha(txt)
    return KeyBody(b, root)


def scan(facts, bodies, known, field_inv=None):
    """Enumerate panic obligations for an audited rule so that keys survive helper extraction.

    `known` is the frozen set of function paths that existed when the rule's table was audited. Functions in it are
    analysed as themselves. A function that is *not* in it (a helper extracted later) is analysed in place inside every
    known caller: its obligations appear under the caller's key with the caller's operand names - exactly where they were
    before the extraction - and it is not analysed a second time on its own. A new function that cannot be analysed in
    place (too large, recursive, only reached through a closure) is analysed on its own, so nothing is skipped.
    Yields (body, analysed_body, intervals, obligations)."""
    from . import inline
    known = frozenset(known)
    keep = lambda p: p in known
    out = []
    covered = set()
    later = []
    for b in bodies:
        if b.path not in known and b.kind in ('Fn', 'AssocFn', 'Closure'):
            later.append(b)
            continue
        nb = inline.inlined(facts, b, keep, policy=_po_policy)
        covered.update(getattr(nb, 'inlined_callees', []))
        ia = Intervals(nb, facts, field_inv=field_inv).run() if field_inv is not None else Intervals(nb, facts).run()
        obs = obligations(b, ia) if nb is b else _merged_obligations(nb, ia)
        out.append((_keyed(facts, b, obs), nb, ia, obs))
    for b in later:
        if b.path in covered:
            continue
        nb = inline.inlined(facts, b, keep, policy=_po_policy)
        covered.update(getattr(nb, 'inlined_callees', []))
        ia = Intervals(nb, facts, field_inv=field_inv).run() if field_inv is not None else Intervals(nb, facts).run()
        obs = obligations(b, ia) if nb is b else _merged_obligations(nb, ia)
        out.append((_keyed(facts, b, obs), nb, ia, obs))
    # fail closed: a call to a crate function that is neither known, nor analysed in place, nor in the rule's body list
    listed = {b.path for b in bodies}
    for (b, nb, ia, obs) in out:
        for bb, t in nb.calls():
            info = call_info(t)
            if not info or info.get('crate') != facts.crate:
                continue
            cp = info.get('res') or info['fn']
            cb = facts.bodies.get(cp) or facts.bodies.get(info['fn'])
            if cb is None or cb.kind not in ('Fn', 'AssocFn'):
                continue
            if cb.path in known or cb.path in listed or cb.path in covered:
                continue
            if not cb.path.startswith(b.path.rsplit('::', 2)[0]):
                continue        # other modules: outside this rule's scope, as before
            obs.append({'kind': 'unanalysed-callee', 'ops': short(cb.path), 'bb': bb, 'discharged': False,
                        'where': nb.loc(bb), 'detail': 'new function %s is called here but could not be analysed in place' % cb.path,
                        'ty': ''})
    return out


def _obligations(body, ia=None):
    names = canon_names(body)
    out = []
    reach = body.reachable(0)
    for bb in sorted(reach):
        t = body.term(bb)
        if t['k'] == 'assert':
            m = t['msg']
            kind = m['k']
            if kind == 'bounds':
                ops = 'idx=%s,len=%s' % (canon_expr(body, m['index'], names), canon_expr(body, m['len'], names))
            elif kind == 'overflow':
                kind = 'overflow-' + m['op'].lower()
                oa, ob = canon_expr(body, m['a'], names), canon_expr(body, m['b'], names)
                if CANON_V4 and m['op'] in ('Add', 'Mul') and ob < oa:
                    oa, ob = ob, oa
                ops = '%s,%s' % (oa, ob)
            elif kind in ('divzero', 'remzero', 'overflow_neg'):
                ops = canon_expr(body, m['a'], names)
            else:
                # compiler inserted UB checks are not obligations of the source program
                continue
            dis = bool(ia and ia.assert_results.get(bb)) if ia is not None else False
            if ia is not None and bb not in ia.instates:
                dis = True  # unreachable under the analysis
            oty = ''
            for kk in ('a', 'index'):
                if kk in m and isinstance(m[kk], dict):
                    pl_ = m[kk].get('c') or m[kk].get('m')
                    if pl_ is not None:
                        oty = pl_.get('ty') or body.locals[pl_['l']]['ty']
                    elif 'k' in m[kk]:
                        oty = m[kk]['k'].get('ty', '')
                    break
            alts = []
            if ia is not None and kind in ('overflow-add', 'overflow-mul') and getattr(ia, 'upper_bounds', {}).get(bb):
                for side, ys in ia.upper_bounds[bb].items():
                    for y in ys:
                        ya = canon_expr(body, {'c': {'l': y}}, names)
                        pa, pb = (ya, canon_expr(body, m['b'], names)) if side == 'a' else (canon_expr(body, m['a'], names), ya)
                        if CANON_V4 and pb < pa:
                            pa, pb = pb, pa
                        alts.append('%s,%s' % (pa, pb))
            out.append({'kind': kind, 'ops': ops, 'bb': bb, 'discharged': dis, 'where': body.loc(bb),
                        'detail': t.get('dbg', '')[:160], 'ty': oty, 'alts': alts})
        elif t['k'] == 'call':
            info = call_info(t)
            if info is None:
                continue
            fn = info['fn']
            msh = re.search(r'<impl ([ui](?:\d+|size))>::(wrapping|overflowing|unchecked)_sh[lr]$', fn)
            if msh:
                # the shift amount is silently reduced modulo the bit width: an amount >= width is (almost) never meant
                bits = BITS.get(msh.group(1), 64)
                iv = (ia.call_args.get(bb) or [None, None])[1] if ia is not None and len(t['args']) > 1 else None
                dis = iv is not None and iv[0] not in ('ovf', 'tup') and 0 <= iv[0] and iv[1] < bits
                if ia is not None and bb not in ia.instates:
                    dis = True
                out.append({'kind': 'shift-amount', 'ops': '%s(%s)<%d' % (fn.rsplit('::', 1)[-1], ','.join(
                    canon_expr(body, a, names) for a in t['args'][:2]), bits), 'bb': bb, 'discharged': dis,
                    'where': body.loc(bb), 'detail': '%s: shift amount in %s, must be < %d' % (fn, iv, bits)})
                continue
            for rx, kind in _MP:
                if rx.search(fn):
                    args = ','.join(canon_expr(body, a, names) for a in t['args'][:2])
                    selfty = (info.get('args') or [''])[0]
                    dead = ia is not None and bb not in ia.instates
                    out.append({'kind': kind, 'ops': '%s(%s)<%s>' % (fn.rsplit('::', 1)[-1], args, selfty), 'bb': bb,
                                'discharged': dead, 'where': body.loc(bb), 'detail': fn, 'exp': bool(t.get('exp'))})
                    break
    return out


def _split_top(s):
    out, depth, cur = [], 0, ''
    for ch in s:
        if ch in '([{':
            depth += 1
        elif ch in ')]}':
            depth -= 1
        if ch == ',' and depth == 0:
            out.append(cur)
            cur = ''
        else:
            cur += ch
    out.append(cur)
    return out


def sum_terms(ops):
    """multiset (sorted list) of the summands of a canonical `a,b` overflow-add operand pair, nested additions flattened"""
    terms = []
    work = _split_top(ops)
    while work:
        t = work.pop()
        m = re.fullmatch(r'Add(?:Unchecked)?\((.*)\)(?:\.0)?', t)
        if m and len(_split_top(m.group(1))) == 2:
            work.extend(_split_top(m.group(1)))
        else:
            terms.append(t)
    return sorted(terms)


def implied_partial_sum(key, audit, unsigned=True):
    """an unsigned overflow-add obligation whose summands are a sub-multiset of the summands of an audited overflow-add
    obligation of the same function cannot overflow either (every partial sum of non-negative terms is <= the full sum):
    returns the audited key it follows from, else None"""
    if not unsigned:
        return None
    parts = key.split('|')
    if len(parts) < 3 or not parts[1].startswith('overflow-add'):
        return None
    mine = sum_terms(parts[2])
    for k in audit:
        p2 = k.split('|')
        if len(p2) < 3 or p2[0] != parts[0] or p2[1] != parts[1] or k == key:
            continue
        theirs = sum_terms(p2[2])
        rest = list(theirs)
        ok = True
        for t in mine:
            if t in rest:
                rest.remove(t)
            else:
                ok = False
                break
        if ok and len(theirs) >= len(mine):
            return k
    return None


def _balanced(s):
    d = 0
    for ch in s:
        if ch in '([{':
            d += 1
        elif ch in ')]}':
            d -= 1
            if d < 0:
                return False
    return d == 0


def orphan_match(key, audit, present_paths):
    """A known function that was inlined into its caller and deleted leaves its audited entries without an owner, and its
    arithmetic reappears in the caller under the caller's name and operand names. Returns the orphaned audited key that
    `key` is an instance of (same obligation kind, operands equal up to a consistent substitution of the parameter /
    variable names of the removed function by expressions of the caller), else None."""
    parts = key.split('|')
    if len(parts) < 3:
        return None
    for k in audit:
        p2 = k.split('|')
        if len(p2) < 3 or p2[1] != parts[1] or p2[0] in present_paths or p2[0] == parts[0]:
            continue
        # the function of the audited entry no longer exists (also not under a new name: renames are applied earlier)
        toks = re.split(r'(\barg\d+\b|\bx\d+\b)', p2[2])
        rx = ''
        groups = {}
        for t in toks:
            if re.fullmatch(r'arg\d+|x\d+', t):
                if t in groups:
                    rx += '(?P=%s)' % groups[t]
                else:
                    groups[t] = 'g%d' % len(groups)
                    rx += '(?P<%s>.+?)' % groups[t]
            else:
                rx += re.escape(t)
        m = re.fullmatch(rx, parts[2])
        if m and all(_balanced(v) for v in m.groupdict().values()):
            return k
    return None


def _split_depth(s, sep):
    out, depth, cur, i = [], 0, '', 0
    while i < len(s):
        ch = s[i]
        if ch in '([{':
            depth += 1
        elif ch in ')]}':
            depth -= 1
        if depth == 0 and s.startswith(sep, i):
            out.append(cur)
            cur = ''
            i += len(sep)
            continue
        cur += ch
        i += 1
    out.append(cur)
    return out


def parse_poly(text):
    """inverse of the canonical operand syntax: `P[2*a*b + c + -1]` (or a plain atom / integer) -> {monomial tuple: coeff}"""
    text = text.strip()
    if text.endswith('.0') and text.startswith('P['):
        text = text[:-2]
    if text.startswith('P[') and text.endswith(']'):
        body = text[2:-1]
        out = {}
        if body == '0':
            return out
        for term in _split_depth(body, ' + '):
            fs = _split_depth(term, '*')
            coef = 1
            atoms = []
            for f in fs:
                if re.fullmatch(r'-?\d+', f):
                    coef *= int(f)
                else:
                    atoms.append(f)
            m = tuple(sorted(atoms))
            out[m] = out.get(m, 0) + coef
        return {m: c for m, c in out.items() if c}
    if re.fullmatch(r'-?\d+', text):
        return {(): int(text)} if int(text) else {}
    return {(text,): 1}


def _pmul(a, b):
    out = {}
    for m1, c1 in a.items():
        for m2, c2 in b.items():
            m = tuple(sorted(m1 + m2))
            out[m] = out.get(m, 0) + c1 * c2
    return {m: c for m, c in out.items() if c}


def result_poly(key):
    """polynomial of the value computed by the operation an overflow-add / -mul obligation is about"""
    parts = key.split('|')
    if len(parts) < 3:
        return None
    kind = parts[1].split(':')[0]
    if kind not in ('overflow-add', 'overflow-mul'):
        return None
    ops = _split_depth(parts[2], ',')
    if len(ops) != 2:
        return None
    a, b = parse_poly(ops[0]), parse_poly(ops[1])
    if kind == 'overflow-add':
        out = dict(a)
        for m, c in b.items():
            out[m] = out.get(m, 0) + c
        return {m: c for m, c in out.items() if c}
    return _pmul(a, b)


def implied_same_value(key, audit, le=False):
    """an unsigned addition / multiplication whose mathematical result is the same polynomial (non-negative coefficients) as
    the result of an audited addition / multiplication of the same function - or, with le=True, term by term at most that
    polynomial (all atoms are unsigned values) - fits the type as well. Returns that key."""
    mine = result_poly(key)
    if not mine or any(c < 0 for c in mine.values()):
        return None
    fn = key.split('|')[0]
    for k in audit:
        if k == key or k.split('|')[0] != fn:
            continue
        theirs = result_poly(k)
        if not theirs or any(c < 0 for c in theirs.values()):
            continue
        if theirs == mine or (le and all(theirs.get(m, 0) >= c for m, c in mine.items())):
            return k
    return None


def implied(key, audit, o):
    """(audited key, reason) if the unaudited obligation `key` follows from an audited one of the same function"""
    if not str(o.get('ty', '')).startswith('u'):
        return None
    for alt in o.get('alts') or ():
        parts = key.split('|')
        k1 = '|'.join(parts[:2] + [alpha(alt)])
        if k1 in audit:
            return k1, 'an operand is bounded by the dominating guard (x <= y), and the audited `%s` fits: %s' % (
                k1.split('|')[2][:80], audit[k1])
    k0 = implied_partial_sum(key, audit)
    if k0:
        return k0, 'partial sum of unsigned terms of the audited sum `%s`: %s' % (k0.split('|')[2][:80], audit[k0])
    k0 = implied_same_value(key, audit, le=True)
    if k0:
        return k0, 'unsigned value that is term by term at most the value of the audited operation `%s`: %s' % (
            k0.split('|')[2][:80], audit[k0])
    return None
