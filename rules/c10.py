"""C10 Myers traceback — GD-2 (lazy refusal), EF-3 (lazy API reaches the traceback only through the guarded entry),
GD-3 (eager refusal after an unsuccessful search), TS-5 (state store re-initialised by Traceback::new for every
search), TB-9 (Subst/Match labelling guard)."""
from . import eng_gd
from .mirlib import call_info, strip, strip_casts, fmt, norm_cmp

LEVEL = 'proof'
TB = 'pattern_matching::myers::traceback::Traceback::<\'a, T, D, H>::'


def gd2(facts, rep):
    rule = 'GD-2'
    rep.rule(rule, 'lazy refusal: in Traceback::traceback_at the call of _traceback_at is dominated by the edge on which '
                   'pos + 2 <= self.pos holds (position already searched) and the other edge returns None')
    b = facts.body(TB + 'traceback_at')
    if b is None:
        rep.missing(rule, TB + 'traceback_at', 'not found')
        return
    rep.analysed_body(b)
    key = 'Traceback::traceback_at|guard'
    hit = None
    for g in eng_gd.guards(b):
        e = strip_casts(g['expr'])
        if e[0] == 'bin' and e[1] in ('Le', 'Ge', 'Lt', 'Gt'):
            c = norm_cmp(e, True)
            # accept: (pos + 2) Le self.pos   in any orientation
            if c and c[0] == 'Le' and c[2] == 'self.pos' and c[1].replace('WithOverflow', '') in (
                    'Add(%s, 2).0' % b.local_name(2), 'Add(%s, 2)' % b.local_name(2)):
                hit = (g, True)
            cf = norm_cmp(e, False)
            if cf and cf[0] == 'Le' and cf[2] == 'self.pos' and cf[1].replace('WithOverflow', '') in (
                    'Add(%s, 2).0' % b.local_name(2), 'Add(%s, 2)' % b.local_name(2)):
                hit = (g, False)
    if hit is None:
        rep.bad(rule, key, '%s:%s' % (b.file, b.line), 'no guard `pos + 2 <= self.pos` (guards: %s)' % [g['text'] for g in eng_gd.guards(b)])
        return
    g, pol = hit
    go = g['t'] if pol else g['f']
    refuse = g['f'] if pol else g['t']
    calls = [bb for bb, t in b.calls() if call_info(t) and call_info(t)['fn'].endswith('::_traceback_at')]
    none = any(s['k'] == 'assign' and s['p']['l'] == 0 and s['r']['k'] == 'agg' and s['r'].get('variant') == 'None'
               for x in eng_gd.region(b, refuse) - eng_gd.region(b, go) for s in b.stmts(x))
    if not calls or any(not b.edge_dominates((g['bb'], go), c) for c in calls):
        rep.bad(rule, key, b.loc(g['bb']), '_traceback_at is reachable without the `already searched` test')
    elif not none:
        rep.bad(rule, key, b.loc(g['bb']), 'a position that was not searched yet is not refused with None')
    else:
        rep.ok(rule, key, b.loc(g['bb']), '_traceback_at only behind pos + 2 <= self.pos; else None')


def ef3_gd3(facts, rep):
    rule = 'EF-3'
    rep.rule(rule, 'who-may-call: LazyMatches::{hit_at,path_at,path_at_reverse,alignment_at} reach the traceback only through '
                   'the guarded Traceback::traceback_at; the unguarded Traceback::traceback / _traceback_at are called only '
                   'from FullMatches and from traceback_at')
    n = 0
    for mod in ('simple', 'long'):
        for nm in ('hit_at', 'path_at', 'path_at_reverse', 'alignment_at'):
            b = facts.one(r'^pattern_matching::myers::%s::myers_impl::LazyMatches::<.*>::%s$' % (mod, nm))
            key = 'myers::%s::LazyMatches::%s|only-guarded-traceback' % (mod, nm)
            if b is None:
                rep.missing(rule, key, 'not found')
                continue
            n += 1
            reach = facts.reachable_bodies([b], trait_impls=False)
            direct = set()
            for k in reach:
                bb_ = facts.bodies[k]
                if 'LazyMatches' not in bb_.path:
                    continue
                rep.analysed_body(bb_)
                for _x, t in bb_.calls():
                    info = call_info(t)
                    if info and info['fn'].startswith('pattern_matching::myers::traceback::Traceback::'):
                        direct.add(info['fn'].rsplit('::', 1)[-1])
            if direct - {'traceback_at'}:
                rep.bad(rule, key, '%s:%s' % (b.file, b.line), 'lazy query calls Traceback::%s directly, bypassing the `already '
                                                               'searched` refusal' % sorted(direct - {'traceback_at'}))
            elif 'traceback_at' in direct:
                rep.ok(rule, key, '%s:%s' % (b.file, b.line), 'via traceback_at')
            else:
                rep.bad(rule, key, '%s:%s' % (b.file, b.line), 'does not reach Traceback::traceback_at')
    rep.floor(rule, 'lazy query methods (2 instantiations)', n, 8)
    callers = {}
    for b in facts.body_list:
        for _bb, t in b.calls():
            info = call_info(t)
            if info and info['fn'] in (TB + 'traceback', TB + '_traceback_at'):
                callers.setdefault(info['fn'].rsplit('::', 1)[-1], set()).add(b.path)
    key = 'Traceback::_traceback_at|callers'
    bad = [c for c in callers.get('_traceback_at', set()) if not c.startswith(TB[:-2])]
    if bad:
        rep.bad(rule, key, '', '_traceback_at is called from %s' % bad)
    else:
        rep.ok(rule, key, '', 'only from Traceback::{traceback, traceback_at}')
    key = 'Traceback::traceback|callers'
    bad = [c for c in callers.get('traceback', set()) if 'FullMatches' not in c]
    if bad:
        rep.bad(rule, key, '', 'the unguarded Traceback::traceback is called from %s' % bad)
    else:
        rep.ok(rule, key, '', 'only from FullMatches (%d sites)' % len(callers.get('traceback', ())))
    rule = 'GD-3'
    rep.rule(rule, 'eager refusal: FullMatches::{start,path_reverse,alignment} call the traceback only on the edge where '
                   '`unsuccessfully_finished` is false')
    n = 0
    for mod in ('simple', 'long'):
        for nm in ('start', 'path_reverse', 'alignment'):
            b = facts.one(r'^pattern_matching::myers::%s::myers_impl::FullMatches::<.*>::%s$' % (mod, nm))
            key = 'myers::%s::FullMatches::%s|refuses-after-unsuccessful-search' % (mod, nm)
            if b is None:
                rep.missing(rule, key, 'not found')
                continue
            n += 1
            rep.analysed_body(b)
            g = None
            for gg in eng_gd.guards(b):
                if fmt(strip(gg['expr'])) == 'self.unsuccessfully_finished':
                    g = gg
            calls = [bb for bb, t in b.calls() if call_info(t) and call_info(t)['fn'] == TB + 'traceback']
            if g is None:
                rep.bad(rule, key, '%s:%s' % (b.file, b.line), 'no test of unsuccessfully_finished')
            elif not calls or any(not b.edge_dominates((g['bb'], g['f']), c) for c in calls):
                rep.bad(rule, key, b.loc(g['bb']), 'the traceback is run although the search finished without a hit (stale columns)')
            else:
                rep.ok(rule, key, b.loc(g['bb']), 'traceback only when a hit exists')
    rep.floor(rule, 'eager query methods (2 instantiations)', n, 6)


def ts5(facts, rep):
    rule = 'TS-5'
    rep.rule(rule, 'state-store re-initialisation: FullMatches::new and LazyMatches::new hand &mut myers.states_store to '
                   'Traceback::new; there the store is resized to n_states (extend or truncate on both edges of the length '
                   'test) before set_max_state, which precedes the first add_state; Traceback values are built nowhere else')
    n = 0
    for mod in ('simple', 'long'):
        for ty in ('FullMatches', 'LazyMatches'):
            b = facts.one(r'^pattern_matching::myers::%s::myers_impl::%s::<.*>::new$' % (mod, ty))
            key = 'myers::%s::%s::new|store-through-Traceback::new' % (mod, ty)
            if b is None:
                rep.missing(rule, key, 'not found')
                continue
            n += 1
            rep.analysed_body(b)
            ok = False
            for bb, t in b.calls():
                info = call_info(t)
                if info and info['fn'] == TB + 'new':
                    e = fmt(strip(b.expr_operand(t['args'][0], inline_user=True)))
                    ok = e.endswith('.states_store')
            if ok:
                rep.ok(rule, key, '%s:%s' % (b.file, b.line), 'Traceback::new(&mut myers.states_store, ..)')
            else:
                rep.bad(rule, key, '%s:%s' % (b.file, b.line), 'the matcher\'s state store is not passed through Traceback::new')
    rep.floor(rule, 'Matches constructors', n, 4)
    b = facts.body(TB + 'new')
    key = 'Traceback::new|resize-then-sentinel-then-first-state'
    if b is None:
        rep.missing(rule, key, 'not found')
        return
    rep.analysed_body(b)

    def sites(pred):
        return [bb for bb, t in b.calls() if call_info(t) and pred(call_info(t)['fn']) and bb in b.reachable(0)]
    grow = sites(lambda f: f.endswith('Extend::extend') or f.endswith('Vec::<T, A>::resize') or f.endswith('resize_with'))
    shrink = sites(lambda f: f.endswith('Vec::<T, A>::truncate') or f.endswith('Vec::<T, A>::resize'))
    smax = sites(lambda f: f.endswith('StatesHandler::set_max_state'))
    add = sites(lambda f: f == TB + 'add_state')
    why = None
    if not grow or not shrink:
        why = 'the store is not resized on both branches (grow %s, shrink %s)' % (grow, shrink)
    elif not smax or not add:
        why = 'set_max_state / add_state missing'
    else:
        # every path entry -> set_max_state passes a resize block
        r = b.reachable(0, removed_blocks=set(grow) | set(shrink))
        if any(x in r for x in smax):
            why = 'a path reaches set_max_state without resizing the store to n_states'
        elif not all(b.dominates(smax[0], a) for a in add):
            why = 'add_state can run before the sentinel max-state was written'
    if why:
        rep.bad(rule, key, '%s:%s' % (b.file, b.line), why)
    else:
        rep.ok(rule, key, '%s:%s' % (b.file, b.line), 'resize (both branches) -> set_max_state -> add_state')
    lits = []
    for bd in facts.body_list:
        for bb in bd.reachable(0):
            for s in bd.stmts(bb):
                if s['k'] == 'assign' and s['r']['k'] == 'agg' and s['r'].get('adt') == 'pattern_matching::myers::traceback::Traceback':
                    if 'as std::clone::Clone>::clone' not in bd.path:
                        lits.append(bd.path)
    key = 'Traceback|constructed-only-in-new'
    if set(lits) == {TB + 'new'}:
        rep.ok(rule, key, '', '1 struct-literal site')
    else:
        rep.bad(rule, key, '', 'Traceback is built in %s' % sorted(set(lits)))


def tb9(facts, rep):
    rule = 'TB-9'
    rep.rule(rule, 'labelling: in _traceback_at the operation Subst is chosen only on the edge where left.dist + 1 == '
                   'block.dist (diagonal step that costs one), Match only when all three other tests failed, Ins only on '
                   'the vertical (pv bit) edge and Del only when move_left_down_if_better() holds')
    b = facts.body(TB + '_traceback_at')
    if b is None:
        rep.missing(rule, TB + '_traceback_at', 'not found')
        return
    rep.analysed_body(b)
    gs = eng_gd.guards(b)
    sub_g = None
    ins_g = None
    del_g = None
    for g in gs:
        t = g['text']
        if t.startswith('eq(') or 'PartialEq' in t or 'wrapping_add' in t:
            if 'wrapping_add' in t and 'left_block' in t:
                sub_g = g
        if 'pos_bitvec' in t:
            ins_g = g
        if 'move_left_down_if_better' in t:
            del_g = g
    ops = {}
    for bb in b.reachable(0):
        for s in b.stmts(bb):
            if s['k'] == 'assign' and s['r']['k'] == 'agg' and s['r'].get('adt', '').endswith('AlignmentOperation'):
                ops.setdefault(s['r']['variant'], []).append(bb)
    key = '_traceback_at|labelling-guards'
    if sub_g is None or ins_g is None or del_g is None:
        rep.bad(rule, key, '%s:%s' % (b.file, b.line), 'the three move tests were not all found (subst %s, ins %s, del %s)' % (
            bool(sub_g), bool(ins_g), bool(del_g)))
        return

    def truth_edge(g):
        # comparison guards built from trait calls: cmp_true known; else text-based: a `Ne(x, 0)` guard's true edge
        return g['t'], g['f']
    st, sf = truth_edge(sub_g)
    it, if_ = truth_edge(ins_g)
    dt, df = truth_edge(del_g)
    why = []
    for v, want in (('Subst', [(sub_g, st)]), ('Ins', [(sub_g, sf), (ins_g, it)]), ('Del', [(ins_g, if_), (del_g, dt)]),
                    ('Match', [(sub_g, sf), (ins_g, if_), (del_g, df)])):
        if v not in ops:
            why.append('%s is never produced' % v)
            continue
        for bb in ops[v]:
            for g, tgt in want:
                if not b.edge_dominates((g['bb'], tgt), bb):
                    why.append('%s is produced outside its edge of `%s`' % (v, g['text'][:50]))
    if why:
        rep.bad(rule, key, '%s:%s' % (b.file, b.line), '; '.join(sorted(set(why))))
    else:
        rep.ok(rule, key, '%s:%s' % (b.file, b.line), 'Subst/Ins/Del/Match each behind their own test')


def ef8(facts, rep):
    from . import effects
    rule = 'EF-8'
    rep.rule(rule, 'lazy queries are functions of the stored columns only: the fields of LazyMatches that next() mutates '
                   '(other than the traceback and the matcher\'s state store, which hold the searched columns) are not read '
                   'by hit_at/path_at/path_at_reverse/alignment_at - otherwise the answer for an earlier end position '
                   'depends on how far the search has advanced since')
    eff = effects.Effects(facts)
    n = 0
    for mod in ('simple', 'long'):
        nx = facts.one(r'^<pattern_matching::myers::%s::myers_impl::LazyMatches<.*> as std::iter::Iterator>::next$' % mod)
        if nx is None:
            rep.missing(rule, 'myers::%s::LazyMatches::next' % mod, 'not found')
            continue
        rep.analysed_body(nx)
        written = {effects.clean(p)[0] for p in eff.param_writes(nx, 1) if effects.clean(p)}
        cursor = written - {'traceback', 'myers'}
        for nm in ('hit_at', 'path_at', 'path_at_reverse', 'alignment_at'):
            b = facts.one(r'^pattern_matching::myers::%s::myers_impl::LazyMatches::<.*>::%s$' % (mod, nm))
            key = 'myers::%s::LazyMatches::%s|independent-of-search-cursor' % (mod, nm)
            if b is None:
                rep.missing(rule, key, 'not found')
                continue
            n += 1
            reads = set()
            for fb in [b] + facts.closures_of(b.path):
                rep.analysed_body(fb)
                for bb in fb.reachable(0):
                    for pl in eng_gd.place_mentions(fb, bb):
                        sp = eng_gd.self_field_path(pl)
                        if sp and fb is b:
                            reads.add(sp[0])
            bad = sorted(reads & cursor)
            if bad:
                rep.bad(rule, key, '%s:%s' % (b.file, b.line), 'the query reads self.%s, which next() changes at every text position: '
                                                               'its answer for an already searched end depends on the current '
                                                               'position of the search' % ', self.'.join(bad))
            else:
                rep.ok(rule, key, '%s:%s' % (b.file, b.line), 'reads %s; next() mutates cursor fields %s' % (sorted(reads), sorted(cursor)))
    rep.floor(rule, 'lazy query methods', n, 8)


def run(facts, rep, ctx):
    ef8(facts, rep)
    from . import round2
    round2.gd2(facts, rep, TB)
    if ctx.get('flavor') != 'nochk':
        round2.po7(facts, rep, TB)
    ef3_gd3(facts, rep)
    ts5(facts, rep)
    tb9(facts, rep)


_run_before_round4 = run


def run(facts, rep, ctx):
    """rules added after the third seeding round (rules/round4.py)"""
    _run_before_round4(facts, rep, ctx)
    from . import round4
    round4.ts11(facts, rep)
    round4.ri6(facts, rep)



_run_before_round5 = run


def run(facts, rep, ctx):
    """rules added after the fourth seeding round (rules/round5.py)"""
    _run_before_round5(facts, rep, ctx)
    from . import round5, round2
    round5.ob1(facts, rep)
    # Match/Subst labels follow the configured ambiguity only if a pattern symbol always matches itself (rule SB-11 of C09)
    round2.sb11(facts, rep)


_run_before_round6 = run


def run(facts, rep, ctx):
    """rules added after the fifth seeding round (rules/round6.py)"""
    _run_before_round6(facts, rep, ctx)
    from . import round6
    round6.cf2(facts, rep, ['pattern_matching::myers::'], 100)
