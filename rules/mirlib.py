"""mirlib: CFG, dominators, symbolic expression reconstruction and call graph over the
JSON fact file written by /verif/driver (mir_built of crate `bio`).

Nothing here executes rust-bio code; everything is a static walk over MIR."""
import json
import os
import re
import sys
from collections import defaultdict, deque

sys.setrecursionlimit(10000)


# --------------------------------------------------------------------------- facts

class Facts:
    def __init__(self, path):
        with open(path) as f:
            raw = json.load(f)
        self.raw = raw
        self.crate = raw['crate']
        self.nonce = raw.get('nonce')
        # private functions that were merely renamed get their audited name back (rules/renames.py)
        self.renames = {}
        if raw['crate'] == 'bio' and not os.environ.get('VERIF_NO_RENAMES'):
            try:
                from .po_known import SIGS
                from . import renames
                self.renames = renames.compute(raw, SIGS)
                renames.apply(raw, self.renames)
            except ImportError:
                pass
        self._views = {}
        self._known = None
        if raw['crate'] == 'bio' and not os.environ.get('VERIF_NO_VIEW'):
            try:
                from .po_known import KNOWN
                self._known = KNOWN
            except ImportError:
                pass
        self._keep_known = (lambda p: p in self._known) if self._known is not None else None
        self.bodies = {}
        self.body_list = []
        for b in raw['bodies']:
            body = Body(b, self)
            p = body.path
            k = p
            n = 1
            while k in self.bodies:
                n += 1
                k = '%s#%d' % (p, n)
            body.key = k
            self.bodies[k] = body
            self.body_list.append(body)
        self.consts = {}
        for c in raw['consts']:
            self.consts.setdefault(c['path'], c)
        self.adts = {a['path']: a for a in raw['adts']}
        self.statics = raw['statics']
        self.impls = raw['impls']
        self._closures = defaultdict(list)
        for b in self.body_list:
            if b.kind == 'Closure':
                self._closures[b.raw['root']].append(b)
        self._callgraph = None

    # ---- views: what the rules analyse
    def view(self, b):
        """the body the rules analyse for function b: b itself with every function that did not exist when the rules
        were written (rules/po_known.py) analysed in place (rules/inline.py) - a long function split into private parts,
        or a block moved into a helper, still presents the same code to every rule. On a tree without new functions
        this is b itself."""
        if b is None or self._known is None or b.path not in self._known:
            return b
        v = self._views.get(b.key)
        if v is None:
            from . import inline
            known = self._known
            v = inline.inlined(self, b, keep=self._keep_known, policy=inline.new_function_policy, closureless=False)
            self._views[b.key] = v
        return v

    def body(self, path):
        return self.view(self.bodies.get(path))

    def find(self, regex):
        r = re.compile(regex)
        return [self.view(b) for b in self.body_list if r.search(b.path)]

    def one(self, regex):
        """exactly one body matching regex, else None"""
        m = self.find(regex)
        return m[0] if len(m) == 1 else None

    def methods(self, impl_self, name, trait_suffix=None):
        """bodies named `name` in impls whose self type string starts with impl_self (generic args ignored)"""
        out = []
        for b in self.body_list:
            if b.name != name or b.kind == 'Closure':
                continue
            st = b.raw.get('impl_self')
            if st is None:
                continue
            base = re.sub(r'<.*$', '', st)
            if base != impl_self:
                continue
            tr = b.raw.get('impl_trait')
            if trait_suffix is None and tr is not None:
                continue
            if trait_suffix is not None and (tr is None or not tr.endswith(trait_suffix)):
                continue
            out.append(self.view(b))
        return out

    def method(self, impl_self, name, trait_suffix=None):
        m = self.methods(impl_self, name, trait_suffix)
        return m[0] if len(m) == 1 else None

    def adt_freeze(self, adt_path):
        """True if the type cannot contain interior mutability: rustc's Freeze answer, or (for generic fields, where
        Freeze is unknown) every non-Freeze field is Copy - UnsafeCell is not Copy, so a Copy type is Freeze"""
        a = self.adts.get(adt_path)
        if a is None:
            return None
        if a['freeze']:
            return True
        return all(f['freeze'] or f.get('copy') for v in a['variants'] for f in v['fields'])

    def closures_of(self, path, raw=False):
        """closures nested in function `path`; like every body handed to a rule, each is the view with new functions
        analysed in place (a closure body moved into a private method still presents the same code)"""
        cl = self._closures.get(path, [])
        return cl if raw else [self.view(c) for c in cl]

    def family(self, body):
        """body together with all closures nested in it (and those of helpers analysed in place)"""
        if body.kind == 'Closure':
            return [body]
        root = body.raw.get('root', body.path)
        out = [body] + [c for c in self.closures_of(root) if c is not body]
        for cp in body.closure_literals():
            cb = self.bodies.get(cp)
            if cb is not None and all(cb is not x for x in out):
                out.append(cb)
                for x in self.closures_of(cb.raw.get('root') or cp):
                    if all(x is not y for y in out):
                        out.append(x)
        return out

    def const_value(self, path):
        c = self.consts.get(path)
        return None if c is None else c.get('v')

    # ---- call graph over local bodies (closures belong to their root fn)
    def callgraph(self):
        if self._callgraph is not None:
            return self._callgraph
        g = {}
        for b in self.body_list:
            callees = []
            for (bb, t) in b.calls():
                info = call_info(t)
                if info is None:
                    callees.append(('?', bb, t))
                else:
                    callees.append((info, bb, t))
            g[b.key] = callees
        self._callgraph = g
        return g

    def local_callees(self, body, include_closures=True):
        """set of local body keys directly called from body (and its closures)"""
        out = set()
        fam = [body] + (self.closures_of(body.path) if include_closures and body.kind != 'Closure' else [])
        for b in fam:
            for (bb, t) in b.calls():
                info = call_info(t)
                if info is None:
                    continue
                for p in (info.get('res'), info.get('fn')):
                    if p and p in self.bodies:
                        out.add(p)
                        break
        return out

    def reachable_bodies(self, roots, include_closures=True, trait_impls=True):
        """transitive closure of local callees from the given bodies. Unresolved trait method
        calls are expanded to all local impls of that trait method when trait_impls is set."""
        seen = {}
        work = deque()
        for r in roots:
            if r.key not in seen:
                seen[r.key] = None
                work.append(r)
        while work:
            b = work.popleft()
            fam = [b] + (self.closures_of(b.path) if include_closures and b.kind != 'Closure' else [])
            raw_b = self.bodies.get(b.key)
            if raw_b is not None and raw_b is not b:
                # b is a view (new helpers analysed in place): the helpers are reachable bodies in their own right
                fam.append(raw_b)
            if include_closures:
                # closures built in this body (including those of helpers analysed in place, see view())
                for cp in b.closure_literals():
                    cb = self.bodies.get(cp)
                    if cb is not None and all(cb is not x for x in fam):
                        fam.append(cb)
                        for x in self.closures_of(cb.raw.get('root') or cp):
                            if all(x is not y for y in fam):
                                fam.append(x)
            for fb in fam:
                if fb.key not in seen:
                    seen[fb.key] = b.key
                for (bb, t) in fb.calls():
                    info = call_info(t)
                    if info is None:
                        continue
                    targets = []
                    p = info.get('res') or info.get('fn')
                    if p in self.bodies:
                        targets.append(self.bodies[p])
                    elif trait_impls and info.get('trait') and info.get('crate') == self.crate and not info.get('res'):
                        nm = info['fn'].rsplit('::', 1)[-1]
                        for ob in self.body_list:
                            if ob.raw.get('impl_trait') == info['trait'] and ob.name == nm:
                                targets.append(ob)
                    for tb in targets:
                        if tb.key not in seen:
                            seen[tb.key] = fb.key
                            work.append(tb)
        return seen


def call_info(term):
    """dict describing the callee of a call terminator, or None for indirect calls"""
    if term.get('k') not in ('call', 'tailcall'):
        return None
    f = term['f']
    k = f.get('k')
    if k and 'fn' in k:
        return k
    return None


def callee_path(term):
    i = call_info(term)
    if i is None:
        return None
    return i.get('res') or i.get('fn')


def callee_name(term):
    i = call_info(term)
    if i is None:
        return None
    return i['fn']


# --------------------------------------------------------------------------- body

_COUNT_ADAPTORS = ('skip', 'take', 'step_by', 'nth', 'chunks', 'chunks_exact', 'windows', 'rchunks', 'nth_back')


class Body:
    def __init__(self, raw, facts):
        self.raw = raw
        self.facts = facts
        self.path = raw['path']
        self.key = self.path
        self.kind = raw['kind']
        self.name = raw.get('name', '')
        self.file = raw['file']
        self.line = raw['line']
        self.locals = raw['locals']
        self.blocks = raw['blocks']
        self.arg_count = raw['arg_count']
        self.n = len(self.blocks)
        self._succ = None
        self._pred = None
        self._dom = None
        self._defs = None
        self._rpo = None

    def __repr__(self):
        return '<Body %s>' % self.path

    # ---- CFG (normal edges only)
    def term(self, bb):
        return self.blocks[bb]['t']

    def stmts(self, bb):
        return self.blocks[bb]['s']

    def closure_literals(self):
        """paths of the closures constructed in this body"""
        out = []
        for blk in self.blocks:
            for st in blk['s']:
                if st['k'] == 'assign' and st['r'].get('k') == 'agg' and st['r'].get('ak') == 'closure' and st['r'].get('closure'):
                    if st['r']['closure'] not in out:
                        out.append(st['r']['closure'])
        return out

    def is_cleanup(self, bb):
        return bool(self.blocks[bb].get('cleanup'))

    @staticmethod
    def term_succs(t):
        k = t['k']
        if k == 'goto':
            return [t['t']]
        if k == 'switch':
            out = []
            for v, bb in t['vals']:
                if bb not in out:
                    out.append(bb)
            if t['else'] not in out:
                out.append(t['else'])
            return out
        if k in ('drop', 'assert', 'falseedge', 'falseunwind'):
            return [t['t']]
        if k == 'call':
            return [t['t']] if t['t'] is not None else []
        return []

    @property
    def succ(self):
        if self._succ is None:
            self._succ = [self.term_succs(self.term(i)) for i in range(self.n)]
        return self._succ

    @property
    def pred(self):
        if self._pred is None:
            p = [[] for _ in range(self.n)]
            for i, ss in enumerate(self.succ):
                for s in ss:
                    p[s].append(i)
            self._pred = p
        return self._pred

    def reachable(self, start=0, removed_edge=None, removed_blocks=()):
        seen = set()
        if start in removed_blocks:
            return seen
        st = [start]
        seen.add(start)
        while st:
            b = st.pop()
            for s in self.succ[b]:
                if removed_edge is not None and (b, s) == removed_edge:
                    continue
                if s in removed_blocks:
                    continue
                if s not in seen:
                    seen.add(s)
                    st.append(s)
        return seen

    def rpo(self):
        if self._rpo is None:
            seen = set()
            order = []
            # iterative DFS postorder
            stack = [(0, iter(self.succ[0]))]
            seen.add(0)
            while stack:
                b, it = stack[-1]
                adv = False
                for s in it:
                    if s not in seen:
                        seen.add(s)
                        stack.append((s, iter(self.succ[s])))
                        adv = True
                        break
                if not adv:
                    order.append(b)
                    stack.pop()
            self._rpo = list(reversed(order))
        return self._rpo

    def dominators(self):
        """idom dict for blocks reachable through normal edges"""
        if self._dom is not None:
            return self._dom
        rpo = self.rpo()
        idx = {b: i for i, b in enumerate(rpo)}
        idom = {0: 0}
        changed = True
        while changed:
            changed = False
            for b in rpo[1:]:
                new = None
                for p in self.pred[b]:
                    if p in idom:
                        if new is None:
                            new = p
                        else:
                            a, c = p, new
                            while a != c:
                                while idx[a] > idx[c]:
                                    a = idom[a]
                                while idx[c] > idx[a]:
                                    c = idom[c]
                            new = a
                if new is not None and idom.get(b) != new:
                    idom[b] = new
                    changed = True
        self._dom = idom
        return idom

    def dominates(self, a, b):
        idom = self.dominators()
        if b not in idom or a not in idom:
            return False
        while True:
            if a == b:
                return True
            if b == 0:
                return False
            b = idom[b]

    def edge_dominates(self, edge, site):
        """every normal path entry -> site passes through edge (b, s)"""
        r = self.reachable(0, removed_edge=edge)
        return site not in r and site in self.reachable(0)

    def return_blocks(self):
        return [i for i in range(self.n) if self.term(i)['k'] == 'return' and i in self.reachable(0)]

    def calls(self):
        for i in range(self.n):
            t = self.term(i)
            if t['k'] in ('call', 'tailcall'):
                yield i, t

    def loops_back_edges(self):
        out = []
        for b in self.reachable(0):
            for s in self.succ[b]:
                if self.dominates(s, b):
                    out.append((b, s))
        return out

    def natural_loops(self):
        """header -> set of blocks of the natural loop(s) with that header"""
        out = {}
        for (s_, h) in self.loops_back_edges():
            body = out.setdefault(h, {h})
            work = [s_]
            body.add(s_)
            while work:
                x = work.pop()
                if x == h:
                    continue
                for p_ in self.pred[x]:
                    if p_ not in body:
                        body.add(p_)
                        work.append(p_)
        return out

    def loop_depth(self, bb):
        return sum(1 for _h, blocks in self.natural_loops().items() if bb in blocks)

    # ---- definitions of locals
    def param_roots(self):
        """flow-insensitive *data* provenance: local -> set of parameter locals whose value may flow into it (through
        assignments, projections, call arguments -> call result, and calls that receive a &mut to the local).
        Index operands do not count (x[i] derives from x, not from i); tuples/structs held in a local are tracked per
        first-level field, so `let (m, n) = (x.len(), y.len())` keeps m and n apart."""
        if getattr(self, '_roots', None) is not None:
            return self._roots

        def places(x, out):
            if isinstance(x, dict):
                if isinstance(x.get('l'), int):
                    out.append(x)
                    return out
                for v in x.values():
                    places(v, out)
            elif isinstance(x, list):
                for v in x:
                    places(v, out)
            return out

        def key(pl):
            pj = pl.get('pj') or []
            if pj and isinstance(pj[0], dict) and 'f' in pj[0]:
                return (pl['l'], pj[0]['f'])
            return (pl['l'], None)

        def has_ref(l):
            # only reference-carrying locals can alias storage (a usize read through an iterator cannot)
            ty = self.locals[l]['ty']
            return '&' in ty or '*' in ty or "'" in ty or '{closure' in ty

        fields = defaultdict(set)     # local -> field keys seen
        roots = defaultdict(set)      # (local, field|None) -> params
        refbase = defaultdict(set)

        def read(pl):
            l, f = key(pl)
            if f is not None:
                return roots[(l, f)] | roots[(l, None)]
            out = set(roots[(l, None)])
            for ff in fields[l]:
                out |= roots[(l, ff)]
            return out

        def add(k, new):
            if k[1] is not None:
                fields[k[0]].add(k[1])
            if not new <= roots[k]:
                roots[k] |= new
                return True
            return False

        for l in range(1, self.arg_count + 1):
            roots[(l, None)].add(l)
        stmts = []
        calls = []
        for bb in range(self.n):
            for st in self.stmts(bb):
                if st['k'] == 'assign':
                    stmts.append(st)
                    r = st['r']
                    if r['k'] in ('ref', 'rawptr') and (r['p'].get('pj') or [None])[0] != '*':
                        refbase[st['p']['l']].add(r['p']['l'])
            t = self.term(bb)
            if t['k'] == 'call':
                calls.append(t)
        changed = True
        while changed:
            changed = False
            for st in stmts:
                r, d = st['r'], st['p']
                if r['k'] == 'agg' and 'pj' not in d and r.get('ak') != 'array':
                    for i, o in enumerate(r['ops']):
                        new = set()
                        for pl in places(o, []):
                            new |= read(pl)
                        changed |= add((d['l'], i), new)
                    continue
                new = set()
                srcs = places(r, [])
                for pl in srcs:
                    new |= read(pl)
                    if refbase.get(pl['l']) and has_ref(d['l']) and not refbase[pl['l']] <= refbase[d['l']]:
                        refbase[d['l']] |= refbase[pl['l']]
                        changed = True
                pj = d.get('pj') or []
                if pj and pj[0] == '*':
                    for base in list(refbase.get(d['l'], ())):
                        changed |= add((base, None), new)
                changed |= add(key(d), new)
            for t in calls:
                new = set()
                args = t['args']
                ci = call_info(t)
                if ci and ci['fn'].rsplit('::', 1)[-1] in _COUNT_ADAPTORS and ('Iterator' in ci['fn'] or 'slice' in ci['fn']) and args:
                    # it.skip(n) / take(n) / step_by(n) / nth(n) / chunks(n) ...: the elements come from the receiver, the count
                    # only selects them (like an index operand)
                    args = args[:1]
                srcs = places(args, [])
                for pl in srcs:
                    new |= read(pl)
                for pl in srcs:
                    if refbase.get(pl['l']) and has_ref(t['dest']['l']) and \
                            not refbase[pl['l']] <= refbase[t['dest']['l']]:
                        refbase[t['dest']['l']] |= refbase[pl['l']]
                        changed = True
                    if self.locals[pl['l']]['ty'].startswith('&mut'):
                        for base in list(refbase.get(pl['l'], ())):
                            changed |= add((base, None), new)
                changed |= add(key(t['dest']), new)
        out = defaultdict(set)
        for (l, f), v in roots.items():
            out[l] |= v
        self._roots_fields = roots
        self._roots = out
        return out

    def defs(self):
        """local -> list of ('stmt', bb, idx, stmt) / ('call', bb, term) / ('arg',) definitions of the whole local;
        partial[local] -> number of projection stores / mutable borrows"""
        if self._defs is not None:
            return self._defs
        d = defaultdict(list)
        partial = defaultdict(int)
        for l in range(1, self.arg_count + 1):
            d[l].append(('arg',))
        for bb in range(self.n):
            for i, s in enumerate(self.stmts(bb)):
                if s['k'] == 'assign':
                    p = s['p']
                    if 'pj' in p:
                        if not p['pj'] or p['pj'][0] != '*':
                            partial[p['l']] += 1
                    else:
                        d[p['l']].append(('stmt', bb, i, s))
                    r = s['r']
                    if r['k'] in ('ref', 'rawptr') and r.get('bk') in ('mut', 'Mut'):
                        q = r['p']
                        if 'pj' not in q or q['pj'][0] != '*':
                            partial[q['l']] += 1
                elif s['k'] == 'setdisc':
                    partial[s['p']['l']] += 1
            t = self.term(bb)
            if t['k'] == 'call':
                p = t['dest']
                if 'pj' in p:
                    if p['pj'][0] != '*':
                        partial[p['l']] += 1
                else:
                    d[p['l']].append(('call', bb, t))
        self._defs = (d, partial)
        return self._defs

    def local_name(self, l):
        return self.locals[l].get('name')

    def is_user(self, l):
        return bool(self.locals[l].get('user'))

    def single_def(self, l):
        d, partial = self.defs()
        if len(d.get(l, [])) == 1:
            return d[l][0]
        return None

    # ---- expression reconstruction
    def expr_local(self, l, depth=0, inline_user=False, seen=None):
        if l == 0:
            return ('local', 0, '_0')
        nm = self.local_name(l)
        if l <= self.arg_count:
            return ('local', l, nm or ('_%d' % l))
        user = self.is_user(l)
        d, partial = self.defs()
        if depth < 40 and (not user or inline_user):
            sd = self.single_def(l)
            if sd is not None and (not user or partial.get(l, 0) == 0 or inline_user == 'force'):
                seen = seen or frozenset()
                if l not in seen:
                    seen2 = seen | {l}
                    if sd[0] == 'stmt':
                        return self.expr_rvalue(sd[3]['r'], depth + 1, inline_user, seen2)
                    if sd[0] == 'call':
                        return self.expr_call(sd[2], depth + 1, inline_user, seen2)
        return ('local', l, nm or ('_%d' % l))

    def _agreeing_field(self, l, f, depth, inline_user, seen):
        """expression of field f of local l when l has several definitions that all (through plain moves) are
        aggregates carrying the same expression in that field - e.g. the tuple returned by an inlined helper with
        more than one `return (.., x)`"""
        d, _partial = self.defs()
        terminal = []
        work = [l]
        visited = set()
        while work:
            x = work.pop()
            if x in visited:
                continue
            visited.add(x)
            defs = d.get(x, [])
            if not defs or len(visited) > 12:
                return None
            for df in defs:
                if df[0] != 'stmt':
                    return None
                r = df[3]['r']
                if r['k'] == 'use':
                    q = r['o'].get('m') or r['o'].get('c')
                    if q is None or q.get('pj'):
                        return None
                    work.append(q['l'])
                elif r['k'] == 'agg' and r.get('ak') in ('tuple',) and f < len(r['ops']):
                    terminal.append(r['ops'][f])
                else:
                    return None
        if not terminal:
            return None
        seen2 = (seen or frozenset()) | visited
        es = [self.expr_operand(o, depth + 1, inline_user, seen2) for o in terminal]
        if all(x == es[0] for x in es[1:]):
            return es[0]
        return None

    def expr_place(self, p, depth=0, inline_user=False, seen=None):
        e = self.expr_local(p['l'], depth, inline_user, seen)
        pj0 = p.get('pj', [])
        skip_first = False
        if pj0 and isinstance(pj0[0], dict) and 'f' in pj0[0] and e[0] == 'local' and \
                e[1] > self.arg_count and not self.is_user(e[1]) and depth < 40 and \
                e[1] not in (seen or frozenset()):
            alt = self._agreeing_field(e[1], pj0[0]['f'], depth, inline_user, seen)
            if alt is not None:
                e = alt
                skip_first = True
        for el in (pj0[1:] if skip_first else pj0):
            if el == '*':
                # *(&x) is x (environment of an inlined closure, reborrows)
                if isinstance(e, tuple) and e[0] == 'ref':
                    e = e[1]
                else:
                    e = ('deref', e)
            elif 'f' in el:
                # a field of a freshly built closure environment / tuple is the captured / packed operand itself
                if isinstance(e, tuple) and e[0] == 'agg' and e[1] in ('closure', 'tuple') and el['f'] < len(e[3]):
                    e = e[3][el['f']]
                else:
                    e = ('field', e, el['n'])
            elif 'i' in el:
                e = ('index', e, self.expr_local(el['i'], depth + 1, inline_user, seen))
            elif 'ci' in el:
                e = ('cindex', e, el['ci'], el['fe'])
            elif 'dc' in el:
                e = ('downcast', e, el['dc'])
            elif 'sub' in el:
                e = ('subslice', e, tuple(el['sub']), el['fe'])
            else:
                e = ('opaque', e)
        return e

    def expr_operand(self, o, depth=0, inline_user=False, seen=None):
        if 'c' in o:
            return self.expr_place(o['c'], depth, inline_user, seen)
        if 'm' in o:
            return self.expr_place(o['m'], depth, inline_user, seen)
        if 'k' in o:
            k = o['k']
            if 'fn' in k:
                return ('fnconst', k.get('res') or k['fn'])
            val = k.get('v')
            if val is None:
                if 'bits' in k:
                    val = ('bits', k['bits'], k.get('f'))
                elif 'bytes' in k:
                    val = ('bytes', bytes(k['bytes']) if k.get('esize', 1) == 1 else tuple(k['bytes']))
                elif k.get('zst'):
                    val = ('zst',)
            return ('const', val, k['ty'], k.get('def'))
        return ('unknown', o.get('raw', '?'))

    def expr_rvalue(self, r, depth=0, inline_user=False, seen=None):
        k = r['k']
        ev = lambda o: self.expr_operand(o, depth, inline_user, seen)
        if k == 'use':
            return ev(r['o'])
        if k == 'ref':
            return ('ref', self.expr_place(r['p'], depth, inline_user, seen), r['bk'])
        if k == 'rawptr':
            return ('ref', self.expr_place(r['p'], depth, inline_user, seen), 'raw')
        if k == 'copyderef':
            return self.expr_place(r['p'], depth, inline_user, seen)
        if k == 'cast':
            return ('cast', ev(r['o']), r['ty'], r['ck'])
        if k == 'bin':
            return ('bin', r['op'], ev(r['a']), ev(r['b']))
        if k == 'un':
            return ('un', r['op'], ev(r['a']))
        if k == 'disc':
            return ('disc', self.expr_place(r['p'], depth, inline_user, seen))
        if k == 'agg':
            name = r.get('adt') or r.get('closure') or r['ak']
            if r['ak'] == 'adt':
                name = name + '::' + r['variant']
            return ('agg', r['ak'], name, tuple(ev(o) for o in r['ops']), tuple(r.get('fields', ())))
        if k == 'repeat':
            return ('repeat', ev(r['o']), r['n'])
        return ('unknown', r.get('raw', k))

    def expr_call(self, t, depth=0, inline_user=False, seen=None):
        info = call_info(t)
        if info is None:
            fn = ('indirect', self.expr_operand(t['f'], depth, inline_user, seen))
            name = '<indirect>'
        else:
            name = info.get('res') or info['fn']
        return ('call', name, tuple(self.expr_operand(a, depth, inline_user, seen) for a in t['args']),
                info.get('fn') if info else None)

    # ---- conditions on edges
    def switch_edges(self, bb, inline_user=True):
        """for a switch terminator: list of (succ, cond_expr, value) where value is the int the discr equals on that
        edge, or ('not', [values]) for the otherwise edge"""
        t = self.term(bb)
        if t['k'] != 'switch':
            return []
        e = self.expr_operand(t['d'], inline_user=inline_user)
        out = []
        vals = [v for v, _ in t['vals']]
        for v, s in t['vals']:
            out.append((s, e, v))
        out.append((t['else'], e, ('not', tuple(vals))))
        return out

    def loc(self, bb, idx=None):
        if idx is None:
            ln = self.term(bb).get('line')
        else:
            ln = self.stmts(bb)[idx].get('line')
        return '%s:%s' % (self.file, ln)

    def dump(self, out=sys.stdout):
        out.write('fn %s  [%s:%s]\n' % (self.path, self.file, self.line))
        for i, l in enumerate(self.locals):
            out.write('  _%d: %s%s\n' % (i, l['ty'], ' // ' + l['name'] if l.get('name') else ''))
        for i, bl in enumerate(self.blocks):
            out.write(' bb%d%s:\n' % (i, ' (cleanup)' if bl.get('cleanup') else ''))
            for s in bl['s']:
                if s['k'] != 'dead':
                    out.write('    %s   // L%s\n' % (s.get('d'), s.get('line')))
            out.write('    -> %s   // L%s\n' % (bl['t']['dbg'], bl['t'].get('line')))


# --------------------------------------------------------------------------- expression helpers

def strip(e):
    """drop deref / ref / pointer-ish casts (auto-deref view) recursively"""
    if not isinstance(e, tuple):
        return e
    k = e[0]
    if k == 'deref':
        return strip(e[1])
    if k == 'ref':
        return strip(e[1])
    if k == 'cast':
        if e[3].startswith('PointerCoercion') or e[3] in ('PtrToPtr', 'Subtype'):
            return strip(e[1])
        return ('cast', strip(e[1]), e[2], e[3])
    if k == 'field':
        inner = strip(e[1])
        # projection out of a freshly built tuple: (a, b).0 is a
        if isinstance(inner, tuple) and inner[0] == 'agg' and inner[1] == 'tuple' and str(e[2]).isdigit() and \
                int(e[2]) < len(inner[3]):
            return inner[3][int(e[2])]
        return ('field', inner, e[2])
    if k == 'index':
        return ('index', strip(e[1]), strip(e[2]))
    if k in ('cindex', 'downcast', 'subslice'):
        return (k, strip(e[1])) + tuple(e[2:])
    if k == 'bin':
        return ('bin', e[1], strip(e[2]), strip(e[3]))
    if k == 'un':
        return ('un', e[1], strip(e[2]))
    if k == 'disc':
        return ('disc', strip(e[1]))
    if k == 'call':
        return ('call', e[1], tuple(strip(a) for a in e[2]), e[3])
    if k == 'agg':
        return ('agg', e[1], e[2], tuple(strip(a) for a in e[3]), e[4])
    if k == 'repeat':
        return ('repeat', strip(e[1]), e[2])
    return e


def strip_casts(e):
    """additionally drop integer casts"""
    e = strip(e)
    if not isinstance(e, tuple):
        return e
    k = e[0]
    if k == 'cast':
        return strip_casts(e[1])
    if k == 'field':
        return ('field', strip_casts(e[1]), e[2])
    if k == 'index':
        return ('index', strip_casts(e[1]), strip_casts(e[2]))
    if k == 'bin':
        return ('bin', e[1], strip_casts(e[2]), strip_casts(e[3]))
    if k == 'un':
        return ('un', e[1], strip_casts(e[2]))
    if k == 'call':
        # lossless integer widening written as a conversion call (usize::from(x), x.into()) is a cast
        if len(e[2]) == 1 and _INT_FROM.search(e[1] or ''):
            return strip_casts(e[2][0])
        return ('call', e[1], tuple(strip_casts(a) for a in e[2]), e[3])
    return e


_INT_FROM = re.compile(r'convert::num::<impl (?:std|core)::convert::From<(?:[iu](?:\d+|size)|bool)> for [iu](?:\d+|size)>::from$')
_SHORT = re.compile(r'(?:[A-Za-z_][A-Za-z0-9_]*::)+')


def short(path):
    """last two segments of a def path, generic args removed"""
    p = re.sub(r'::<[^>]*>', '', path)
    parts = p.split('::')
    return '::'.join(parts[-2:]) if len(parts) >= 2 else p


def fmt(e):
    if not isinstance(e, tuple):
        return str(e)
    k = e[0]
    if k == 'local':
        return e[2]
    if k == 'const':
        if e[3]:
            return e[3].rsplit('::', 1)[-1]
        v = e[1]
        if isinstance(v, tuple):
            if v[0] == 'bytes':
                return 'b%r' % (v[1],) if isinstance(v[1], bytes) else str(v[1])
            if v[0] == 'bits':
                return str(v[2])
            return str(v)
        return str(v)
    if k == 'fnconst':
        return short(e[1])
    if k == 'field':
        return '%s.%s' % (fmt(e[1]), e[2])
    if k == 'deref':
        return '*%s' % fmt(e[1])
    if k == 'ref':
        return '&%s%s' % ('mut ' if e[2] == 'mut' else '', fmt(e[1]))
    if k == 'index':
        return '%s[%s]' % (fmt(e[1]), fmt(e[2]))
    if k == 'cindex':
        return '%s[%s%d]' % (fmt(e[1]), '-' if e[3] else '', e[2])
    if k == 'downcast':
        return '(%s as %s)' % (fmt(e[1]), e[2])
    if k == 'subslice':
        return '%s[%s..]' % (fmt(e[1]), e[2])
    if k == 'bin':
        return '%s(%s, %s)' % (e[1], fmt(e[2]), fmt(e[3]))
    if k == 'un':
        return '%s(%s)' % (e[1], fmt(e[2]))
    if k == 'cast':
        return '(%s as %s)' % (fmt(e[1]), e[2])
    if k == 'disc':
        return 'discr(%s)' % fmt(e[1])
    if k == 'call':
        return '%s(%s)' % (short(e[1]), ', '.join(fmt(a) for a in e[2]))
    if k == 'agg':
        return '%s{%s}' % (short(e[2]), ', '.join(fmt(a) for a in e[3]))
    if k == 'repeat':
        return '[%s; %s]' % (fmt(e[1]), e[2])
    return '?%s' % (e[1] if len(e) > 1 else '')


def emap(e, f):
    """bottom-up rewrite: children first, then f(node) (f returns the replacement or the node itself)"""
    if not isinstance(e, tuple) or not e or not isinstance(e[0], str):
        return e
    out = []
    for x in e:
        if isinstance(x, tuple):
            if x and isinstance(x[0], str):
                out.append(emap(x, f))
            else:
                out.append(tuple(emap(y, f) if isinstance(y, tuple) else y for y in x))
        else:
            out.append(x)
    return f(tuple(out))


def walk(e):
    """pre-order iteration over sub-expressions"""
    yield e
    if isinstance(e, tuple):
        for x in e[1:]:
            if isinstance(x, tuple):
                if x and isinstance(x[0], str):
                    yield from walk(x)
                else:
                    for y in x:
                        if isinstance(y, tuple):
                            yield from walk(y)


def const_int(e):
    e = strip_casts(e)
    if isinstance(e, tuple) and e[0] == 'const' and isinstance(e[1], int):
        return e[1]
    return None


CMP_FLIP = {'Lt': 'Gt', 'Gt': 'Lt', 'Le': 'Ge', 'Ge': 'Le', 'Eq': 'Eq', 'Ne': 'Ne'}
CMP_NEG = {'Lt': 'Ge', 'Ge': 'Lt', 'Gt': 'Le', 'Le': 'Gt', 'Eq': 'Ne', 'Ne': 'Eq'}


def norm_cmp(e, truth=True, xform=None):
    """normalise a boolean comparison expression under a branch polarity to a canonical (op, a, b) with op in
    {Lt, Le, Eq, Ne} and fmt-ed operands; returns None if e is not a comparison"""
    e = strip(e)
    neg = not truth
    while isinstance(e, tuple) and e[0] == 'un' and e[1] == 'Not':
        neg = not neg
        e = strip(e[2])
    if not (isinstance(e, tuple) and e[0] == 'bin' and e[1] in CMP_FLIP):
        # PartialOrd/PartialEq trait calls: lt/le/gt/ge/eq/ne
        if isinstance(e, tuple) and e[0] == 'call':
            nm = e[1].rsplit('::', 1)[-1]
            m = {'lt': 'Lt', 'le': 'Le', 'gt': 'Gt', 'ge': 'Ge', 'eq': 'Eq', 'ne': 'Ne'}.get(nm)
            if m and len(e[2]) == 2:
                e = ('bin', m, e[2][0], e[2][1])
            else:
                return None
        else:
            return None
    op, a, b = e[1], strip_casts(e[2]), strip_casts(e[3])
    if neg:
        op = CMP_NEG[op]
    if op in ('Gt', 'Ge'):
        op, a, b = CMP_FLIP[op], b, a
    if xform is not None:
        a, b = xform(a), xform(b)
    fa, fb = fmt(a), fmt(b)
    if op in ('Eq', 'Ne') and fb < fa:
        fa, fb = fb, fa
    return (op, fa, fb)


def edge_truth(value):
    """truth of a bool switch edge: value 0 -> False; ('not',(0,)) -> True; 1 -> True"""
    if value == 0:
        return False
    if value == 1:
        return True
    if isinstance(value, tuple) and value[0] == 'not':
        if value[1] == (0,):
            return True
        if value[1] == (1,):
            return False
    return None
