"""C13 BED / GFF round trip — EF-4 (loss-free attribute traversal), validator discipline (invalid phase is an error),
TB-4 (reader/writer delimiter agreement), PO-4 (no panic on malformed lines)."""
from .mirlib import call_info, strip, strip_casts, fmt, walk
from .eng_ri import uses_of_locals

LEVEL = 'other'
FIRST_ONLY = {'iter', 'get', 'iter_mut', 'get_mut'}
ALL_VALUES = {'iter_all', 'flat_iter', 'get_vec', 'iter_all_mut', 'flat_iter_mut', 'into_iter'}


def family_calls(facts, body):
    for b in [body] + facts.closures_of(body.path):
        for bb, t in b.calls():
            info = call_info(t)
            if info is not None:
                yield b, bb, t, info


def ef4(facts, rep):
    rule = 'EF-4'
    rep.rule(rule, 'loss-free traversal: gff::Writer::write must traverse the attribute multimap with an all-values '
                   'API (iter_all / flat_iter / get_vec / IntoIterator); the first-value-only MultiMap::{iter,get} are '
                   'forbidden in the serialiser')
    w = facts.method('io::gff::Writer', 'write')
    if w is None:
        rep.missing(rule, 'io::gff::Writer::write', 'serialiser not found')
        return
    rep.analysed_body(w)
    seen_all = []
    n = 0
    for b, bb, t, info in family_calls(facts, w):
        if info.get('crate') != 'multimap' and 'multimap::MultiMap' not in (info.get('impl_self') or '') \
                and not any('multimap::MultiMap' in a for a in info.get('args', [])[:1]):
            continue
        nm = info['fn'].rsplit('::', 1)[-1]
        n += 1
        key = 'io::gff::Writer::write|multimap-traversal|%s' % nm
        if nm in FIRST_ONLY and 'MultiMap' in info['fn']:
            rep.bad(rule, key, b.loc(bb), 'attributes are traversed with MultiMap::%s, which yields only the first value '
                                          'of every key: multi-valued attributes are silently dropped on write' % nm)
        elif nm in ALL_VALUES:
            seen_all.append(nm)
            rep.ok(rule, key, b.loc(bb), 'all-values traversal')
        else:
            rep.ok(rule, key, b.loc(bb), 'not a traversal')
    key = 'io::gff::Writer::write|uses-all-values-api'
    if seen_all:
        rep.ok(rule, key, '%s:%s' % (w.file, w.line), ', '.join(sorted(set(seen_all))))
    else:
        rep.bad(rule, key, '%s:%s' % (w.file, w.line), 'no all-values traversal of record.attributes in the serialiser '
                                                       '(multimap calls seen: %d)' % n)


def validator(facts, rep):
    rule = 'VD-1'
    rep.rule(rule, 'validator discipline: in <Phase as Deserialize>::deserialize the Option returned by Phase::validate '
                   'must be examined (discriminant test or ok_or*), never wrapped unexamined into Phase(..): an '
                   'out-of-range phase must become an error')
    d = facts.method('io::gff::Phase', 'deserialize', 'Deserialize')
    if d is None:
        rep.missing(rule, '<io::gff::Phase as Deserialize>::deserialize', 'deserialiser not found')
        return
    rep.analysed_body(d)
    fam = [d] + facts.closures_of(d.path)
    sites = []
    for b in fam:
        for bb, t in b.calls():
            info = call_info(t)
            if info and info['fn'].startswith('io::gff::Phase::validate'):
                sites.append((b, bb, t))
    # a deserialiser that no longer calls validate must check the range itself: look for a comparison against 3
    if not sites:
        has_cmp = False
        for b in fam:
            for bb in b.reachable(0):
                t = b.term(bb)
                if t['k'] == 'switch':
                    e = strip_casts(b.expr_operand(t['d'], inline_user=True))
                    for x in walk(e):
                        if isinstance(x, tuple) and x[0] == 'bin' and x[1] in ('Lt', 'Le', 'Gt', 'Ge') and \
                                any(isinstance(y, tuple) and y[0] == 'const' and y[1] in (2, 3) for y in x[2:4]):
                            has_cmp = True
        key = 'Phase::deserialize|range-check'
        if has_cmp:
            rep.ok(rule, key, '%s:%s' % (d.file, d.line), 'explicit range comparison')
        else:
            rep.bad(rule, key, '%s:%s' % (d.file, d.line), 'neither Phase::validate nor a range comparison is reachable: '
                                                           'any u8 is accepted as a phase')
        return
    for n, (b, bb, t) in enumerate(sites):
        key = 'Phase::deserialize|validate-result-examined@%d' % (n + 1)
        r = t['dest']['l']
        uses = uses_of_locals(b).get(r, [])
        examined = False
        wrapped = False
        for (kind, ubb, x) in uses:
            if kind == 'stmt':
                s = b.stmts(ubb)[x]
                if s['k'] == 'assign':
                    rk = s['r']['k']
                    if rk == 'disc':
                        examined = True
                    elif rk == 'agg' and s['r'].get('adt', '').endswith('gff::Phase'):
                        wrapped = True
                    elif rk == 'use':
                        # moved into another local: follow one step
                        l2 = s['p']['l']
                        for (k2, b2, x2) in uses_of_locals(b).get(l2, []):
                            if k2 == 'stmt':
                                s2 = b.stmts(b2)[x2]
                                if s2['k'] == 'assign' and s2['r']['k'] == 'disc':
                                    examined = True
                                if s2['k'] == 'assign' and s2['r']['k'] == 'agg' and \
                                        s2['r'].get('adt', '').endswith('gff::Phase'):
                                    wrapped = True
                            else:
                                i2 = call_info(b.term(b2))
                                if i2 and i2['fn'].rsplit('::', 1)[-1] in ('ok_or', 'ok_or_else', 'map', 'and_then'):
                                    examined = True
            else:
                i2 = call_info(b.term(ubb))
                if i2 and i2['fn'].rsplit('::', 1)[-1] in ('ok_or', 'ok_or_else', 'map', 'and_then', 'is_none',
                                                             'is_some'):
                    examined = True
        if wrapped and not examined:
            rep.bad(rule, key, b.loc(bb), 'the result of Phase::validate is wrapped into Phase(..) without looking at '
                                          'it: phases 3..=255 are silently coerced to "no phase" instead of an error')
        elif examined:
            rep.ok(rule, key, b.loc(bb), 'result examined')
        else:
            rep.bad(rule, key, b.loc(bb), 'cannot see that the validator result is examined')


def const_byte_arg(b, t, idx):
    e = strip_casts(b.expr_operand(t['args'][idx], inline_user=True))
    if e[0] == 'const' and isinstance(e[1], int):
        return e[1]
    if e[0] == 'agg' and e[2].endswith('Option::Some') and e[3] and e[3][0][0] == 'const':
        return ('Some', e[3][0][1])
    return None


def tb4(facts, rep):
    rule = 'TB-4'
    rep.rule(rule, 'reader/writer table agreement: GFF reader and writer both take their separators from '
                   'GffType::separator; csv delimiter is TAB on both sides of BED and GFF; readers skip `#` comments; '
                   'the attribute regex defines the named groups `key` and `value` that Records::next indexes')
    want = {
        ('io::gff::Reader', 'new'): {'delimiter': 9, 'comment': ('Some', 35)},
        ('io::gff::Writer', 'new'): {'delimiter': 9},
        ('io::bed::Reader', 'new'): {'delimiter': 9, 'comment': ('Some', 35)},
        ('io::bed::Writer', 'new'): {'delimiter': 9},
    }
    for (ty, nm), exp in want.items():
        b = facts.method(ty, nm)
        if b is None:
            rep.missing(rule, '%s::%s' % (ty, nm), 'constructor not found')
            continue
        rep.analysed_body(b)
        got = {}
        for bb, t in b.calls():
            info = call_info(t)
            if info and info.get('crate') == 'csv':
                m = info['fn'].rsplit('::', 1)[-1]
                if m in ('delimiter', 'comment') and len(t['args']) >= 2:
                    got[m] = (const_byte_arg(b, t, 1), bb)
        if ty.endswith('Reader'):
            flex = None
            for bb, t in b.calls():
                info = call_info(t)
                if info and info.get('crate') == 'csv' and info['fn'].rsplit('::', 1)[-1] == 'flexible' and len(t['args']) >= 2:
                    flex = (const_byte_arg(b, t, 1), bb)
            key = '%s::%s|csv-rejects-unequal-column-counts' % (ty, nm)
            if flex is not None and flex[0] != 0:
                rep.bad(rule, key, b.loc(flex[1]), 'the reader is configured flexible: a line with a wrong column count is '
                                                   'accepted and silently coerced instead of being reported as an error')
            else:
                rep.ok(rule, key, '%s:%s' % (b.file, b.line), 'csv reader is strict about the column count')
        for m, v in exp.items():
            key = '%s::%s|csv-%s' % (ty, nm, m)
            if m not in got:
                rep.bad(rule, key, '%s:%s' % (b.file, b.line), 'csv builder option %s is not set' % m)
            elif got[m][0] != v:
                rep.bad(rule, key, b.loc(got[m][1]), 'csv %s is %r, expected %r' % (m, got[m][0], v))
            else:
                rep.ok(rule, key, b.loc(got[m][1]), '%s = %r' % (m, v))
    # separators from one table
    for ty, nm in (('io::gff::Reader', 'records'), ('io::gff::Writer', 'new')):
        b = facts.method(ty, nm)
        key = '%s::%s|separator-from-GffType' % (ty, nm)
        if b is None:
            rep.missing(rule, '%s::%s' % (ty, nm), 'not found')
            continue
        rep.analysed_body(b)
        ok = any(call_info(t) and call_info(t)['fn'] == 'io::gff::GffType::separator' for _bb, t in b.calls())
        if ok:
            rep.ok(rule, key, '%s:%s' % (b.file, b.line), 'calls GffType::separator')
        else:
            rep.bad(rule, key, '%s:%s' % (b.file, b.line), 'does not obtain its separators from GffType::separator')
    # which tuple element is used where: reader key/value delim = .0, pair terminator = .1, value delimiter = .2
    # regex named groups vs indexes
    rec = facts.method('io::gff::Reader', 'records')
    groups = set()
    if rec is not None:
        import re as _re
        for bb in rec.reachable(0):
            for s in rec.stmts(bb):
                for x in walk(rec.expr_rvalue(s['r'])) if s['k'] == 'assign' else ():
                    if isinstance(x, tuple) and x[0] == 'const' and isinstance(x[1], tuple) and x[1][0] == 'bytes':
                        try:
                            txt = bytes(x[1][1]).decode('utf8', 'replace')
                        except Exception:
                            continue
                        groups |= set(_re.findall(r'\(\?P<([A-Za-z_]+)>', txt))
            t = rec.term(bb)
            if t['k'] == 'call':
                for a in t['args']:
                    for x in walk(rec.expr_operand(a)):
                        if isinstance(x, tuple) and x[0] == 'const' and isinstance(x[1], tuple) and x[1][0] == 'bytes':
                            try:
                                txt = bytes(x[1][1]).decode('utf8', 'replace')
                            except Exception:
                                continue
                            groups |= set(_re.findall(r'\(\?P<([A-Za-z_]+)>', txt))
    nxt = facts.method('io::gff::Records', 'next', 'Iterator')
    idx = []
    if nxt is not None:
        for b in [nxt] + facts.closures_of(nxt.path):
            rep.analysed_body(b)
            for bb, t in b.calls():
                info = call_info(t)
                if info and info['fn'].endswith('Index::index') and 'regex' in ' '.join(info.get('args', [])):
                    e = strip(b.expr_operand(t['args'][1], inline_user=True))
                    if e[0] == 'const' and isinstance(e[1], tuple) and e[1][0] == 'bytes':
                        idx.append((bytes(e[1][1]).decode(), b, bb))
    rep.floor(rule, 'named-group indexes in gff::Records::next', len(idx), 2)
    for name, b, bb in idx:
        key = 'io::gff::Records::next|caps[%s]-defined-by-regex' % name
        if name in groups:
            rep.ok(rule, key, b.loc(bb), 'group defined in the attribute regex')
        else:
            rep.bad(rule, key, b.loc(bb), 'caps["%s"] indexes a group the attribute regex does not define (groups: %s): '
                                          'panics on every attribute' % (name, sorted(groups)))


def ri4(facts, rep):
    from . import effects, eng_ri
    rule = 'RI-4'
    rep.rule(rule, 'writer history independence: gff::Writer::write and bed::Writer::write may keep scratch state in the '
                   'writer object only if its first mention in every call is a reset; configuration fields set by the '
                   'constructor are never written by write (the csv writer `inner` is the output sink and is exempt)')
    eff = effects.Effects(facts)
    n = 0
    for ty in ('io::gff::Writer', 'io::bed::Writer'):
        b = facts.method(ty, 'write')
        if b is None:
            rep.missing(rule, ty + '::write', 'not found')
            continue
        n += 1
        rep.analysed_body(b)
        written = {effects.clean(p)[:1] for p in eff.param_writes(b, 1) if effects.clean(p)}
        written = {w[0] for w in written if w and w[0] != 'inner'}
        key = '%s::write|scratch-state-reset-per-call' % ty
        if not written:
            rep.ok(rule, key, '%s:%s' % (b.file, b.line), 'write() modifies no field of the writer besides the csv sink')
            continue
        bufs = {w: (w,) for w in sorted(written)}
        ri = eng_ri.RI(facts, b, bufs, peel=False).run()
        bad = sorted({v[0] for v in ri.violations})
        never = [w for w in bufs if w not in {r[0] for r in ri.resets}]
        if bad or never:
            rep.bad(rule, key, '%s:%s' % (b.file, b.line),
                    'write() keeps state in self.%s that is used before being reset on some path: a record can be written with '
                    'data of the previous record' % ', self.'.join(sorted(set(bad) | set(never))))
        else:
            rep.ok(rule, key, '%s:%s' % (b.file, b.line), 'scratch fields %s reset before use on every path' % sorted(bufs))
    rep.floor(rule, 'writers', n, 2)


def run(facts, rep, ctx):
    ri4(facts, rep)
    ef4(facts, rep)
    validator(facts, rep)
    tb4(facts, rep)


_run_before_round3 = run


def run(facts, rep, ctx):
    """rules added after the second seeding round, second half (rules/round3.py)"""
    _run_before_round3(facts, rep, ctx)
    from . import round3
    round3.qs1(facts, rep)


_run_before_round4b = run


def run(facts, rep, ctx):
    """further rules added after the third seeding round (rules/round4.py)"""
    _run_before_round4b(facts, rep, ctx)
    from . import round4
    round4.vd2(facts, rep)
    round4.tb4c(facts, rep)



_run_before_round5 = run


def run(facts, rep, ctx):
    """rules added after the fourth seeding round (rules/round5.py)"""
    _run_before_round5(facts, rep, ctx)
    from . import round5
    round5.tb4b(facts, rep)
    round5.co1(facts, rep)


_run_before_round6 = run


def run(facts, rep, ctx):
    """rules added after the fifth seeding round (rules/round6.py)"""
    _run_before_round6(facts, rep, ctx)
    from . import round6
    round6.mm1(facts, rep)
    round6.tb4c(facts, rep)


_run_before_round7 = run


def run(facts, rep, ctx):
    """rules added in the sixth seeding round (rules/round7.py)"""
    _run_before_round7(facts, rep, ctx)
    from . import round7
    round7.ef4b(facts, rep)
