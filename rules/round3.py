"""Rules added after the second half of the second seeding round (16 seeds for C08, C11-C13, C15, C18-C20; 7 caught by the
rules as they were).  As in round2.py each rule is a necessary condition of a clause, phrased on facts."""
import re
from . import eng_gd
from .mirlib import call_info, strip, strip_casts, fmt, walk
from .poly import poly, pstr


def _const_bytes(body, operand):
    e = strip(body.expr_operand(operand, inline_user=True))
    for x in walk(e):
        if isinstance(x, tuple) and x[0] == 'const' and isinstance(x[1], tuple) and x[1][0] == 'bytes':
            v = x[1][1]
            return bytes(v) if not isinstance(v, bytes) else v
    return None


# ------------------------------------------------------------------------------------------------ LT-2 (C11)
def lt2(facts, rep, rule='LT-2'):
    """writers terminate the last line of every record"""
    rep.rule(rule, 'record termination: on every path on which fasta::Writer::write / fastq::Writer::write (and the closures they '
                   'pass to iterator adaptors) return normally after writing something, the last thing written ends with a '
                   'newline - otherwise the next record\'s header is glued to the previous record and the file does not read '
                   'back as the records that were written')
    n = 0
    targets = facts.methods('io::fasta::Writer', 'write') + facts.methods('io::fastq::Writer', 'write') + \
        facts.methods('io::fasta::Writer', 'write_record_header')
    for b0 in targets:
        for b in facts.family(b0):
            writes = {}
            for bb, t in b.calls():
                info = call_info(t)
                if info and info['fn'].endswith('Write::write_all') and len(t['args']) == 2:
                    cb = _const_bytes(b, t['args'][1])
                    writes[bb] = 'nl' if (cb is not None and cb.endswith(b'\n')) else 'other'
                elif info and info.get('crate') == facts.crate and info['fn'].endswith('write_record_header'):
                    writes[bb] = 'nl'      # checked as its own target
            if not writes:
                continue
            n += 1
            rep.analysed_body(b)
            key = '%s|last-write-ends-the-line' % b.path
            # forward dataflow: state per block = set of possible "last write" kinds at block entry
            inst = {0: {'none'}}
            work = [0]
            while work:
                x = work.pop()
                st = set(inst[x])
                if x in writes:
                    st = {writes[x]}
                for s_ in b.succ[x]:
                    # the error edge of `?` after a failed write is an Err return: only normal completion matters, but
                    # it is simpler (and conservative) to follow every edge and judge Ok returns below
                    old = inst.get(s_, set())
                    if not st <= old:
                        inst[s_] = old | st
                        work.append(s_)
            bad = None
            for r in b.return_blocks():
                st = inst.get(r, set())
                if 'other' not in st:
                    continue
                # is this return reached on a path that produced Ok? (an Err return after a failed write is fine):
                # accept when every path from the last non-newline write to r passes an Err construction / from_residual
                for wbb, kind in writes.items():
                    if kind != 'other':
                        continue
                    reg = eng_gd.region(b, wbb, stop={x for x, k in writes.items() if x != wbb})
                    if r not in reg:
                        continue
                    # paths wbb -> r that avoid error propagation blocks
                    errs = {x for x in reg if b.term(x)['k'] == 'call' and call_info(b.term(x)) and
                            call_info(b.term(x))['fn'].endswith('FromResidual::from_residual')}
                    reach = eng_gd.region(b, b.term(wbb).get('t', wbb), stop=errs | {x for x, k in writes.items() if x != wbb})
                    if r in (reach - errs):
                        # reachable without passing an error-propagation block
                        ok_path = True
                        # exclude: r reachable only through errs
                        st2 = [b.term(wbb).get('t', wbb)]
                        seen = set(st2)
                        hit = False
                        while st2:
                            y = st2.pop()
                            if y == r:
                                hit = True
                                break
                            if y in errs or (y in writes and y != wbb):
                                continue
                            for z in b.succ[y]:
                                if z not in seen:
                                    seen.add(z)
                                    st2.append(z)
                        if hit:
                            bad = wbb
            if bad is not None:
                rep.bad(rule, key, b.loc(bad), 'after this write the function can return successfully without having written a line '
                                               'terminator')
            else:
                rep.ok(rule, key, '%s:%s' % (b.file, b.line), '%d write(s); every successful return follows a write ending in \\n' % len(writes))
    rep.floor(rule, 'writer bodies', n, 3)


# ------------------------------------------------------------------------------------------------ SK-1 (C11)
def sk1(facts, rep, rule='SK-1'):
    rep.rule(rule, 'sniffing a seekable stream: get_kind_seek reads one byte and seeks back relative to the current position by '
                   'exactly that byte (SeekFrom::Current(-1)), so the parser that follows sees the stream where the caller left it')
    b = facts.body('io::fastx::get_kind_seek')
    key = 'io::fastx::get_kind_seek|rewinds-exactly-what-it-read'
    if b is None:
        rep.missing(rule, key, 'not found')
        return
    rep.analysed_body(b)
    seeks = [(bb, t) for bb, t in b.calls() if call_info(t) and call_info(t)['fn'].endswith('Seek::seek')]
    if len(seeks) != 1:
        rep.bad(rule, key, '%s:%s' % (b.file, b.line), 'expected one seek, found %d' % len(seeks))
        return
    bb, t = seeks[0]
    e = strip(b.expr_operand(t['args'][1], inline_user=True))
    ok = e[0] == 'agg' and e[2].endswith('SeekFrom::Current') and len(e[3]) == 1 and strip_casts(e[3][0])[0] == 'const' and \
        strip_casts(e[3][0])[1] == -1
    if ok:
        rep.ok(rule, key, b.loc(bb), 'seek(SeekFrom::Current(-1)) after read_exact of one byte')
    else:
        rep.bad(rule, key, b.loc(bb), 'the stream is repositioned with `%s`: a sniff at a non-zero offset moves the caller\'s position' % fmt(e)[:80])


# ------------------------------------------------------------------------------------------------ QS-1 (C13)
def qs1(facts, rep, rule='TB-4'):
    """csv quoting agrees between the BED/GFF writers and readers"""
    for mod in ('bed', 'gff'):
        key = 'io::%s|writer-and-reader-agree-on-quoting' % mod
        wr = [b for b in facts.body_list if b.path.startswith('io::%s::Writer' % mod) and b.name in ('new', 'from_writer')]
        rd = [b for b in facts.body_list if b.path.startswith('io::%s::Reader' % mod) and b.name in ('new', 'from_reader')]
        if not wr or not rd:
            rep.missing(rule, key, 'constructors not found')
            continue

        def settings(bodies):
            out = {}
            for b in bodies:
                for bb, t in b.calls():
                    info = call_info(t)
                    if info and ('WriterBuilder' in info['fn'] or 'ReaderBuilder' in info['fn']):
                        nm = info['fn'].rsplit('::', 1)[-1]
                        if nm in ('quote_style', 'quoting', 'double_quote', 'escape', 'quote') and len(t['args']) > 1:
                            out[nm] = fmt(strip(b.expr_operand(t['args'][1], inline_user=True)))
            return out
        ws, rs = settings(wr), settings(rd)
        never = 'Never' in ws.get('quote_style', '')
        rq_off = rs.get('quoting') in ('false', '0', 'False')
        if never and not rq_off:
            rep.bad(rule, key, '%s:%s' % (wr[0].file, wr[0].line), 'the writer never quotes (%s) but the reader still interprets quotes: a '
                                                                   'field that starts with `"` is read back differently' % ws)
        elif rq_off and not never and 'quote_style' not in ws:
            rep.bad(rule, key, '%s:%s' % (rd[0].file, rd[0].line), 'the reader ignores quotes but the writer still quotes fields containing '
                                                                   'the delimiter or a quote')
        else:
            rep.ok(rule, key, '%s:%s' % (wr[0].file, wr[0].line), 'writer %s / reader %s' % (ws or 'default quoting', rs or 'default quoting'))


# ------------------------------------------------------------------------------------------------ FW-1 (C18)
def fw1(facts, rep, rule='FW-1'):
    rep.rule(rule, 'Fenwick tree is generic over its operator: FenwickTree::set and ::get combine stored values only through '
                   'PrefixOp::operation - a comparison of values (a shortcut that is valid for max) silently breaks the sum variant')
    n = 0
    for nm in ('set', 'get'):
        b = facts.method('data_structures::bit_tree::FenwickTree', nm)
        key = 'FenwickTree::%s|values-combined-only-through-the-operator' % nm
        if b is None:
            rep.missing(rule, key, 'not found')
            continue
        n += 1
        rep.analysed_body(b)
        ops = [bb for bb, t in b.calls() if call_info(t) and call_info(t)['fn'].endswith('PrefixOp::operation')]
        cmps = []
        for bb, t in b.calls():
            info = call_info(t)
            if info and info.get('trait') in ('std::cmp::PartialOrd', 'std::cmp::PartialEq', 'std::cmp::Ord') and \
                    (info.get('args') or [''])[0] == 'T':
                cmps.append(bb)
        for bb in b.reachable(0):
            for s in b.stmts(bb):
                if s['k'] == 'assign' and s['r']['k'] == 'bin' and s['r']['op'] in ('Lt', 'Le', 'Gt', 'Ge', 'Eq', 'Ne'):
                    for o in (s['r']['a'], s['r']['b']):
                        pl = o.get('c') or o.get('m')
                        if pl is not None and (pl.get('ty') or b.locals[pl['l']]['ty']) == 'T':
                            cmps.append(bb)
        if not ops:
            rep.bad(rule, key, '%s:%s' % (b.file, b.line), 'the operator is not applied at all')
        elif cmps:
            rep.bad(rule, key, b.loc(cmps[0]), 'stored values are compared directly: only valid for an idempotent, monotone operator '
                                               '(max), wrong for sums')
        else:
            rep.ok(rule, key, b.loc(ops[0]), 'Op::operation only')
    rep.floor(rule, 'methods', n, 2)


# ------------------------------------------------------------------------------------------------ QM-1 (C19)
def qm1(facts, rep, rule='QM-1'):
    rep.rule(rule, 'q-gram mask: the mask kept by the q-gram iterators is 2^(q*bits) - 1; when q*bits fills the machine word the '
                   'shift overflows and the replacement value must be 0, so that the wrapping subtraction of 1 yields all ones '
                   '(any other replacement clears rank bits and makes codes collide)')
    n = 0
    for nm in ('qgrams', 'rev_qgrams'):
        b = facts.method('alphabets::RankTransform', nm)
        if b is None:
            continue
        for bb in b.reachable(0):
            for s in b.stmts(bb):
                if s['k'] == 'assign' and s['r']['k'] == 'agg' and 'mask' in (s['r'].get('fields') or []):
                    n += 1
                    key = 'RankTransform::%s|mask-is-all-ones-on-overflow' % nm
                    o = s['r']['ops'][s['r']['fields'].index('mask')]
                    e = strip_casts(b.expr_operand(o, inline_user=True))
                    txt = fmt(e)
                    # shape: wrapping_sub(unwrap_or(checked_shl(1, w), R), 1)  (or the expanded combinator form)
                    repl = None
                    for x in walk(e):
                        if isinstance(x, tuple) and x[0] == 'call' and x[1].rsplit('::', 1)[-1] in ('unwrap_or',) and len(x[2]) == 2:
                            r = strip_casts(x[2][1])
                            if r[0] == 'const':
                                repl = r[1]
                    sub1 = any(isinstance(x, tuple) and x[0] == 'call' and x[1].rsplit('::', 1)[-1] == 'wrapping_sub' and
                               strip_casts(x[2][1])[0] == 'const' and strip_casts(x[2][1])[1] == 1 for x in walk(e))
                    checked = 'checked_shl' in txt
                    if checked and sub1 and repl == 0:
                        rep.ok(rule, key, b.loc(bb), '1.checked_shl(w).unwrap_or(0).wrapping_sub(1)')
                    elif checked and sub1:
                        rep.bad(rule, key, b.loc(bb), 'on shift overflow the mask becomes (%s - 1), not all ones' % repl)
                    else:
                        # another formulation: must at least not be a plain `1 << w` (panics / wraps for w = word size)
                        if re.search(r'Shl\(1, ', txt) and 'checked' not in txt:
                            rep.bad(rule, key, b.loc(bb), 'mask computed with an unchecked shift: q*bits = word size overflows')
                        else:
                            rep.audited(rule, key, b.loc(bb), 'mask expression `%s` is not of the known form; not judged' % txt[:80])
    rep.floor(rule, 'mask sites', n, 1)


# ------------------------------------------------------------------------------------------------ GD-11 (C20)
def _upstream_predicates(facts, parent, closure_path):
    """closures p of `.filter(p)` / `.take_while(p)` / `.skip_while(!)`-free chains feeding the adaptor call that receives the
    closure `closure_path` (map / filter_map / for_each / flat_map ...) in `parent` or its closures"""
    out = []
    for pb in facts.family(parent):
        for bb, t in pb.calls():
            for a in t['args']:
                e = strip(pb.expr_operand(a, inline_user=True))
                for x in walk(e):
                    if isinstance(x, tuple) and x[0] == 'call' and len(x) > 2 and x[1].rsplit('::', 1)[-1] in (
                            'map', 'filter_map', 'for_each', 'flat_map', 'map_while') and len(x[2]) == 2:
                        f = strip(x[2][1])
                        if isinstance(f, tuple) and f[0] == 'agg' and f[1] == 'closure' and f[2] == closure_path:
                            for y in walk(x[2][0]):
                                if isinstance(y, tuple) and y[0] == 'call' and y[1].rsplit('::', 1)[-1] in ('filter', 'take_while') \
                                        and len(y[2]) == 2:
                                    g = strip(y[2][1])
                                    if isinstance(g, tuple) and g[0] == 'agg' and g[1] == 'closure' and g[2] not in out:
                                        out.append(g[2])
    return out


def gd11(facts, rep, rule='GD-11'):
    rep.rule(rule, 'ORF minimum length: every Orf that is reported is built behind a length test (`.. > min_len`) on the very start '
                   'position it is built from - a test hoisted to another (e.g. the outermost) start lets too-short nested frames '
                   'through')
    b = None
    for c in facts.body_list:
        if c.name == 'next' and (c.raw.get('impl_self') or '').startswith('seq_analysis::orf::Matches'):
            b = facts.view(c)
    key = 'orf::Matches::next|length-test-on-the-reported-start'
    if b is None:
        rep.missing(rule, key, 'not found')
        return
    rep.analysed_body(b)
    aggs = []
    fam = facts.family(b)        # an Orf may be built in a closure (`.map(|start| Orf {..})`): the test must be there too
    for c in fam:
        for bb in c.reachable(0):
            for s in c.stmts(bb):
                if s['k'] == 'assign' and s['r']['k'] == 'agg' and (s['r'].get('adt') or '').endswith('orf::Orf'):
                    aggs.append((c, bb, s))
    if not aggs:
        rep.missing(rule, key, 'no Orf literal found')
        return
    roots_of = lambda e: {x[1] for x in walk(e) if isinstance(x, tuple) and x[0] == 'local'}
    bad = None
    for c, bb, s in aggs:
        start_op = s['r']['ops'][s['r']['fields'].index('start')]
        se = strip_casts(c.expr_operand(start_op, inline_user=True))
        svars = roots_of(se)
        ok = False
        for g in eng_gd.guards(c):
            e = strip_casts(g['expr'])
            if 'min_len' not in fmt(e):
                continue
            for tgt in (g['t'], g['f']):
                if c.edge_dominates((g['bb'], tgt), bb):
                    gvars = roots_of(e)
                    # the tested quantity must mention the same start variable (beyond self / the closure environment)
                    common = (svars & gvars) - {1}
                    if common:
                        ok = True
        if not ok and c.kind == 'Closure' and 2 in svars:
            # `.filter(pred) / .take_while(pred)` upstream of the `.map(|start| Orf {..})` that builds it: elements reaching the
            # map closure satisfied pred, so the length test may live there (on pred's own element parameter)
            for pp in _upstream_predicates(facts, b, c.path):
                pc = facts.bodies.get(pp)
                if pc is None:
                    continue
                rep.analysed_body(pc)
                for pbb in pc.reachable(0):
                    for st in pc.stmts(pbb):
                        if st['k'] == 'assign' and st['r']['k'] == 'bin' and st['r']['op'] in ('Lt', 'Le', 'Gt', 'Ge'):
                            e = strip_casts(pc.expr_rvalue(st['r'], inline_user=True))
                            if 'min_len' in fmt(e) and 2 in roots_of(e):
                                ok = True
        if not ok:
            bad = (c, bb)
    if bad is not None:
        rep.bad(rule, key, bad[0].loc(bad[1]), 'this Orf is reported without a dominating `min_len` test on its own start position')
    else:
        rep.ok(rule, key, aggs[0][0].loc(aggs[0][1]), '%d Orf literal(s), each behind a min_len test on its start' % len(aggs))
