"""C03 — SB-7: writer/reader agreement of the sampled suffix array (SuffixArray::sample vs SampledSuffixArray::get)."""
from . import eng_gd
from .mirlib import call_info, strip, strip_casts, fmt, walk

LEVEL = 'other'
SA = 'data_structures::suffix_array'


def rem_guards(b):
    """guards of the form (X % Y) == 0: list of (guard, X expr, Y expr)"""
    out = []
    for g in eng_gd.guards(b):
        e = strip_casts(g['expr'])
        if e[0] == 'bin' and e[1] == 'Eq':
            for a, c in ((e[2], e[3]), (e[3], e[2])):
                a = strip_casts(a)
                c = strip_casts(c)
                if a[0] == 'bin' and a[1] == 'Rem' and c[0] == 'const' and c[1] == 0:
                    out.append((g, strip_casts(a[2]), strip_casts(a[3])))
    return out


def sentinel_guards(b, sentinel_pred):
    out = []
    for g in eng_gd.guards(b):
        e = strip_casts(g['expr'])
        if e[0] == 'bin' and e[1] == 'Eq':
            for a, c in ((e[2], e[3]), (e[3], e[2])):
                if sentinel_pred(strip_casts(c)):
                    out.append((g, strip_casts(a)))
    return out


def sb7(facts, rep):
    rule = 'SB-7'
    rep.rule(rule, 'writer/reader agreement of the sampled suffix array: sample() stores row i iff i % rate == 0 and get() '
                   'looks a row up in `sample[pos / s]` iff pos % s == 0 with s the stored rate; rows that are not sampled and '
                   'whose BWT symbol is the sentinel are inserted into extra_rows keyed by the row, and get() indexes '
                   'extra_rows[&pos] exactly under that condition with the stored sentinel')
    w = facts.body(SA + '::SuffixArray::sample')
    r = facts.one(r'^<data_structures::suffix_array::SampledSuffixArray<.*> as data_structures::suffix_array::SuffixArray>::get$')
    if w is None or r is None:
        rep.missing(rule, 'SuffixArray::sample / SampledSuffixArray::get', 'anchor not found (%s, %s)' % (w, r))
        return
    rep.analysed_body(w)
    rep.analysed_body(r)
    # ---- writer
    lit = None
    for bb in w.reachable(0):
        for s in w.stmts(bb):
            if s['k'] == 'assign' and s['r']['k'] == 'agg' and s['r'].get('adt') == SA + '::SampledSuffixArray':
                lit = {f: strip_casts(w.expr_operand(o, inline_user=True)) for f, o in zip(s['r']['fields'], s['r']['ops'])}
    key = 'sample|struct-literal'
    if lit is None:
        rep.missing(rule, key, 'SampledSuffixArray literal not found')
        return
    rate = lit.get('s')
    sent = lit.get('sentinel')
    key = 'sample|sentinel-taken-from-the-text'
    if sent is not None and sent[0] == 'call' and sent[1].endswith('suffix_array::sentinel') and len(sent[2]) == 1 and \
            strip_casts(sent[2][0])[0] == 'local' and strip_casts(sent[2][0])[1] == 2:
        rep.ok(rule, key, '%s:%s' % (w.file, w.line), 'sentinel(text)')
    else:
        rep.bad(rule, key, '%s:%s' % (w.file, w.line), 'the sentinel kept in the sampled array is `%s`, not the terminating symbol '
                                                       'of the text (suffix_array::sentinel(text)): for texts ending in another '
                                                       'sentinel no extra rows are recorded and get() walks through sentinel rows' % (
                    fmt(sent) if sent else None))
    wg = rem_guards(w)
    key = 'sample|stores-rows-with-i-mod-rate-eq-0'
    ok_w = False
    wrow = None
    if len(wg) == 1:
        g, x, y = wg[0]
        y0 = strip_casts(w.expr_operand({'c': {'l': y[1]}}, inline_user=False)) if y[0] == 'local' else y
        pushes = [bb for bb, t in w.calls() if call_info(t) and call_info(t)['fn'].endswith('Vec::<T, A>::push')]
        if y == rate and pushes and all(w.edge_dominates((g['bb'], g['t']), p) for p in pushes):
            ok_w = True
            wrow = x
    if ok_w:
        rep.ok(rule, key, w.loc(wg[0][0]['bb']), 'push on the edge (row %% %s) == 0; field s = %s' % (fmt(rate), fmt(rate)))
    else:
        rep.bad(rule, key, '%s:%s' % (w.file, w.line), 'sample() does not store exactly the rows with row %% rate == 0 where '
                                                       'rate is the value kept in field `s` (guards: %s, s = %s)' % (
                    [fmt(x) + ' % ' + fmt(y) for _g, x, y in wg], fmt(rate) if rate else None))
    # extra rows in the writer
    key = 'sample|extra-rows-for-unsampled-sentinel-rows'
    ws = sentinel_guards(w, lambda c: c == sent)
    inserts = [(bb, t) for bb, t in w.calls() if call_info(t) and 'HashMap::<' in call_info(t)['fn'] and call_info(t)['fn'].endswith('::insert')]
    ok_e = False
    if len(ws) == 1 and len(inserts) == 1 and wg:
        g2, lhs = ws[0]
        ibb, it = inserts[0]
        keyexpr = strip_casts(w.expr_operand(it['args'][1], inline_user=True))
        lhs_ok = lhs[0] == 'call' and lhs[1].endswith('index') or lhs[0] == 'index' or 'index' in fmt(lhs)
        if w.edge_dominates((g2['bb'], g2['t']), ibb) and w.edge_dominates((wg[0][0]['bb'], wg[0][0]['f']), ibb) and \
                wrow is not None and keyexpr == wrow and lhs_ok:
            ok_e = True
    if ok_e:
        rep.ok(rule, key, w.loc(inserts[0][0]), 'insert(row, idx) iff not sampled and bwt[row] == sentinel')
    else:
        rep.bad(rule, key, '%s:%s' % (w.file, w.line), 'extra_rows is not filled exactly for unsampled rows whose BWT symbol is the sentinel')
    # ---- reader
    rg = rem_guards(r)
    key = 'get|sample-lookup-iff-pos-mod-s-eq-0'
    ok_r = False
    if len(rg) == 1:
        g, x, y = rg[0]
        idx = [(bb, t) for bb, t in r.calls() if call_info(t) and call_info(t)['fn'].endswith('Index::index') and
               fmt(strip(r.expr_operand(t['args'][0], inline_user=True))) == 'self.sample']
        if fmt(y) == 'self.s' and len(idx) == 1:
            # single-assignment locals (e.g. a cached `let s = self.s`) are looked through; `pos` itself is mutable
            ie = strip_casts(r.expr_operand(idx[0][1]['args'][1], inline_user=True))
            if ie[0] == 'bin' and ie[1] == 'Div' and fmt(strip_casts(ie[3])) == 'self.s' and strip_casts(ie[2]) == x and \
                    r.edge_dominates((g['bb'], g['t']), idx[0][0]):
                ok_r = True
    if ok_r:
        rep.ok(rule, key, r.loc(rg[0][0]['bb']), 'sample[pos / self.s] on the edge pos % self.s == 0')
    else:
        rep.bad(rule, key, '%s:%s' % (r.file, r.line), 'get() does not read sample[pos / s] exactly when pos %% s == 0 (guards: %s)' % [
            fmt(x) + ' % ' + fmt(y) for _g, x, y in rg])
    key = 'get|extra-row-lookup-iff-unsampled-sentinel-row'
    rs = sentinel_guards(r, lambda c: fmt(c) == 'self.sentinel')
    eidx = [(bb, t) for bb, t in r.calls() if call_info(t) and call_info(t)['fn'].endswith('Index::index') and
            fmt(strip(r.expr_operand(t['args'][0], inline_user=True))) == 'self.extra_rows']
    ok_x = False
    if len(rs) == 1 and len(eidx) == 1 and rg:
        g2, lhs = rs[0]
        ebb, et = eidx[0]
        kx = strip_casts(r.expr_operand(et['args'][1], inline_user=True))
        posx = rg[0][1]
        if r.edge_dominates((g2['bb'], g2['t']), ebb) and r.edge_dominates((rg[0][0]['bb'], rg[0][0]['f']), ebb) and \
                kx == posx:
            ok_x = True
    if ok_x:
        rep.ok(rule, key, r.loc(eidx[0][0]), 'extra_rows[&pos] iff pos % s != 0 and bwt[pos] == self.sentinel')
    else:
        rep.bad(rule, key, '%s:%s' % (r.file, r.line), 'extra_rows is indexed under a different condition / key than it is filled: '
                                                       'missing key panic or shifted position')
    # the in-range refusal
    key = 'get|index-in-range-else-None'
    es = eng_gd.edges_where(r, lambda c: c[0] == 'Lt' and c[1] == r.local_name(2) and 'len' in c[2])
    if es:
        rep.ok(rule, key, r.loc(es[0][0]), 'index < self.len()')
    else:
        rep.bad(rule, key, '%s:%s' % (r.file, r.line), 'no `index < len` guard')


def nf1(facts, rep):
    rule = 'NF-1'
    rep.rule(rule, 'no float-rounded counts: in SuffixArray::sample a value that went through an int -> float -> int round trip '
                   '(f32 has 24 bits of mantissa) may only be used as a capacity hint (Vec::with_capacity / reserve), never as a '
                   'loop bound, length or index - otherwise arrays beyond 2^24 rows are sampled one entry short')
    w = facts.body(SA + '::SuffixArray::sample')
    if w is None:
        rep.missing(rule, SA + '::SuffixArray::sample', 'not found')
        return
    from .eng_ri import uses_of_locals
    tainted = set()
    for fb in [w] + facts.closures_of(w.path):
        rep.analysed_body(fb)
    # seeds: locals assigned from a FloatToInt cast
    for bb in w.reachable(0):
        for s in w.stmts(bb):
            if s['k'] == 'assign' and s['r']['k'] == 'cast' and s['r']['ck'] == 'FloatToInt' and 'pj' not in s['p']:
                tainted.add(s['p']['l'])
    uses = uses_of_locals(w)
    bad = []
    work = list(tainted)
    seen = set()
    n = len(tainted)
    while work:
        l = work.pop()
        if l in seen:
            continue
        seen.add(l)
        for (kind, ubb, x) in uses.get(l, []):
            if kind == 'stmt':
                s = w.stmts(ubb)[x]
                if s['k'] == 'assign' and 'pj' not in s['p']:
                    work.append(s['p']['l'])
                else:
                    bad.append((ubb, 'stored / used in `%s`' % s.get('d', '')[:60]))
            else:
                t = w.term(ubb)
                if t['k'] == 'call' and call_info(t):
                    nm = call_info(t)['fn'].rsplit('::', 1)[-1]
                    if nm in ('with_capacity', 'reserve', 'reserve_exact'):
                        continue
                    bad.append((ubb, 'passed to %s' % call_info(t)['fn']))
                elif t['k'] in ('assert', 'switch'):
                    bad.append((ubb, 'used in a bound / comparison'))
    key = 'sample|float-rounded-count-only-as-capacity'
    if bad:
        rep.bad(rule, key, w.loc(bad[0][0]), 'a count computed through f32 is %s: for more than 2^24 rows it is off by one' % bad[0][1])
    else:
        rep.ok(rule, key, '%s:%s' % (w.file, w.line), '%d float-derived value(s), used only as capacity hints' % n)


def run(facts, rep, ctx):
    sb7(facts, rep)
    nf1(facts, rep)
    # the LCP array is a SmallInts<i8, isize>: its small/big threshold must agree between writer and reader (see C18/SB-5)
    from .c18 import smallints_thresholds
    rep.rule('SB-5s', 'LCP storage: SmallInts::{push,set,real_value} decide small-vs-big with the same strict comparison '
                      'against S::max_value() (an LCP equal to the small maximum must live in the overflow map)')
    smallints_thresholds(facts, rep, 'SB-5s')


_run_before_round2 = run


def run(facts, rep, ctx):
    """rules added after the second round of independent seeding (rules/round2.py)"""
    _run_before_round2(facts, rep, ctx)
    from . import round2
    round2.nc1(facts, rep)


_run_before_round4 = run


def run(facts, rep, ctx):
    """rules added after the third seeding round (rules/round4.py)"""
    _run_before_round4(facts, rep, ctx)
    from . import round4
    round4.tb11(facts, rep)
    # positions are resolved through Occ::get for every sampling rate: SB-10 of C04 is part of this check
    from . import c04
    c04.run(facts, rep, ctx)

