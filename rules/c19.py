"""C19 k-mer indexing — CS-1 (tables indexed by q-gram codes are sized by the encoder's code space), SB-6 (qgrams /
rev_qgrams agree on bits and bound), TS-8 (match vectors are sorted after their last push)."""
from . import eng_gd
from .mirlib import call_info, strip, strip_casts, fmt, walk

LEVEL = 'other'
QI = 'data_structures::qgram_index::QGramIndex'


def cs1(facts, rep):
    rule = 'CS-1'
    rep.rule(rule, 'code-space consistency: q-gram codes produced by RankTransform::qgrams use get_width() = '
                   'ceil(log2 |A|) bits per symbol, so every table of QGramIndex::with_max_count whose length depends on '
                   'q must be sized 1 << (q * get_width()) - a size derived from |A|.pow(q) is too small for alphabets '
                   'whose size is not a power of two')
    b = facts.method(QI, 'with_max_count')
    if b is None:
        rep.missing(rule, QI + '::with_max_count', 'not found')
        return
    rep.analysed_body(b)
    n = 0
    for bb, t in b.calls():
        info = call_info(t)
        if not info or not info['fn'].endswith('vec::from_elem'):
            continue
        e = strip_casts(b.expr_operand(t['args'][1], inline_user='force'))
        subs = list(walk(e))
        uses_q = any(isinstance(x, tuple) and x[0] == 'local' and x[1] == 1 for x in subs)
        if not uses_q:
            continue
        n += 1
        key = '%s::with_max_count|table-size@%d' % (QI, n)
        has_pow = any(isinstance(x, tuple) and x[0] == 'call' and x[1].rsplit('::', 1)[-1] in ('pow', 'checked_pow', 'powi')
                      for x in subs)
        has_alen = any(isinstance(x, tuple) and x[0] == 'call' and x[1].endswith('Alphabet::len') for x in subs)
        shl = [x for x in subs if isinstance(x, tuple) and (
            (x[0] == 'bin' and x[1].startswith('Shl')) or
            (x[0] == 'call' and x[1].rsplit('::', 1)[-1] in ('checked_shl', 'wrapping_shl', 'overflowing_shl')))]
        width_in_shift = any(
            any(isinstance(y, tuple) and y[0] == 'call' and y[1].endswith('RankTransform::get_width') for y in walk(x))
            for x in shl)
        if has_pow and has_alen:
            rep.bad(rule, key, b.loc(bb), 'table length is %s: |A|^q entries, but codes range over 2^(q*ceil(log2|A|)); '
                                          'out-of-bounds for any alphabet whose size is not a power of two' % fmt(e))
        elif shl and width_in_shift:
            rep.ok(rule, key, b.loc(bb), 'sized by a shift of q * get_width()')
        else:
            rep.bad(rule, key, b.loc(bb), 'cannot relate the table length %s to the code space 1 << (q * get_width())' % fmt(e))
    rep.floor(rule, 'q-dependent tables in with_max_count', n, 2)


def sb6(facts, rep):
    rule = 'SB-6'
    rep.rule(rule, 'sibling agreement: RankTransform::qgrams and rev_qgrams (and get_width) compute the bits per symbol '
                   'with the same expression and assert the same word-size bound')
    q = facts.method('alphabets::RankTransform', 'qgrams')
    r = facts.method('alphabets::RankTransform', 'rev_qgrams')
    w = facts.method('alphabets::RankTransform', 'get_width')
    if q is None or r is None or w is None:
        rep.missing(rule, 'alphabets::RankTransform::{qgrams,rev_qgrams,get_width}', 'not found')
        return
    # shared private helpers (a common "bits per symbol" function) are analysed in place
    from . import inline
    # ... and so is get_width itself when the q-gram constructors call it (all three then show the same formula)
    keep = lambda pth: pth.rsplit('::', 1)[-1] in ('qgrams', 'rev_qgrams', 'new', 'get', 'transform')
    pol = lambda f_, c_, callee, k_: callee.kind in ('Fn', 'AssocFn') and not k_(callee.path) and len(callee.blocks) <= 150
    q, r, w = (inline.inlined(facts, x, keep, policy=pol) for x in (q, r, w))

    def bits_expr(b):
        for bb in b.reachable(0):
            for s in b.stmts(bb):
                if s['k'] == 'assign' and s['r']['k'] == 'agg' and s['r']['ak'] == 'adt' and 'bits' in s['r'].get('fields', []):
                    i = s['r']['fields'].index('bits')
                    return fmt(strip_casts(b.expr_operand(s['r']['ops'][i], inline_user='force')))
        return None
    for b in (q, r, w):
        rep.analysed_body(b)
    bq, br = bits_expr(q), bits_expr(r)
    bw = None
    for bb in w.reachable(0):
        for s in w.stmts(bb):
            if s['k'] == 'assign' and s['p']['l'] == 0 and 'pj' not in s['p']:
                bw = fmt(strip_casts(w.expr_rvalue(s['r'], inline_user='force')))
    key = 'RankTransform|bits-expression-agrees'
    if bq is None or br is None or bw is None:
        rep.missing(rule, key, 'bits expression not found (%s, %s, %s)' % (bq, br, bw))
    elif bq == br == bw:
        rep.ok(rule, key, '%s:%s' % (q.file, q.line), bq)
    else:
        rep.bad(rule, key, '%s:%s' % (r.file, r.line), 'bits per symbol differ: qgrams `%s`, rev_qgrams `%s`, get_width `%s`' % (bq, br, bw))
    gq = sorted(str(g['cmp_true']) for g in eng_gd.guards(q) if g['cmp_true'] and 'BITS' in str(g['cmp_true']) or 'Mul' in str(g.get('cmp_true')))
    gr = sorted(str(g['cmp_true']) for g in eng_gd.guards(r) if g['cmp_true'] and 'BITS' in str(g['cmp_true']) or 'Mul' in str(g.get('cmp_true')))
    key = 'RankTransform|word-size-bound-agrees'
    if gq and gq == gr:
        rep.ok(rule, key, '%s:%s' % (q.file, q.line), gq[0])
    else:
        rep.bad(rule, key, '%s:%s' % (r.file, r.line), 'word-size assertions differ: qgrams %s, rev_qgrams %s' % (gq, gr))


def _tuple_field_source(b, l, idx):
    """place moved into field idx of the tuple held in local l (followed through plain moves), or None"""
    seen = set()
    while l not in seen:
        seen.add(l)
        sd = b.single_def(l)
        if sd is None or sd[0] != 'stmt':
            return None
        r = sd[3]['r']
        if r['k'] == 'use':
            q = r['o'].get('c') or r['o'].get('m')
            if q is None or 'pj' in q:
                return None
            l = q['l']
            continue
        if r['k'] == 'agg' and r.get('ak') == 'tuple' and idx < len(r['ops']):
            return r['ops'][idx].get('c') or r['ops'][idx].get('m')
        return None
    return None


def vec_root(b, o):
    """local of the Vec a (possibly deref_mut'd / reborrowed) reference operand points to"""
    pl = o.get('c') or o.get('m')
    seen = set()
    while pl is not None and 'pj' not in pl and pl['l'] not in seen:
        l = pl['l']
        seen.add(l)
        sd = b.single_def(l)
        if sd is None:
            return l
        if sd[0] == 'stmt':
            r = sd[3]['r']
            if r['k'] == 'ref':
                q = r['p']
                if 'pj' not in q:
                    return q['l']
                if q.get('pj') == ['*']:
                    pl = {'l': q['l']}
                    continue
                return None
            if r['k'] == 'use':
                pl = r['o'].get('c') or r['o'].get('m')
                # a vector moved out of a freshly built tuple (e.g. the pair returned by an inlined helper)
                if pl is not None and len(pl.get('pj', [])) == 1 and isinstance(pl['pj'][0], dict) and 'f' in pl['pj'][0]:
                    q = _tuple_field_source(b, pl['l'], pl['pj'][0]['f'])
                    if q is not None:
                        pl = q
                continue
            return l
        if sd[0] == 'call':
            info = call_info(sd[2])
            if info and info['fn'].rsplit('::', 1)[-1] in ('deref_mut', 'deref', 'as_mut_slice', 'as_mut', 'borrow_mut'):
                pl = sd[2]['args'][0].get('c') or sd[2]['args'][0].get('m')
                continue
            return l
        return l
    return None


def sorted_after_push(b, vec_local):
    pushes = []
    sorts = []
    for bb, t in b.calls():
        info = call_info(t)
        if not info or not t['args']:
            continue
        nm = info['fn'].rsplit('::', 1)[-1]
        if nm in ('push', 'extend', 'extend_from_slice', 'insert', 'append') and vec_root(b, t['args'][0]) == vec_local:
            pushes.append(bb)
        if nm.startswith('sort') and vec_root(b, t['args'][0]) == vec_local:
            sorts.append(bb)
    return pushes, sorts


def SPARSE_KEEP(path):
    return path.rsplit('::', 1)[-1] in ('lcskpp', 'sdpkpp', 'sdpkpp_union_lcskpp_path', 'expand_kmer_matches', 'hash_kmers',
                                        'find_kmer_matches', 'find_kmer_matches_seq1_hashed', 'find_kmer_matches_seq2_hashed')


def ts8(facts, rep):
    rule = 'TS-8'
    rep.rule(rule, 'sortedness typestate: the vectors returned by find_kmer_matches_seq1_hashed and expand_kmer_matches '
                   'pass through sort* after their last push on every path to the return; the event vectors of lcskpp and '
                   'sdpkpp are sorted after their last push before the sweep reads them')
    for nm in ('find_kmer_matches_seq1_hashed', 'expand_kmer_matches'):
        b = facts.body('alignment::sparse::' + nm)
        if b is None:
            rep.missing(rule, 'alignment::sparse::' + nm, 'not found')
            continue
        rep.analysed_body(b)
        # returned vec
        d, _ = b.defs()
        v = None
        for df in d.get(0, []):
            if df[0] == 'stmt' and df[3]['r']['k'] == 'use':
                q = df[3]['r']['o'].get('m') or df[3]['r']['o'].get('c')
                if q is not None and 'pj' not in q:
                    v = q['l']
        key = 'alignment::sparse::%s|returned-vector-sorted-after-last-push' % nm
        if v is None:
            rep.missing(rule, key, 'returned vector local not identified')
            continue
        pushes, sorts = sorted_after_push(b, v)
        if not pushes:
            rep.missing(rule, key, 'no push into the returned vector found')
            continue
        rets = set(b.return_blocks())
        bad = None
        for p in pushes:
            reg = eng_gd.region(b, p, stop=set(sorts) - {p})
            hit = (reg - set(sorts)) & rets
            if hit:
                bad = p
        if bad is not None:
            rep.bad(rule, key, b.loc(bad), 'a path from this push reaches the return without sorting the result: callers '
                                           '(band construction, sparse DP) require sorted matches')
        else:
            rep.ok(rule, key, b.loc(sorts[0]) if sorts else '', '%d push site(s), sort dominates every return path' % len(pushes))
    from . import inline
    for nm in ('lcskpp', 'sdpkpp'):
        b = facts.body('alignment::sparse::' + nm)
        if b is None:
            rep.missing(rule, 'alignment::sparse::' + nm, 'not found')
            continue
        # private helpers (event construction, traceback) are analysed in place
        b = inline.inlined(facts, b, SPARSE_KEEP)
        rep.analysed_body(b)
        key = 'alignment::sparse::%s|events-sorted-before-sweep' % nm
        # the events vector: the one that is sorted
        cand = None
        for bb, t in b.calls():
            info = call_info(t)
            if info and info['fn'].rsplit('::', 1)[-1].startswith('sort') and t['args']:
                cand = vec_root(b, t['args'][0])
        if cand is None:
            rep.bad(rule, key, '%s:%s' % (b.file, b.line), 'the sweep-line events are never sorted')
            continue
        pushes, sorts = sorted_after_push(b, cand)
        # readers: iteration over the vector (into_iter / iter / index)
        readers = []
        for bb, t in b.calls():
            info = call_info(t)
            if info and t['args'] and info['fn'].rsplit('::', 1)[-1] in ('into_iter', 'iter', 'index') and \
                    vec_root(b, t['args'][0]) == cand:
                readers.append(bb)
        bad = None
        for p in pushes:
            reg = eng_gd.region(b, p, stop=set(sorts) - {p})
            if (reg - set(sorts)) & set(readers):
                bad = p
        if not pushes or not readers:
            rep.missing(rule, key, 'push (%d) / reader (%d) sites of the events vector not found' % (len(pushes), len(readers)))
        elif bad is not None:
            rep.bad(rule, key, b.loc(bad), 'events can be read by the sweep without having been sorted after this push')
        else:
            rep.ok(rule, key, b.loc(sorts[0]), '%d pushes, %d reader(s) all behind the sort' % (len(pushes), len(readers)))


PO6_AUDIT = {
    'QGramIndex::qgram_matches|index:|index(arg1.address,arg2)<std::vec::Vec<usize>>':
        'callers pass codes yielded by self.ranks.qgrams(self.q, ..), which are < 2^(q*width) = address.len() - 1 (CS-1)',
    'QGramIndex::qgram_matches|overflow-add:usize|1,arg2':
        'qgram < 2^(q*width) <= usize::MAX / 2',
    'QGramIndex::qgram_matches|index:|index(arg1.address,P[1 + arg2].0)<std::vec::Vec<usize>>':
        'address has code space + 1 entries',
    'QGramIndex::qgram_matches|index:|index(arg1.pos,Range::Range{Index<I>>::index(arg1.address,arg2),Index<I>>::index(arg1.address,P[1 + arg2].0)})<std::vec::Vec<usize>>':
        'address is a prefix sum whose last entry is pos.len(): address[c] <= address[c+1] <= pos.len()',
    'QGramIndex::matches|overflow-add:usize|arg1.q,x0':
        'text / pattern positions plus q stay far below usize::MAX',
    'QGramIndex::matches|overflow-add:usize|1,OccupiedEntry::get_mut(x0).count':
        'at most one hit per (pattern position, text position)',
    'QGramIndex::matches|overflow-sub:isize|x0,x1':
        'difference of two positions < isize::MAX taken in isize',
    'QGramIndex::exact_matches|overflow-sub:i32|x0,x1':
        'difference of two positions taken in i32 (sequences shorter than 2^31)',
    'QGramIndex::exact_matches|overflow-add:usize|arg1.q,x0':
        'positions plus q stay far below usize::MAX',
    'QGramIndex::exact_matches|overflow-sub:usize|OccupiedEntry::get_mut(x0).pattern.stop,arg1.q':
        'pattern.stop = i + q >= q',
    'QGramIndex::exact_matches|overflow-add:usize|1,P[OccupiedEntry::get_mut(x0).pattern.stop + -1*arg1.q].0':
        'stop - q + 1 <= stop',
}


def po6(facts, rep):
    from . import eng_po
    rule = 'PO-6'
    rep.rule(rule, 'panic obligations of the q-gram index queries (qgram_matches, matches, exact_matches): every MIR Assert and '
                   'may-panic call is discharged or audited; in particular a diagonal (text position - pattern position) must '
                   'be computed in a signed type, because hits with text position < pattern position are legitimate')
    total = 0
    from .po_known import KNOWN
    bodies = []
    for nm in ('qgram_matches', 'matches', 'exact_matches'):
        b = facts.method(QI, nm)
        if b is None:
            rep.missing(rule, QI + '::' + nm, 'not found')
            continue
        bodies.append(b)
    for b, nb, ia, obs in eng_po.scan(facts, bodies, KNOWN):
        nm = b.name
        rep.analysed_body(b)
        seen = {}
        for o in obs:
            total += 1
            key = 'QGramIndex::%s|%s:%s|%s' % (nm, o['kind'], o.get('ty', '') if o['kind'].startswith('overflow') else '', o['ops'])
            seen[key] = seen.get(key, 0) + 1
            k2 = key + ('#%d' % seen[key] if seen[key] > 1 else '')
            if o['discharged']:
                rep.ok(rule, k2, o['where'], 'interval analysis')
            elif key in PO6_AUDIT:
                rep.audited(rule, k2, o['where'], PO6_AUDIT[key])
            elif eng_po.orphan_match(key, PO6_AUDIT, set(facts.bodies) | {'QGramIndex::' + b_.name for b_ in facts.body_list}):
                k0 = eng_po.orphan_match(key, PO6_AUDIT, set(facts.bodies) | {'QGramIndex::' + b_.name for b_ in facts.body_list})
                rep.audited(rule, k2, o['where'], 'arithmetic of the removed function %s, now written in its caller: %s' % (k0.split('|')[0], PO6_AUDIT[k0]))
            elif eng_po.implied(key, PO6_AUDIT, o):
                rep.audited(rule, k2, o['where'], eng_po.implied(key, PO6_AUDIT, o)[1])
            else:
                rep.bad(rule, key, o['where'], 'undischarged %s obligation on %s operands: %s' % (o['kind'], o.get('ty', '?'), o['detail']))
    rep.floor(rule, 'obligations', total, 12)


def run(facts, rep, ctx):
    if ctx.get('flavor') != 'nochk':
        po6(facts, rep)
    cs1(facts, rep)
    sb6(facts, rep)
    ts8(facts, rep)
    from . import c19b
    c19b.dk1(facts, rep)
    c19b.ev1(facts, rep)


_run_before_round3 = run


def run(facts, rep, ctx):
    """rules added after the second seeding round, second half (rules/round3.py)"""
    _run_before_round3(facts, rep, ctx)
    from . import round3
    round3.qm1(facts, rep)


_run_before_round4b = run


def run(facts, rep, ctx):
    """further rules added after the third seeding round (rules/round4.py)"""
    _run_before_round4b(facts, rep, ctx)
    from . import round4
    round4.ri5(facts, rep, ['alignment::sparse::lcskpp', 'alignment::sparse::sdpkpp'])



_run_before_round5 = run


def run(facts, rep, ctx):
    """rules added after the fourth seeding round (rules/round5.py)"""
    _run_before_round5(facts, rep, ctx)
    from . import round5
    from . import round3, round4
    round3.fw1(facts, rep)
    round4.fw2(facts, rep)


_run_before_round6 = run


def run(facts, rep, ctx):
    """rules added after the fifth seeding round (rules/round6.py)"""
    _run_before_round6(facts, rep, ctx)
    from . import round6
    round6.cf2(facts, rep, ['data_structures::qgram_index::', 'alignment::sparse::'], 60)
    round6.sb12(facts, rep)


_run_before_round7 = run


def run(facts, rep, ctx):
    """rules added in the sixth seeding round (rules/round7.py)"""
    _run_before_round7(facts, rep, ctx)
    if ctx.get('flavor') != 'nochk':
        from . import round7
        round7.po11(facts, rep)
