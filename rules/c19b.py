"""C19, second group of rules (added after the independent seeds C19-1 / C19-2 were missed):

DK-1  diagonal keys: in QGramIndex::matches / exact_matches the key under which q-gram hits are merged must be an
      injective function of the diagonal, i.e. (as a polynomial over integer casts) +-(text position - pattern position)
      plus loop-invariant terms.  abs / abs_diff / any other non-linear combination merges the diagonals d and -d.
EV-1  sweep events of lcskpp / sdpkpp: the event pushed with the match's own coordinates (start) and the one pushed with
      the coordinates shifted by k (end) carry tags tag_start = tag_end + matches.len() with tag_end = the match index, so
      after sorting every end event at a point precedes every start event at the same point (a k-mer ending at (x, y)
      can be followed by one starting there); the sweep decodes `tag >= matches.len()` as "start", queries the Fenwick
      tree only on that edge and updates it only on the other."""
from . import eng_gd
from .mirlib import call_info, strip, strip_casts, fmt, walk
from .poly import poly, pstr

QI = 'data_structures::qgram_index::QGramIndex'


def _arith_atom(e):
    return None


def dk1(facts, rep):
    rule = 'DK-1'
    rep.rule(rule, 'diagonal keys: the HashMap key under which QGramIndex::matches / exact_matches merge q-gram hits is, as a '
                   'polynomial over integer casts, (text position) - (pattern position) up to sign and loop-invariant terms; '
                   'any other combination (abs, abs_diff, ...) is not injective on diagonals and merges unrelated hits')
    n = 0
    for nm in ('matches', 'exact_matches'):
        b = facts.method(QI, nm)
        key = 'QGramIndex::%s|diagonal-key-is-signed-difference' % nm
        if b is None:
            rep.missing(rule, key, 'not found')
            continue
        rep.analysed_body(b)
        sites = [(bb, t) for bb, t in b.calls() if call_info(t) and call_info(t)['fn'].endswith('::entry') and len(t['args']) == 2]
        if not sites:
            rep.missing(rule, key, 'no map.entry(key) call found')
            continue
        for bb, t in sites:
            n += 1
            e = b.expr_operand(t['args'][1], inline_user=True)
            p = poly(e)
            variant = {m: c for m, c in p.items() if any('next(' in a for a in m)}
            shape_ok = len(variant) == 2 and all(len(m) == 1 for m in variant) and sorted(variant.values()) == [-1, 1] and \
                all(not _nonlinear(a) for m in variant for a in m)
            if shape_ok:
                rep.ok(rule, key, b.loc(bb), pstr(p))
            else:
                rep.bad(rule, key, b.loc(bb), 'hits are merged under the key `%s`, which is not (text position - pattern position): '
                                              'different diagonals can share a key' % pstr(p))
    rep.floor(rule, 'diagonal maps', n, 2)


def _nonlinear(atom_text):
    # an atom that is itself a call combining values (abs_diff(a, b), abs(..), min(..)) - iterator payloads are fine
    head = atom_text.split('(', 1)[0]
    return head.rsplit('::', 1)[-1] in ('abs_diff', 'abs', 'unsigned_abs', 'min', 'max', 'saturating_sub', 'checked_sub',
                                        'pow', 'rem_euclid')


def ev1(facts, rep):
    rule = 'EV-1'
    rep.rule(rule, 'sweep events of lcskpp / sdpkpp: tag(start event) = tag(end event) + matches.len() with tag(end) the match '
                   'index (ends sort before starts at equal coordinates); the sweep decodes tag >= matches.len() as start, '
                   'queries the Fenwick tree only there and updates it only on the other edge')
    n = 0
    for nm in ('lcskpp', 'sdpkpp'):
        b = facts.body('alignment::sparse::' + nm)
        key = 'alignment::sparse::%s|event-tags' % nm
        if b is None:
            rep.missing(rule, key, 'not found')
            continue
        from . import inline
        from .c19 import SPARSE_KEEP
        b = inline.inlined(facts, b, SPARSE_KEEP)
        rep.analysed_body(b)
        # pushes of 3-tuples
        pushes = []
        for bb, t in b.calls():
            info = call_info(t)
            if info and info['fn'].endswith('Vec::<T, A>::push') and len(t['args']) == 2 and '(u32, u32, u32)' in (info.get('fn_full') or ''):
                e = b.expr_operand(t['args'][1], inline_user=True)
                e = strip(e)
                if e[0] == 'agg' and len(e[3]) == 3:
                    pushes.append((bb, [poly(x) for x in e[3]]))
        if len(pushes) != 2:
            rep.missing(rule, key, 'expected two event pushes per match, found %d' % len(pushes))
            continue
        n += 1
        (b1, p1), (b2, p2) = pushes

        def sub(a, c):
            out = dict(a)
            for m, v in c.items():
                out[m] = out.get(m, 0) - v
            return {m: v for m, v in out.items() if v}
        d0, d1 = sub(p2[0], p1[0]), sub(p2[1], p1[1])
        # which one is shifted by k (a single positive atom, the same for both coordinates)?
        def single_pos(d):
            return len(d) == 1 and list(d.values()) == [1] and len(list(d)[0]) == 1
        if single_pos(d0) and d0 == d1:
            start, end, sb_, eb = p1, p2, b1, b2
        elif single_pos(sub(p1[0], p2[0])) and sub(p1[0], p2[0]) == sub(p1[1], p2[1]):
            start, end, sb_, eb = p2, p1, b2, b1
        else:
            rep.bad(rule, key, b.loc(b1), 'the two events of a match are not (x, y) and (x + k, y + k): %s / %s' % (
                [pstr(x) for x in p1[:2]], [pstr(x) for x in p2[:2]]))
            continue
        dt = sub(start[2], end[2])
        len_atoms = [m for m in dt if len(m) == 1 and m[0].startswith('slice::len(')]
        tag_end_ok = len(end[2]) == 1 and list(end[2].values()) == [1] and len(list(end[2])[0]) == 1
        if len(dt) == 1 and len(len_atoms) == 1 and dt[len_atoms[0]] == 1 and tag_end_ok:
            rep.ok(rule, key, b.loc(sb_), 'start tag = %s, end tag = %s' % (pstr(start[2]), pstr(end[2])))
        else:
            rep.bad(rule, key, b.loc(sb_), 'start events carry tag `%s` and end events `%s`: end events must sort before start '
                                           'events at the same point (expected end = match index, start = index + matches.len())'
                    % (pstr(start[2]), pstr(end[2])))
        # decode
        key2 = 'alignment::sparse::%s|event-decode' % nm
        loops = b.natural_loops()
        gets = [bb for bb, t in b.calls() if call_info(t) and call_info(t)['fn'].endswith('FenwickTree::<T, Op>::get')]
        sets = [bb for bb, t in b.calls() if call_info(t) and call_info(t)['fn'].endswith('FenwickTree::<T, Op>::set')]
        dec = []
        for g in eng_gd.guards(b):
            for c, tgt, other in ((g['cmp_true'], g['t'], g['f']), (g['cmp_false'], g['f'], g['t'])):
                if c and c[0] == 'Le' and c[1].startswith('slice::len(') and c[2].endswith('.2'):
                    dec.append((g['bb'], tgt, other))
        if len(dec) != 1 or not gets or not sets:
            rep.bad(rule, key2, '%s:%s' % (b.file, b.line), 'expected one test `tag >= matches.len()` in the sweep and Fenwick get/set '
                                                           'calls (found %d tests, %d get, %d set)' % (len(dec), len(gets), len(sets)))
            continue
        gbb, st_edge, en_edge = dec[0]
        hdrs = [h for h, blocks in loops.items() if gbb in blocks]
        stop = set(hdrs)
        rs, re_ = eng_gd.region(b, st_edge, stop=stop), eng_gd.region(b, en_edge, stop=stop)
        only_s, only_e = rs - re_, re_ - rs
        # both address the tree by the event's own column (its second coordinate): an offset on one side only shifts the
        # "strictly before" relation between chained matches
        def col_arg(bb):
            e = b.expr_operand(b.term(bb)['args'][1], inline_user=True)
            return poly(e)
        offs = []
        for x in gets + sets:
            pa = col_arg(x)
            rest = {m: v for m, v in pa.items() if m != ()}
            plain = len(rest) == 1 and list(rest.values()) == [1] and list(rest)[0][0].endswith('.1') and () not in pa
            if not plain:
                offs.append((x, pstr(pa)))
        if offs:
            rep.bad(rule, key2, b.loc(offs[0][0]), 'the Fenwick tree is addressed at `%s`, not at the event column: chains may use a match '
                                                   'that does not end strictly before the next one starts' % offs[0][1][:80])
        elif all(x in only_s for x in gets) and all(x in only_e for x in sets):
            rep.ok(rule, key2, b.loc(gbb), 'start: query; end: update')
        else:
            rep.bad(rule, key2, b.loc(gbb), 'the Fenwick tree is queried on the end edge or updated on the start edge of '
                                            '`tag >= matches.len()`')
    rep.floor(rule, 'sweeps', n, 2)
