"""C14 HMM — SB-3 (viterbi / forward / backward consult every probabilistic component of the Model interface) and
SB-4 (Model implementations: one distinct parameter table per interface method, index order = parameter order)."""
from .mirlib import call_info, walk, strip

LEVEL = 'other'
COMPONENTS = {
    'initial': ('initial_prob',),
    'transition': ('transition_prob', 'transition_prob_idx'),
    'observation': ('observation_prob',),
    'end': ('end_prob',),
}
ALGOS = ['viterbi', 'forward', 'backward']


def model_calls(facts, root):
    """names of stats::hmm::Model trait methods called (as trait calls on the generic model) from root, its local
    callees and all their closures"""
    reach = facts.reachable_bodies([root], trait_impls=False)
    names = {}
    for k in reach:
        b = facts.bodies[k]
        for bb, t in b.calls():
            info = call_info(t)
            if info and info.get('trait') == 'stats::hmm::Model':
                names.setdefault(info['fn'].rsplit('::', 1)[-1], (b, bb))
    return names, reach


def sb3(facts, rep):
    rule = 'SB-3'
    rep.rule(rule, 'sibling agreement of the three inference algorithms over the Model interface: each of viterbi, '
                   'forward and backward must consult initial_prob, transition_prob(_idx), observation_prob and '
                   'end_prob (transitive callee sets incl. closures); an algorithm that ignores a component optimises '
                   'or sums a different joint probability than its siblings')
    n = 0
    for a in ALGOS:
        root = facts.body('stats::hmm::' + a)
        if root is None:
            rep.missing(rule, 'stats::hmm::' + a, 'algorithm not found')
            continue
        names, reach = model_calls(facts, root)
        for k in reach:
            rep.analysed_body(facts.bodies[k])
        for comp, meths in COMPONENTS.items():
            n += 1
            key = 'stats::hmm::%s|consults|%s' % (a, comp)
            hit = [m for m in meths if m in names]
            if hit:
                b, bb = names[hit[0]]
                rep.ok(rule, key, b.loc(bb), 'calls Model::%s in %s' % (hit[0], b.path))
            else:
                rep.bad(rule, key, '%s:%s' % (root.file, root.line),
                        '%s never calls Model::%s: its result is computed over a different joint probability than the '
                        'sibling algorithms (which do use the %s probabilities)' % (a, '/'.join(meths), comp))
    rep.floor(rule, 'algorithm x component pairs', n, 12)


def sb4(facts, rep):
    rule = 'SB-4'
    rep.rule(rule, 'Model implementations: the parameter tables (self fields) read by transition_prob, initial_prob, '
                   'observation_prob and end_prob are pairwise distinct within an impl, and multi-dimensional lookups '
                   'index with the method parameters in declaration order, identically in all impls')
    impls = {}
    for b in facts.body_list:
        if b.raw.get('impl_trait') == 'stats::hmm::Model' and b.name in (
                'transition_prob', 'initial_prob', 'observation_prob', 'end_prob'):
            impls.setdefault(b.raw['impl_self'], {})[b.name] = b
    rep.floor(rule, 'Model impls', len(impls), 3)
    sigs = {}
    for ty, ms in sorted(impls.items()):
        fields = {}
        for nm, b in ms.items():
            rep.analysed_body(b)
            fs = set()
            order = []
            for bb in b.reachable(0):
                for s in b.stmts(bb):
                    if s['k'] != 'assign':
                        continue
                    for pl in ([s['r'].get('p')] if s['r'].get('p') else []) + \
                              [o.get('c') or o.get('m') for o in ([s['r'].get('o')] if s['r'].get('o') else [])]:
                        if pl and pl['l'] == 1 and pl.get('pj', [None])[0] == '*':
                            for el in pl['pj'][1:2]:
                                if isinstance(el, dict) and 'f' in el:
                                    fs.add(el['n'])
                    if s['r']['k'] == 'agg' and s['r']['ak'] == 'array' and len(s['r']['ops']) >= 2:
                        for o in s['r']['ops']:
                            e = b.expr_operand(o, inline_user=True)
                            ps = sorted({x[1] for x in walk(e) if isinstance(x, tuple) and x[0] == 'local'
                                         and 2 <= x[1] <= b.arg_count})
                            order.append(tuple(ps))
            fields[nm] = fs
            sigs.setdefault(nm, {})[ty] = tuple(order)
            if order:
                key = '%s::%s|index-order-is-parameter-order' % (ty, nm)
                flat = [p[0] if len(p) == 1 else None for p in order]
                if flat == sorted(x for x in flat if x is not None) and None not in flat and len(set(flat)) == len(flat):
                    rep.ok(rule, key, '%s:%s' % (b.file, b.line), 'lookup index uses parameters %s in order' % flat)
                else:
                    rep.bad(rule, key, '%s:%s' % (b.file, b.line),
                            'the lookup index is built from parameters %s: not in declaration order (row/column '
                            'swapped?)' % order)
        names = sorted(fields)
        for i in range(len(names)):
            for j in range(i + 1, len(names)):
                a, c = names[i], names[j]
                key = '%s|distinct-tables|%s,%s' % (ty, a, c)
                common = fields[a] & fields[c]
                if common:
                    rep.bad(rule, key, '%s:%s' % (ms[a].file, ms[a].line),
                            '%s and %s both read self.%s: one of them returns the wrong parameter table' % (
                                a, c, ', self.'.join(sorted(common))))
                else:
                    rep.ok(rule, key, '%s:%s' % (ms[a].file, ms[a].line), '%s / %s' % (sorted(fields[a]), sorted(fields[c])))
        for nm in ('transition_prob', 'initial_prob', 'observation_prob'):
            key = '%s::%s|reads-a-table' % (ty, nm)
            if nm in fields and not fields[nm]:
                rep.bad(rule, key, '%s:%s' % (ms[nm].file, ms[nm].line), '%s does not read any field of the model' % nm)
            elif nm in fields:
                rep.ok(rule, key, '%s:%s' % (ms[nm].file, ms[nm].line), sorted(fields[nm]))


def or1(facts, rep):
    from . import eng_gd
    rule = 'OR-1'
    rep.rule(rule, 'ordering: in viterbi the end probabilities are folded into the last column before the best final state is '
                   'chosen - no Model::end_prob call is reachable after the call of viterbi_traceback (adding the end term '
                   'only to the winner would report a consistent but sub-optimal path)')
    b = facts.body('stats::hmm::viterbi')
    if b is None:
        rep.missing(rule, 'stats::hmm::viterbi', 'not found')
        return
    rep.analysed_body(b)
    tb = [bb for bb, t in b.calls() if call_info(t) and call_info(t)['fn'].endswith('viterbi_traceback')]
    ends = [bb for bb, t in b.calls() if call_info(t) and call_info(t)['fn'].endswith('Model::end_prob')]
    for c in facts.closures_of(b.path):
        if any(call_info(t) and call_info(t)['fn'].endswith('Model::end_prob') for _bb, t in c.calls()):
            for bb in b.reachable(0):
                for s in b.stmts(bb):
                    if s['k'] == 'assign' and s['r']['k'] == 'agg' and s['r'].get('closure') == c.path:
                        ends.append(bb)
    key = 'stats::hmm::viterbi|end-term-before-argmax'
    if not tb or not ends:
        rep.bad(rule, key, '%s:%s' % (b.file, b.line), 'viterbi must call viterbi_traceback after applying Model::end_prob (found '
                                                       '%d traceback calls, %d end_prob sites)' % (len(tb), len(ends)))
        return
    late = [e for e in ends if any(e in eng_gd.region(b, t) and e != t for t in tb)]
    if late:
        rep.bad(rule, key, b.loc(late[0]), 'end_prob is applied after the best final state has been chosen: the returned path is not '
                                           'the most probable one when end probabilities differ between states')
    else:
        rep.ok(rule, key, b.loc(tb[0]), 'end_prob applied to the last column before viterbi_traceback')


def run(facts, rep, ctx):
    # forward/backward sum over paths with LogProb::ln_sum_exp: its term selection is part of this property's mechanism
    from .c15 import gd8b
    gd8b(facts, rep)
    or1(facts, rep)
    sb3(facts, rep)
    sb4(facts, rep)


_run_before_round2 = run


def run(facts, rep, ctx):
    """rules added after the second round of independent seeding (rules/round2.py)"""
    _run_before_round2(facts, rep, ctx)
    from . import round2
    if ctx.get('flavor') != 'nochk':
        round2.po8(facts, rep)


_run_before_round4b = run


def run(facts, rep, ctx):
    """further rules added after the third seeding round (rules/round4.py)"""
    _run_before_round4b(facts, rep, ctx)
    from . import round4
    round4.ri5(facts, rep, ['stats::hmm::forward', 'stats::hmm::backward', 'stats::hmm::viterbi_matrices'])
    # the fast exponential underneath ln_sum_exp: its cut-off constants are part of this check (rule TB-10 of C15)
    from .c15 import tb10
    tb10(facts, rep)



_run_before_round5 = run


def run(facts, rep, ctx):
    """rules added after the fourth seeding round (rules/round5.py)"""
    _run_before_round5(facts, rep, ctx)
    from . import round5
    round5.zr1(facts, rep)


_run_before_round6 = run


def run(facts, rep, ctx):
    """rules added after the fifth seeding round (rules/round6.py)"""
    _run_before_round6(facts, rep, ctx)
    from . import round6
    round6.ao3(facts, rep)


_run_before_round7 = run


def run(facts, rep, ctx):
    """rules added in the sixth seeding round (rules/round7.py)"""
    _run_before_round7(facts, rep, ctx)
    from . import round7
    round7.ep2(facts, rep)
