"""Models of the std Option/Result combinators, expanded into explicit MIR before inlining.

`opt.map_or(d, |x| f(x))`, `opt.ok_or_else(|| e)`, `res.and_then(|v| g(v))` ... are opaque std calls in MIR: the closure
body is a separate function and the None/Err behaviour is hidden in core.  A maintainer who rewrites
`match opt { Some(x) => f(x), None => d }` as `opt.map_or(d, f)` (or back) has not changed behaviour, so rules that look
at guards, panic obligations or produced values must see the same thing in both forms.  `expand(raw, facts)` rewrites
every such call whose closure argument is a closure literal of this crate into

     disc = discriminant(opt); switchInt(disc) [0 -> B_none, 1 -> B_some]
     B_some: payload = copy (opt as Some).0;  tmp = <closure body>(env, payload)   (a direct call, inlined afterwards)
             dest = Some(tmp) | tmp | ...
     B_none: dest = None | default | <closure body>(env) ...

exactly as the documentation of each combinator specifies.  Only the combinators in TABLE are modelled; anything else is
left as the opaque call it is."""
import copy
from .mirlib import call_info

OPT, RES = 'std::option::Option', 'std::result::Result'

# name -> (receiver enum, args after the receiver, hit action, miss action)
#   actions: ('wrap', Variant, source) | ('plain', source)
#   sources: 'payload' (the value carried by the hit / miss variant), ('call', argindex, passes_payload), ('arg', argindex),
#            ('unit-variant', Variant)
TABLE = {
    ('Option', 'map'): dict(hit=('wrap', OPT, 'Some', ('call', 1, True)), miss=('unit', OPT, 'None')),
    ('Option', 'map_or'): dict(hit=('plain', ('call', 2, True)), miss=('plain', ('arg', 1))),
    ('Option', 'map_or_else'): dict(hit=('plain', ('call', 2, True)), miss=('plain', ('call', 1, False))),
    ('Option', 'and_then'): dict(hit=('plain', ('call', 1, True)), miss=('unit', OPT, 'None')),
    ('Option', 'unwrap_or_else'): dict(hit=('plain', 'payload'), miss=('plain', ('call', 1, False))),
    ('Option', 'unwrap_or'): dict(hit=('plain', 'payload'), miss=('plain', ('arg', 1))),
    ('Option', 'ok_or_else'): dict(hit=('wrap', RES, 'Ok', 'payload'), miss=('wrap', RES, 'Err', ('call', 1, False))),
    ('Option', 'ok_or'): dict(hit=('wrap', RES, 'Ok', 'payload'), miss=('wrap', RES, 'Err', ('arg', 1))),
    ('Option', 'or_else'): dict(hit=('wrap', OPT, 'Some', 'payload'), miss=('plain', ('call', 1, False))),
    ('Result', 'map'): dict(hit=('wrap', RES, 'Ok', ('call', 1, True)), miss=('wrap', RES, 'Err', 'payload')),
    ('Result', 'map_err'): dict(hit=('wrap', RES, 'Ok', 'payload'), miss=('wrap', RES, 'Err', ('call', 1, True))),
    ('Result', 'and_then'): dict(hit=('plain', ('call', 1, True)), miss=('wrap', RES, 'Err', 'payload')),
    ('Result', 'unwrap_or_else'): dict(hit=('plain', 'payload'), miss=('plain', ('call', 1, True))),
    ('Result', 'or_else'): dict(hit=('wrap', RES, 'Ok', 'payload'), miss=('plain', ('call', 1, True))),
    ('Result', 'ok'): dict(hit=('wrap', OPT, 'Some', 'payload'), miss=('unit', OPT, 'None')),
}
HIT = {'Option': ('Some', 1), 'Result': ('Ok', 0)}
MISS = {'Option': ('None', 0), 'Result': ('Err', 1)}


def _closure_of(raw, facts, operand, defs_cache):
    """(closure Body, operand) if the operand is a local whose only definition is a closure literal of this crate"""
    pl = operand.get('m') or operand.get('c')
    if pl is None or pl.get('pj'):
        return None
    l = pl['l']
    defs = defs_cache.get(l)
    if defs is None or len(defs) != 1:
        return None
    r = defs[0]
    if r['k'] == 'agg' and r.get('ak') == 'closure':
        return facts.bodies.get(r.get('closure'))
    return None


def _whole_defs(raw):
    out = {}
    for blk in raw['blocks']:
        for s in blk['s']:
            if s['k'] == 'assign' and not s['p'].get('pj'):
                out.setdefault(s['p']['l'], []).append(s['r'])
        t = blk['t']
        if t['k'] == 'call' and not t['dest'].get('pj'):
            out.setdefault(t['dest']['l'], []).append({'k': 'callres'})
    return out


def expand(raw, facts, keep=None, max_sites=40, closureless=True):
    """rewrite modelled combinator calls in place; returns the list of (combinator, closure path) expanded"""
    done = []
    defs = _whole_defs(raw)
    i = 0
    while i < len(raw['blocks']) and len(done) < max_sites:
        blk = raw['blocks'][i]
        t = blk['t']
        i += 1
        if t['k'] != 'call' or t.get('t') is None:
            continue
        info = call_info(t)
        if not info:
            continue
        fn = info['fn']
        recv = 'Option' if fn.startswith('std::option::Option::<T>::') else 'Result' if fn.startswith('std::result::Result::<T, E>::') else None
        if recv is None:
            continue
        model = TABLE.get((recv, fn.rsplit('::', 1)[-1]))
        if model is None:
            continue
        rpl = t['args'][0].get('m') or t['args'][0].get('c') if t['args'] else None
        if rpl is None or rpl.get('pj'):
            continue
        # every closure argument used by the model must be a closure literal we have the body of
        closures = {}
        ok = True
        for act in (model['hit'], model['miss']):
            src = act[-1]
            if isinstance(src, tuple) and src[0] == 'call':
                if src[1] >= len(t['args']):
                    ok = False
                    break
                cb = _closure_of(raw, facts, t['args'][src[1]], defs)
                if cb is None or cb.arg_count != (2 if src[2] else 1) or (keep is not None and keep(cb.path)):
                    ok = False
                    break
                closures[src[1]] = cb
        if not ok:
            continue
        if not closures and not closureless:
            continue
        line = t.get('line')
        nl = len(raw['locals'])
        raw['locals'].append({'ty': 'isize', 'gen': 'combinator-disc'})
        disc = nl
        recv_ty = raw['locals'][rpl['l']]['ty']
        base = len(raw['blocks'])
        b_hit, b_miss, b_unr = base, base + 1, base + 2
        extra = []

        def arm(act, variant, vi, start_idx):
            """blocks (list) for one arm starting at index start_idx; ends with goto t['t']"""
            blocks = []
            stmts = []
            kind = act[0]
            src = act[-1]
            payload = None

            def payload_place():
                return {'l': rpl['l'], 'pj': [{'dc': variant, 'vi': vi}, {'f': 0, 'n': '0'}], 'pjt': [recv_ty, recv_ty]}
            value_op = None
            if kind == 'unit':
                stmts.append({'k': 'assign', 'p': copy.deepcopy(t['dest']),
                              'r': {'k': 'agg', 'ak': 'adt', 'adt': act[1], 'variant': act[2], 'fields': [], 'ops': []},
                              'line': line, 'd': 'combinator model'})
                blocks.append({'s': stmts, 't': {'k': 'goto', 't': t['t'], 'line': line, 'dbg': 'combinator model'}, 'gen': 'comb'})
                return blocks
            if src == 'payload':
                value_op = {'m': payload_place()}
            elif isinstance(src, tuple) and src[0] == 'arg':
                value_op = copy.deepcopy(t['args'][src[1]])
            elif isinstance(src, tuple) and src[0] == 'call':
                cb = closures[src[1]]
                cop = copy.deepcopy(t['args'][src[1]])
                cpl = cop.get('m') or cop.get('c')
                envty = cb.locals[1]['ty']
                args = []
                if envty.startswith('&'):
                    raw['locals'].append({'ty': envty, 'gen': 'combinator-env'})
                    envl = len(raw['locals']) - 1
                    stmts.append({'k': 'assign', 'p': {'l': envl},
                                  'r': {'k': 'ref', 'bk': 'mut' if envty.startswith('&mut') else 'shared', 'p': {'l': cpl['l']}},
                                  'line': line, 'd': 'combinator model: closure env'})
                    args.append({'m': {'l': envl}})
                else:
                    args.append(cop)
                if src[2]:
                    args.append({'m': payload_place()})
                raw['locals'].append({'ty': cb.raw.get('output', '?'), 'gen': 'combinator-ret'})
                tmp = len(raw['locals']) - 1
                nxt = start_idx + 1
                call = {'k': 'call', 'f': {'k': {'fn': cb.path, 'fn_full': cb.path, 'crate': facts.crate, 'ty': 'closure body',
                                                 'direct_closure': True}},
                        'args': args, 'dest': {'l': tmp}, 't': nxt, 'u': t.get('u'), 'src': 'Normal', 'line': line,
                        'dbg': 'combinator model: call of ' + cb.path}
                blocks.append({'s': stmts, 't': call, 'gen': 'comb'})
                stmts = []
                value_op = {'m': {'l': tmp}}
            if kind == 'wrap':
                r = {'k': 'agg', 'ak': 'adt', 'adt': act[1], 'variant': act[2], 'fields': ['0'], 'ops': [value_op]}
            else:
                r = {'k': 'use', 'o': value_op}
            stmts.append({'k': 'assign', 'p': copy.deepcopy(t['dest']), 'r': r, 'line': line, 'd': 'combinator model'})
            blocks.append({'s': stmts, 't': {'k': 'goto', 't': t['t'], 'line': line, 'dbg': 'combinator model'}, 'gen': 'comb'})
            return blocks
        hv, hvi = HIT[recv]
        mv, mvi = MISS[recv]
        hit_blocks = arm(model['hit'], hv, hvi, base + 3)
        miss_blocks = arm(model['miss'], mv, mvi, base + 3 + len(hit_blocks))
        # layout: [hit-entry trampoline, miss-entry trampoline, unreachable, hit blocks..., miss blocks...]
        h0 = base + 3
        m0 = h0 + len(hit_blocks)
        raw['blocks'].append({'s': [], 't': {'k': 'goto', 't': h0, 'line': line, 'dbg': 'combinator hit'}, 'gen': 'comb'})
        raw['blocks'].append({'s': [], 't': {'k': 'goto', 't': m0, 'line': line, 'dbg': 'combinator miss'}, 'gen': 'comb'})
        raw['blocks'].append({'s': [], 't': {'k': 'unreachable', 'line': line, 'dbg': 'unreachable'}, 'gen': 'comb'})
        raw['blocks'].extend(hit_blocks)
        raw['blocks'].extend(miss_blocks)
        blk['s'] = list(blk['s']) + [{'k': 'assign', 'p': {'l': disc}, 'r': {'k': 'disc', 'p': {'l': rpl['l'], 'ty': recv_ty}},
                                      'line': line, 'd': 'combinator model: discriminant'}]
        blk['t'] = {'k': 'switch', 'd': {'m': {'l': disc}}, 'dty': 'isize', 'vals': [[hvi, b_hit], [mvi, b_miss]], 'else': b_unr,
                    'line': line, 'dbg': 'combinator model of %s' % fn, 'combinator': fn}
        done.append((fn, sorted(c.path for c in closures.values())))
        defs = _whole_defs(raw)
    return done
