"""C17 rank/select and wavelet matrix — GD-6 (domain refusals), SB-9 (select_0/select_1 and constructor pair the
matching superblock table, predicate and popcount), TB-7 (DNA2INT code table)."""
import re
from . import eng_gd
from .mirlib import call_info, strip, strip_casts, fmt, walk

LEVEL = 'other'
RS = 'data_structures::rank_select::RankSelect'
WM = 'data_structures::wavelet_matrix'


def gd6(facts, rep):
    rule = 'GD-6'
    rep.rule(rule, 'domain refusals: rank_1 touches the bit vector / superblocks only on the edge i < n and returns None '
                   'otherwise; select_x returns None for j == 0 before any access; WaveletMatrix::rank asserts p < width '
                   'before the level walk; rank_0 = (i + 1) - rank_1(i)')
    b = facts.method(RS, 'rank_1')
    key = 'RankSelect::rank_1|in-range-guard'
    if b is None:
        rep.missing(rule, key, 'rank_1 not found')
    else:
        rep.analysed_body(b)
        es = eng_gd.edges_where(b, lambda c: c[0] == 'Lt' and c[2] == 'self.n' and c[1] == b.local_name(2))
        if len(es) != 1:
            rep.bad(rule, key, '%s:%s' % (b.file, b.line), 'expected one guard `i < self.n`, found %d (%s)' % (
                len(es), [g['text'] for g in eng_gd.guards(b)][:3]))
        else:
            gbb, inr, _c, outr = es[0]
            touch = eng_gd.blocks_touching_self_fields(b, {'bits', 'superblocks_1', 'superblocks_0'})
            bad = [x for x in touch if not b.edge_dominates((gbb, inr), x)]
            none = any(s['k'] == 'assign' and s['p']['l'] == 0 and s['r']['k'] == 'agg' and s['r'].get('variant') == 'None'
                       for x in eng_gd.region(b, outr) - eng_gd.region(b, inr) for s in b.stmts(x))
            if bad:
                rep.bad(rule, key, b.loc(bad[0]), 'bit vector is read outside the `i < n` edge')
            elif not none:
                rep.bad(rule, key, b.loc(gbb), 'out-of-range edge does not yield None')
            else:
                rep.ok(rule, key, b.loc(gbb), '%d blocks read the structure, all behind i < n; else None' % len(touch))
    b = facts.method(RS, 'select_x')
    key = 'RankSelect::select_x|zero-rank-refused'
    if b is None:
        rep.missing(rule, key, 'select_x not found')
    else:
        rep.analysed_body(b)
        es = eng_gd.edges_where(b, lambda c: c == ('Eq', '0', b.local_name(2)) or c == ('Eq', b.local_name(2), '0'))
        if len(es) < 1:
            rep.bad(rule, key, '%s:%s' % (b.file, b.line), 'no `j == 0` refusal (select of rank 0 would address superblock -1)')
        else:
            gbb, zero, _c, nonzero = es[0]
            touch = eng_gd.blocks_touching_self_fields(b, {'bits', 's'})
            calls = [bb for bb, t in b.calls() if bb in b.reachable(0)]
            bad = [x for x in list(touch) + calls if not b.edge_dominates((gbb, nonzero), x) and x != gbb]
            if bad:
                rep.bad(rule, key, b.loc(sorted(bad)[0]), 'work is done before / outside the `j != 0` edge')
            else:
                rep.ok(rule, key, b.loc(gbb), 'j == 0 -> None before any access')
    b = facts.method(RS, 'rank_0')
    key = 'RankSelect::rank_0|complement-of-rank_1'
    if b is None:
        rep.missing(rule, key, 'rank_0 not found')
    else:
        rep.analysed_body(b)
        calls = [call_info(t)['fn'] for _bb, t in b.calls() if call_info(t)]
        ok = any(c.endswith('RankSelect::rank_1') for c in calls)
        # the value delivered inside Some: the result of a `.map(|r| ..)` closure, or the operand of Some(..) in the body
        # (`let r = self.rank_1(i)?; Some(..)`); compared as a polynomial: i + 1 - <rank_1 result>
        from .poly import poly, pstr
        cands = []
        for c in facts.closures_of(b.path):
            rep.analysed_body(c)
            for bb in c.reachable(0):
                for s in c.stmts(bb):
                    if s['k'] == 'assign' and 'pj' not in s['p'] and s['p']['l'] == 0:
                        cands.append((c, c.expr_rvalue(s['r'], inline_user=True)))
        for bb in b.reachable(0):
            for s in b.stmts(bb):
                if s['k'] == 'assign' and s['r']['k'] == 'agg' and s['r'].get('variant') == 'Some' and s['r']['ops']:
                    cands.append((b, b.expr_operand(s['r']['ops'][0], inline_user=True)))
        iname = b.local_name(2) or ''
        good, expr = False, None
        for c, e in cands:
            pe = poly(e)
            expr = pstr(pe)
            if pe.get((), 0) != 1:
                continue
            rest = {m: v for m, v in pe.items() if m != ()}
            pos = [m for m, v in rest.items() if v == 1 and len(m) == 1]
            neg = [m for m, v in rest.items() if v == -1 and len(m) == 1]
            if len(rest) == 2 and len(pos) == 1 and len(neg) == 1:
                a_ok = re.fullmatch(r'(_1\.\^)?%s' % re.escape(iname), pos[0][0]) is not None
                r_atom = neg[0][0]
                r_ok = 'rank_1' in r_atom or (c is not b and r_atom == (c.local_name(2) or '_2'))
                if a_ok and r_ok:
                    good = True
                    break
        if ok and good:
            rep.ok(rule, key, '%s:%s' % (b.file, b.line), expr)
        else:
            rep.bad(rule, key, '%s:%s' % (b.file, b.line), 'rank_0 is not (i + 1) - rank_1(i): %s' % expr)
    b = facts.method(WM + '::WaveletMatrix', 'rank')
    key = 'WaveletMatrix::rank|asserts-position-in-range'
    if b is None:
        rep.missing(rule, key, 'not found')
    else:
        # the range test may live in a private predicate (check_overflow) or be written in place: analyse it in place
        from . import inline
        b = inline.inlined(facts, b, lambda pth: pth.rsplit('::', 1)[-1] in ('rank', 'prank', 'new', 'build_partlevel'))
        rep.analysed_body(b)
        pns = {b.local_name(l) or '_%d' % l for l in range(2, b.arg_count + 1) if 'u64' in b.locals[l]['ty'] or 'usize' in b.locals[l]['ty']}
        g = None
        go = refuse = None
        for gg in eng_gd.guards(b):
            for c, tgt, other in ((gg['cmp_true'], gg['t'], gg['f']), (gg['cmp_false'], gg['f'], gg['t'])):
                if c is not None and c[0] == 'Lt' and c[1] in pns and c[2] == 'self.width':
                    g, go, refuse = gg, tgt, other
        if g is None:
            rep.bad(rule, key, '%s:%s' % (b.file, b.line), 'no assertion `p < width` (check_overflow = p >= width) before the walk')
        else:
            touch = eng_gd.blocks_touching_self_fields(b, {'levels', 'zeros'})
            pr = [bb for bb, t in b.calls() if call_info(t) and call_info(t)['fn'].endswith('::prank')]
            bad = [x for x in list(touch) + pr if not b.edge_dominates((g['bb'], go), x)]
            if bad or not eng_gd.reaches_panic_only(b, refuse):
                rep.bad(rule, key, b.loc(g['bb']), 'levels are walked outside the in-range edge')
            else:
                rep.ok(rule, key, b.loc(g['bb']), 'assert!(p < width) dominates the walk')


def closure_ops(facts, b, arg_op):
    """comparison / popcount used by the closure passed as arg"""
    e = strip(b.expr_operand(arg_op, inline_user=True))
    path = None
    for x in walk(e):
        if isinstance(x, tuple) and x[0] == 'agg' and x[1] == 'closure':
            path = x[2]
    c = facts.body(path) if path else None
    if c is None:
        return None
    out = set()
    for bb in c.reachable(0):
        for s in c.stmts(bb):
            if s['k'] == 'assign' and s['r']['k'] == 'bin' and s['r']['op'] in ('Eq', 'Ne'):
                out.add(s['r']['op'])
        t = c.term(bb)
        if t['k'] == 'call' and call_info(t):
            out.add(call_info(t)['fn'].rsplit('::', 1)[-1])
    return out


def sb9(facts, rep):
    rule = 'SB-9'
    rep.rule(rule, 'sibling pairing: select_1 = select_x(superblocks_1, bit != 0, count_ones) and select_0 = '
                   'select_x(superblocks_0, bit == 0, count_zeros); RankSelect::new fills superblocks_1 from '
                   'superblocks(true, ..) and superblocks_0 from superblocks(false, ..)')
    want = {'select_1': ('superblocks_1', 'Ne', 'count_ones'), 'select_0': ('superblocks_0', 'Eq', 'count_zeros')}
    for nm, (fld, op, cnt) in want.items():
        b = facts.method(RS, nm)
        key = 'RankSelect::%s|pairing' % nm
        if b is None:
            rep.missing(rule, key, 'not found')
            continue
        rep.analysed_body(b)
        got = None
        for bb, t in b.calls():
            info = call_info(t)
            if info and info['fn'].endswith('::select_x') and len(t['args']) >= 5:
                f = fmt(strip(b.expr_operand(t['args'][2], inline_user=True)))
                o1 = closure_ops(facts, b, t['args'][3])
                o2 = closure_ops(facts, b, t['args'][4])
                got = (f, o1, o2, bb)
        if got is None:
            rep.bad(rule, key, '%s:%s' % (b.file, b.line), 'does not call select_x')
        elif fld in got[0] and got[1] == {op} and got[2] == {cnt}:
            rep.ok(rule, key, b.loc(got[3]), '%s, %s, %s' % (fld, op, cnt))
        else:
            rep.bad(rule, key, b.loc(got[3]), 'uses (%s, %s, %s); expected (%s, %s, %s)' % (got[0], got[1], got[2], fld, op, cnt))
    b = facts.method(RS, 'new')
    key = 'RankSelect::new|superblock-tables'
    if b is None:
        rep.missing(rule, key, 'not found')
    else:
        rep.analysed_body(b)
        lit = None
        for bb in b.reachable(0):
            for s in b.stmts(bb):
                if s['k'] == 'assign' and s['r']['k'] == 'agg' and s['r'].get('adt') == RS:
                    lit = {f: strip(b.expr_operand(o, inline_user=True)) for f, o in zip(s['r']['fields'], s['r']['ops'])}
        ok = lit is not None
        why = ''
        if ok:
            for f, flag in (('superblocks_1', 1), ('superblocks_0', 0)):
                e = lit.get(f)
                if not (e and e[0] == 'call' and e[1].endswith('rank_select::superblocks') and
                        strip(e[2][0])[0] == 'const' and strip(e[2][0])[1] == flag):
                    ok = False
                    why = '%s is built by %s' % (f, fmt(e) if e else None)
        if ok:
            rep.ok(rule, key, '%s:%s' % (b.file, b.line), 'superblocks(true)->_1, superblocks(false)->_0')
        else:
            rep.bad(rule, key, '%s:%s' % (b.file, b.line), why or 'struct literal not found')


def tb7(facts, rep):
    rule = 'TB-7'
    rep.rule(rule, 'code table: the evaluated const DNA2INT is injective on {A,C,G,T,N,$}, every code is < 2^height with '
                   'height the literal level count of WaveletMatrix::new, and lower-case letters share the code of their '
                   'upper-case twin')
    c = facts.consts.get(WM + '::DNA2INT')
    if c is None or 'bytes' not in c:
        rep.missing(rule, WM + '::DNA2INT', 'const table not evaluated')
        return
    t = c['bytes']
    syms = b'ACGTN$'
    codes = {chr(s): t[s] for s in syms}
    key = 'DNA2INT|injective-on-ACGTN$'
    if len(set(codes.values())) == len(syms):
        rep.ok(rule, key, '%s:%s' % (c['file'], c['line']), str(codes))
    else:
        rep.bad(rule, key, '%s:%s' % (c['file'], c['line']), 'two symbols share a code: %s' % codes)
    # height literal
    b = facts.method(WM + '::WaveletMatrix', 'new')
    height = None
    if b is not None:
        rep.analysed_body(b)
        for bb in b.reachable(0):
            for s in b.stmts(bb):
                if s['k'] == 'assign' and s['r']['k'] == 'agg' and s['r'].get('adt') == WM + '::WaveletMatrix':
                    e = strip_casts(b.expr_operand(s['r']['ops'][s['r']['fields'].index('height')], inline_user='force'))
                    if e[0] == 'const':
                        height = e[1]
    key = 'DNA2INT|codes-fit-height'
    if height is None:
        rep.missing(rule, key, 'literal height not found in WaveletMatrix::new')
    elif all(v < (1 << height) for v in codes.values()):
        rep.ok(rule, key, '%s:%s' % (c['file'], c['line']), 'all codes < 2^%d' % height)
    else:
        rep.bad(rule, key, '%s:%s' % (c['file'], c['line']), 'a code does not fit in %d levels: %s' % (height, codes))
    key = 'DNA2INT|case-twins'
    bad = [chr(s) for s in b'ACGTN' if t[s] != t[s + 32]]
    if bad:
        rep.bad(rule, key, '%s:%s' % (c['file'], c['line']), 'lower-case %s has a different code' % bad)
    else:
        rep.ok(rule, key, '%s:%s' % (c['file'], c['line']), 'a/c/g/t/n share the codes of A/C/G/T/N')
    # writer/reader agreement on the level shift: both the builder (argument of build_partlevel) and the query
    # (right operand of `DNA2INT[..] >> shift`) must be (height - level - 1) with level the loop variable
    def shape(b, e):
        e = strip_casts(e)
        if e[0] == 'field' and e[2] == '0':
            e = e[1]
        if not (e[0] == 'bin' and e[1].startswith('Sub') and strip_casts(e[3])[0] == 'const' and strip_casts(e[3])[1] == 1):
            return 'not (.. - 1): ' + fmt(e)
        inner = strip_casts(e[2])
        if inner[0] == 'field' and inner[2] == '0':
            inner = inner[1]
        if not (inner[0] == 'bin' and inner[1].startswith('Sub')):
            return 'not (height - level - 1): ' + fmt(e)
        h, l = strip_casts(inner[2]), strip_casts(inner[3])
        hok = (h[0] == 'const' and h[1] == height) or (h[0] == 'field' and h[2] == 'height')
        lok = l[0] == 'field' and l[2] == '0' and l[1][0] == 'downcast' and l[1][2] == 'Some'
        return 'H-L-1' if hok and lok else 'operands: %s, %s' % (fmt(h), fmt(l))
    shapes = {}
    nb = facts.method(WM + '::WaveletMatrix', 'new')
    if nb is not None:
        for bb, t in nb.calls():
            info = call_info(t)
            if info and info['fn'].endswith('::build_partlevel'):
                shapes.setdefault('build', set()).add(shape(nb, nb.expr_operand(t['args'][1], inline_user='force')))
    from . import inline
    keep = lambda pth: pth.rsplit('::', 1)[-1] in ('new', 'rank', 'build_partlevel', 'prank', 'check_overflow')
    rb = facts.method(WM + '::WaveletMatrix', 'rank')
    bp = facts.body(WM + '::build_partlevel')
    # private helpers (e.g. an extracted "bit of the code at this level" function) are analysed in place
    rb = inline.inlined(facts, rb, keep) if rb is not None else None
    bp = inline.inlined(facts, bp, keep) if bp is not None else None
    for nm, bb_ in (('query', rb), ('partlevel', bp)):
        if bb_ is None:
            continue
        rep.analysed_body(bb_)
        for bb in bb_.reachable(0):
            for s in bb_.stmts(bb):
                if s['k'] == 'assign' and s['r']['k'] == 'bin' and s['r']['op'] == 'Shr':
                    lhs = fmt(strip(bb_.expr_operand(s['r']['a'], inline_user=True)))
                    if 'DNA2INT' in lhs:
                        if nm == 'query':
                            shapes.setdefault(nm, set()).add(shape(bb_, bb_.expr_operand(s['r']['b'], inline_user='force')))
                        else:
                            q = s['r']['b'].get('c') or s['r']['b'].get('m')
                            e = strip_casts(bb_.expr_operand(s['r']['b'], inline_user=True))
                            shapes.setdefault(nm, set()).add('param2' if e[0] == 'local' and e[1] == 2 else fmt(e))
    key = 'WaveletMatrix|shift-agrees-between-build-and-query'
    if shapes.get('build') == {'H-L-1'} and shapes.get('query') == {'H-L-1'} and shapes.get('partlevel') == {'param2'}:
        rep.ok(rule, key, '', 'build and query both use bit (height - level - 1) of the code')
    else:
        rep.bad(rule, key, '', 'level bit selection differs between build and query: %s' % shapes)


def run(facts, rep, ctx):
    gd6(facts, rep)
    sb9(facts, rep)
    tb7(facts, rep)


_run_before_round4b = run


def run(facts, rep, ctx):
    """further rules added after the third seeding round (rules/round4.py)"""
    _run_before_round4b(facts, rep, ctx)
    from . import round4
    round4.nc2(facts, rep)
    round4.tb7b(facts, rep)

