"""effects: a small flow-insensitive points-to / write-effect analysis over MIR.

origin = (kind, root, path)
  kind 'param'  : memory reachable from the pointee of reference parameter `root` (a local index), at field path
  kind 'local'  : the stack slot of local `root` itself (owned data), at field path
  kind 'owned'  : heap memory owned by a smart pointer held in local `root`
  kind 'static' : a static item
  kind 'unknown'
path elements: field names, '[]' for any index, '*' for a deref of a pointer stored in memory (Box field), '()' for
"somewhere inside what a callee returned for this argument".
"""
from .mirlib import call_info

REF_PREFIXES = ('&', '*const ', '*mut ')


def is_ref_ty(ty):
    return ty.startswith(REF_PREFIXES)


def is_mut_ref_ty(ty):
    return ty.startswith('&mut ') or ty.startswith('*mut ')


class Effects:
    def __init__(self, facts):
        self.facts = facts
        self._pointee = {}
        self._writes = {}
        self._inprogress = set()

    # ------------------------------------------------------------ origins
    def pointee_origins(self, body, l, visited=None):
        """set of origins the pointer held in local l may point to"""
        key = (body.key, l)
        if key in self._pointee:
            return self._pointee[key]
        visited = visited or set()
        if l in visited:
            return set()
        visited = visited | {l}
        ty = body.locals[l]['ty']
        out = set()
        if 1 <= l <= body.arg_count:
            if is_ref_ty(ty):
                out.add(('param', l, ()))
            else:
                out.add(('owned', l, ()))
            # parameters can be reassigned, but that is rare; also fall through to defs
        d, _partial = body.defs()
        defs = [x for x in d.get(l, []) if x[0] != 'arg']
        if not is_ref_ty(ty) and not (1 <= l <= body.arg_count):
            out.add(('owned', l, ()))
        for df in defs:
            if df[0] == 'stmt':
                out |= self.rvalue_pointee(body, df[3]['r'], visited)
            elif df[0] == 'call':
                t = df[2]
                any_ref = False
                for a in t['args']:
                    pl = a.get('c') or a.get('m')
                    if pl is None:
                        continue
                    aty = pl.get('ty') or body.locals[pl['l']]['ty']
                    if is_ref_ty(aty):
                        any_ref = True
                        for (k, r, p) in self.operand_pointee(body, a, visited):
                            out.add((k, r, p + ('()',)))
                if not any_ref and is_ref_ty(ty):
                    out.add(('unknown', 0, ()))
        if not defs and not (1 <= l <= body.arg_count):
            out.add(('unknown', 0, ()))
        if len(visited) == 1:
            self._pointee[key] = out
        return out

    def operand_pointee(self, body, o, visited=None):
        pl = o.get('c') or o.get('m')
        if pl is None:
            return set()
        if 'pj' not in pl:
            return self.pointee_origins(body, pl['l'], visited)
        # pointer loaded from memory
        return {(k, r, p + ('*',)) for (k, r, p) in self.place_origins(body, pl, visited)}

    def rvalue_pointee(self, body, r, visited=None):
        k = r['k']
        if k in ('ref', 'rawptr'):
            return self.place_origins(body, r['p'], visited)
        if k == 'copyderef':
            pl = r['p']
            if 'pj' not in pl:
                return self.pointee_origins(body, pl['l'], visited)
            return {(kk, rr, p + ('*',)) for (kk, rr, p) in self.place_origins(body, pl, visited)}
        if k in ('use', 'cast'):
            return self.operand_pointee(body, r['o'], visited)
        if k == 'agg':
            out = set()
            for o in r['ops']:
                out |= self.operand_pointee(body, o, visited)
            return out
        return {('unknown', 0, ())}

    def place_origins(self, body, place, visited=None):
        """origins of the memory denoted by a place"""
        cur = {('local', place['l'], ())}
        for el in place.get('pj', []):
            if el == '*':
                new = set()
                for (kind, root, path) in cur:
                    if kind == 'local' and path == ():
                        new |= self.pointee_origins(body, root, visited)
                    else:
                        new.add((kind, root, path + ('*',)))
                cur = new
            elif isinstance(el, dict) and 'f' in el:
                cur = {(k, r, p + (el['n'],)) for (k, r, p) in cur}
            elif isinstance(el, dict) and ('i' in el or 'ci' in el or 'sub' in el):
                cur = {(k, r, p + ('[]',)) for (k, r, p) in cur}
            else:
                pass  # downcast / opaque: same memory
        return cur

    # ------------------------------------------------------------ write effects
    def writes(self, body):
        """list of (bb, idx_or_None, origin, how) for every memory write performed directly in body or, through
        `&mut` arguments, by its callees (callee summaries for local callees, whole pointee for foreign callees)"""
        if body.key in self._writes:
            return self._writes[body.key]
        if body.key in self._inprogress:
            return None  # recursion: caller treats as 'writes everything it was given'
        self._inprogress.add(body.key)
        out = []
        for bb in body.reachable(0):
            for i, s in enumerate(body.stmts(bb)):
                if s['k'] in ('assign', 'setdisc'):
                    for o in self.place_origins(body, s['p']):
                        out.append((bb, i, o, 'store'))
            t = body.term(bb)
            if t['k'] == 'call':
                for o in self.place_origins(body, t['dest']):
                    out.append((bb, None, o, 'calldest'))
                info = call_info(t)
                callee = None
                if info is not None:
                    p = info.get('res') or info.get('fn')
                    callee = self.facts.bodies.get(p)
                for ai, a in enumerate(t['args']):
                    pl = a.get('c') or a.get('m')
                    if pl is None:
                        continue
                    aty = pl.get('ty') or body.locals[pl['l']]['ty']
                    if not is_mut_ref_ty(aty):
                        if is_ref_ty(aty):
                            continue
                        # by-value aggregates (closures, structs) may contain &mut: conservatively, closures
                        if '{closure' not in aty and '&mut' not in aty:
                            continue
                    targets = self.operand_pointee(body, a)
                    sub = None
                    if callee is not None:
                        cw = self.writes(callee)
                        if cw is not None:
                            sub = [p2 for (_b, _i, (k2, r2, p2), _h) in cw if k2 == 'param' and r2 == ai + 1]
                    for (k, r, p) in targets:
                        if sub is None:
                            out.append((bb, None, (k, r, p), 'callarg:' + (info['fn'] if info else '<indirect>')))
                        else:
                            for p2 in sub:
                                out.append((bb, None, (k, r, p + p2), 'callee:' + info['fn']))
            elif t['k'] == 'drop':
                pass
        self._inprogress.discard(body.key)
        self._writes[body.key] = out
        return out

    def param_writes(self, body, param=1):
        """set of field paths under the pointee of `param` that body (incl. its closures' direct stores through
        captured references are NOT followed; closures are handled conservatively at creation) may write"""
        w = self.writes(body)
        return {p for (_b, _i, (k, r, p), _h) in (w or []) if k == 'param' and r == param}


def path_related(a, b):
    """True if one path is a prefix of the other (a write to one may affect a read of the other)"""
    n = min(len(a), len(b))
    return tuple(a[:n]) == tuple(b[:n])


def clean(path):
    """drop '*' markers for display / comparison of field paths"""
    return tuple(x for x in path if x != '*')
