"""Rules added in the sixth seeding round.

BP-1 (C15)  boundary points of the equidistant integration helpers: when ln_trapezoidal_integrate_exp /
            ln_simpsons_integrate_exp evaluate the density at an interval end handed in as a parameter, both ends a and b
            are evaluated (seed C15-9 evaluated `a` twice): no end is evaluated twice.  An end written as an expression
            (a + h * (n - 1)) is not a parameter and is left alone.  Decides which parameters reach the density, not the
            value of the integral.
"""
from .mirlib import call_info, strip_casts

LP = 'stats::probs::LogProb'


def bp1(facts, rep):
    rule = 'BP-1'
    rep.rule(rule, 'integration helpers over [a, b]: the direct evaluations density(_, <parameter>) in the body cover both '
                   'interval ends a and b at most once each (each end has weight one in both rules): evaluating the same '
                   'parameter twice means the other end is missing; ends folded into the grid iterator or written as '
                   'an expression are accepted')
    for name in ('ln_trapezoidal_integrate_exp', 'ln_simpsons_integrate_exp'):
        key = 'LogProb::%s|both-interval-ends-evaluated' % name
        b = facts.method(LP, name)
        if b is None:
            rep.missing(rule, key, '%s not found' % name)
            continue
        rep.analysed_body(b)
        names = {l: b.local_name(l) for l in range(1, b.arg_count + 1)}
        dens = [l for l, n in names.items() if b.locals[l]['ty'].strip() in ('D', 'F')]
        ends = [l for l, n in names.items() if b.locals[l]['ty'].strip() == 'T']
        if len(dens) != 1 or len(ends) != 2:
            rep.missing(rule, key, 'signature changed: expected (density: D, a: T, b: T, n), found %s' % (
                [(names[l], b.locals[l]['ty']) for l in names],))
            continue
        seen = {}
        site = None
        for bb, t in b.calls():
            ci = call_info(t)
            if not ci or not ci['fn'].endswith(('FnMut::call_mut', 'Fn::call', 'FnOnce::call_once')) or len(t['args']) != 2:
                continue
            callee = b.expr_operand(t['args'][0], inline_user=True)
            while isinstance(callee, tuple) and callee[0] == 'ref':
                callee = callee[1]
            if not (isinstance(callee, tuple) and callee[0] == 'local' and callee[1] == dens[0]):
                continue
            tup = b.expr_operand(t['args'][1], inline_user=True)
            if not (isinstance(tup, tuple) and tup[0] == 'agg' and len(tup[3]) == 2):
                continue
            pt = strip_casts(tup[3][1])
            if isinstance(pt, tuple) and pt[0] == 'local' and pt[1] in ends:
                seen[pt[1]] = seen.get(pt[1], 0) + 1
                site = bb
        if not seen:
            rep.ok(rule, key, '%s:%s' % (b.file, b.line), 'no separate evaluation at a parameter (ends are part of the grid)')
        elif all(v == 1 for v in seen.values()):
            rep.ok(rule, key, b.loc(site), 'separate end evaluations: %s, none repeated' % ', '.join(
                'density(_, %s)' % names[l] for l in sorted(seen)))
        else:
            rep.bad(rule, key, b.loc(site), 'an interval end is evaluated twice as a boundary point: %s (each end enters the rule '
                                            'with weight one; the other end is then missing or the end is over-weighted)' % (
                {names[l]: c for l, c in seen.items()},))


def gd12(facts, rep):
    """C12: IndexedReader::read_line keeps `bases_left` bytes of the buffer only behind a comparison of bases_left with a
    quantity bounded by the buffered bytes (seed C12-11 compared with the bases on the line instead: the slice then runs
    past the buffer when the last requested line straddles a buffer fill)."""
    from . import eng_gd
    rule = 'GD-12'
    rep.rule(rule, 'read_line: the branch that keeps `bases_left` bytes of the BufRead buffer is selected by comparing '
                   'bases_left with min(len(fill_buf()), ..) - a quantity bounded by what is buffered; comparing with a '
                   'quantity not bounded by the buffer lets src[..bases_left] run past a short fill')
    key = 'IndexedReader::read_line|keep-bounded-by-buffer'
    b = facts.one(r'io::fasta::IndexedReader::<R>::read_line$')
    if b is None:
        rep.missing(rule, key, 'read_line not found')
        return
    rep.analysed_body(b)
    cands = [l for l in range(2, b.arg_count + 1) if b.locals[l]['ty'].strip() == 'u64' and 'left' in (b.local_name(l) or '')]
    if len(cands) != 1:
        rep.missing(rule, key, 'expected one u64 parameter `bases_left`, found %s' % [b.local_name(l) for l in cands])
        return
    left = b.local_name(cands[0])

    def bounded(e):
        return e.startswith('cmp::min(') and 'slice::len(' in e and 'fill_buf(' in e

    found = bad = None
    for g in eng_gd.guards(b):
        c = g['cmp_true']
        if c is None or left not in (c[1], c[2]):
            continue
        other = c[2] if c[1] == left else c[1]
        if bounded(other):
            found = g
        else:
            bad = (g, other)
    if bad:
        rep.bad(rule, key, b.loc(bad[0]['bb']), '%s is compared with `%s`, which is not bounded by the buffered bytes' % (left, bad[1][:120]))
    elif found:
        rep.ok(rule, key, b.loc(found['bb']), found['text'][:160])
    else:
        # no comparison at all: accept `min(<buffer-bounded>, bases_left)` as the kept length
        ok = False
        for bb, t in b.calls():
            ci = call_info(t)
            if ci and ci['fn'].endswith('cmp::min') and len(t['args']) == 2:
                es = [str(b.expr_operand(a, inline_user=True)) for a in t['args']]
                if any("'%s'" % left in e for e in es) and any('fill_buf' in e for e in es):
                    ok = True
                    site = bb
        if ok:
            rep.ok(rule, key, b.loc(site), 'kept length is min(buffer-bounded, %s)' % left)
        else:
            rep.missing(rule, key, 'no comparison of %s with a buffer-bounded quantity found' % left)


def ep2(facts, rep):
    """C14: the termination of `backward` weighs every state by its backward value: a unit (closure or the body) that adds
    initial_prob(k) for the final sum also reads the backward table (vals[[.., k]], which holds end_prob at T = 1) or calls
    end_prob.  Seeds C14-3 / C14-11 dropped that factor in the single-observation branch only."""
    rule = 'EP-2'
    rep.rule(rule, 'hmm::backward: every closure (or the body) that uses Model::initial_prob for the final likelihood also reads '
                   'the backward table (Index on the captured `vals`) or calls Model::end_prob in the same term: '
                   'P(O) = sum_k pi(k) b_k(o_1) beta_1(k), and beta_1 = end_prob when there is one observation')
    b = facts.one(r'stats::hmm::backward$')
    key0 = 'hmm::backward|initial-term-carries-backward-value'
    if b is None:
        rep.missing(rule, key0, 'stats::hmm::backward not found')
        return
    rep.analysed_body(b)
    try:
        reach = facts.reachable_bodies([b], include_closures=True, trait_impls=False)
    except Exception:
        reach = []
    reach = [facts.bodies[k] for k in reach if k in facts.bodies]
    units = [b] + [u for u in reach if u is not b and u.path != b.path and u.path.startswith('stats::hmm::')]
    if len(units) == 1:
        units += list(facts.closures_of(b.path))
    n = 0
    for u in units:
        fns = [call_info(t) for _bb, t in u.calls()]
        fns = [(c['fn'], t) for c, (_bb, t) in zip(fns, u.calls()) if c]
        if not any(f.endswith('::initial_prob') for f, _t in fns):
            continue
        if u is not b:
            rep.analysed_body(u)
        n += 1
        has_end = any(f.endswith('::end_prob') for f, _t in fns)
        reads_tbl = False
        for f, t in fns:
            if f.endswith('Index::index') and t['args']:
                c = call_info(t)
                if 'ndarray::ArrayBase<' in c.get('fn_full', '') and 'LogProb' in c.get('fn_full', ''):
                    reads_tbl = True
        key = '%s|%d' % (key0, n)
        site = '%s:%s' % (u.file, u.line)
        if has_end or reads_tbl:
            rep.ok(rule, key, site, 'initial_prob term also %s' % ('calls end_prob' if has_end else 'reads the backward table'))
        else:
            rep.bad(rule, key, site, 'a term pi(k) * b_k(o) is summed without the backward value / end probability of k '
                                     '(wrong likelihood when this branch is the last step, e.g. a single observation with end probabilities)')
    if n < 1:
        rep.missing(rule, key0, 'no use of Model::initial_prob found in backward (confirmed floor 1)')


EMPTYING = ('clear', 'truncate', 'drain', 'retain', 'retain_mut', 'split_off', 'pop_back', 'resize', 'append')


def sw1(facts, rep):
    """C20: the ORF finder keeps ONE sliding codon window (a VecDeque<u8>) for all three reading frames.  During the scan it
    may only slide (drop the oldest base, append the newest); emptying or shortening it when an ORF of one frame closes
    blinds the other two frames for the next two bases (seed C20-11: a start codon overlapping the stop is missed)."""
    rule = 'SW-1'
    rep.rule(rule, 'orf::Matches::next: the shared codon window (VecDeque<u8>) is only slid - no call that empties or shortens '
                   'it at the back (%s, mem::take/replace) and no whole-window assignment inside the scan' % ', '.join(EMPTYING))
    b = facts.one(r'seq_analysis::orf::.*Matches.*::next$')
    key = 'orf::Matches::next|codon-window-only-slides'
    if b is None:
        rep.missing(rule, key, 'Matches::next not found')
        return
    rep.analysed_body(b)
    units = [b] + list(facts.closures_of(b.path))
    pushes = 0
    bad = []
    for u in units:
        for bb, t in u.calls():
            ci = call_info(t)
            if not ci:
                continue
            full = ci.get('fn_full') or ''
            nm = ci['fn'].rsplit('::', 1)[-1]
            if 'VecDeque::<u8>::' in full or 'VecDeque<u8>' in full.split(' as ')[0]:
                if nm in ('push_back', 'extend', 'push_front'):
                    pushes += 1
                if nm in EMPTYING:
                    bad.append((u, bb, 'VecDeque<u8>::%s' % nm))
            if ci['fn'].startswith('std::mem::') and nm in ('take', 'replace', 'swap') and any('VecDeque<u8>' == a for a in ci.get('args', [])):
                bad.append((u, bb, 'mem::%s of the window' % nm))
        for bb in u.reachable(0):
            for s in u.stmts(bb):
                if s['k'] == 'assign' and s['p'].get('ty') == 'std::collections::VecDeque<u8>' and s['p'].get('pj') \
                        and s['p']['l'] == 1:
                    bad.append((u, bb, 'the window field is overwritten'))
    if bad:
        u, bb, what = bad[0]
        rep.bad(rule, key, u.loc(bb), '%s inside the scan: the codon window is shared by the three frames, the next two '
                                      'codons of the other frames are never compared with the start/stop sets' % what)
    elif pushes < 1:
        rep.missing(rule, key, 'no VecDeque<u8> window found in Matches::next (confirmed floor: 1 push_back)')
    else:
        rep.ok(rule, key, '%s:%s' % (b.file, b.line), 'window slid by %d push(es); never emptied' % pushes)


DROPPING = ('dedup', 'dedup_by', 'dedup_by_key', 'dedup_with_count', 'dedup_by_with_count', 'unique', 'unique_by',
            'filter', 'skip', 'skip_while', 'take', 'take_while', 'step_by', 'coalesce', 'retain', 'truncate',
            'tuple_windows', 'map_while', 'peeking_take_while')


def ef4b(facts, rep):
    """C13: the GFF serialiser passes every (key, value) pair of the attribute multimap through: no element-dropping
    adaptor sits between the traversal and the join (seed C13-11 inserted Itertools::dedup: a key with the same value
    twice in a row lost one of them)."""
    from . import c13
    rule = 'EF-4b'
    rep.rule(rule, 'gff::Writer::write: no iterator adaptor / collection call that can drop, merge or cut elements (%s, ..) '
                   'is applied in the serialiser: all values of all keys, repeated values included, reach the output' % ', '.join(DROPPING[:8]))
    w = facts.method('io::gff::Writer', 'write')
    key = 'io::gff::Writer::write|no-dropping-adaptor'
    if w is None:
        rep.missing(rule, key, 'serialiser not found')
        return
    rep.analysed_body(w)
    n = 0
    bad = []
    for b, bb, t, info in c13.family_calls(facts, w):
        fn = info['fn']
        nm = fn.rsplit('::', 1)[-1]
        if not (fn.startswith(('std::iter::', 'core::iter::', 'itertools::')) or '::Vec::<' in fn or 'slice::<impl' in fn
                or fn.startswith('multimap::')):
            continue
        n += 1
        if nm in DROPPING:
            bad.append((b, bb, fn))
    if bad:
        b, bb, fn = bad[0]
        rep.bad(rule, key, b.loc(bb), '%s in the attribute serialiser can drop or merge (key, value) pairs: attributes do not '
                                      'survive write-read' % fn)
    elif n < 3:
        rep.missing(rule, key, 'only %d iterator calls found in the serialiser (confirmed floor 3: flat_map, map, join)' % n)
    else:
        rep.ok(rule, key, '%s:%s' % (w.file, w.line), '%d iterator / collection calls, none drops elements' % n)


def po11(facts, rep):
    """C19: the q-gram encoders mask / shift by q * bits, which may equal the word size exactly (asserted `<=`).  A
    wrapping / overflowing / unchecked shift silently reduces the amount modulo the width: with q * bits == usize::BITS the
    mask 1.wrapping_shl(..) - 1 is 0 and every code collapses to 0 (seed C19-11).  Every such shift in the encoders must
    have an amount proved < width by the interval engine; checked_shl (today's code) carries no obligation."""
    from . import eng_po
    from .po_known import KNOWN
    rule = 'PO-11'
    rep.rule(rule, 'RankTransform::{qgrams, rev_qgrams} and the q-gram iterators: every wrapping_/overflowing_/unchecked_ shift has a '
                   'shift amount proved smaller than the word width (interval analysis); count zero on the current tree, the '
                   'self-test mutant c19-qgram-mask-wrapping-shl is the positive control')
    bodies = []
    for nm in ('qgrams', 'rev_qgrams'):
        b = facts.method('alphabets::RankTransform', nm)
        if b is None:
            rep.missing(rule, 'alphabets::RankTransform::' + nm, 'not found')
        else:
            bodies.append(b)
    for b in facts.find(r'^<alphabets::(QGrams|RevQGrams)<.*> as std::iter::Iterator>::next$'):
        bodies.append(b)
    n = 0
    for b, nb, ia, obs in eng_po.scan(facts, bodies, KNOWN):
        rep.analysed_body(b)
        for o in obs:
            if o['kind'] != 'shift-amount':
                continue
            n += 1
            key = 'alphabets::%s|shift-amount|%s' % (b.name, o['ops'])
            if o['discharged']:
                rep.ok(rule, key, o['where'], 'shift amount proved < width')
            else:
                rep.bad(rule, key, o['where'], 'undischarged shift-amount obligation: %s (q * bits may equal the word size)' % o['detail'])
    if len(bodies) < 2:
        return
    rep.ok(rule, 'alphabets::RankTransform|modular-shifts', '%s:%s' % (bodies[0].file, bodies[0].line),
           '%d bodies analysed, %d modular shift(s), all discharged' % (len(bodies), n))


def sz1(facts, rep):
    """C16: Aligner::consensus searches its per-node score table for the maximum and starts the walk at that slot.  Every slot
    is a candidate, so the table must have exactly one slot per node: with a spare slot, a graph without edges (all scores 0)
    makes the last-maximum search pick the spare slot and raw_nodes()[node_count] panics (defect F16, repaired in /repo)."""
    from .poly import poly, pstr
    rule = 'SZ-1'
    rep.rule(rule, 'poa::Aligner::consensus: every table allocated with vec![_; n] and searched / indexed by node index has '
                   'n == graph.node_count() exactly (polynomial equality), so that the maximum search can only return a node')
    key = 'poa::Aligner::consensus|score-table-has-one-slot-per-node'
    b = facts.one(r'alignment::poa::Aligner::<F>::consensus$')
    if b is None:
        rep.missing(rule, key, 'consensus not found')
        return
    rep.analysed_body(b)
    n = 0
    bad = None
    for bb, t in b.calls():
        ci = call_info(t)
        if not ci or not ci['fn'].endswith('vec::from_elem') or len(t['args']) < 2:
            continue
        n += 1
        p = poly(b.expr_operand(t['args'][1], inline_user=True))
        atoms = [m for m in p if m != ()]
        exact = p.get((), 0) == 0 and len(atoms) == 1 and len(atoms[0]) == 1 and p[atoms[0]] == 1 and 'node_count' in atoms[0][0]
        if not exact:
            bad = (bb, pstr(p))
    if bad:
        rep.bad(rule, key, b.loc(bad[0]), 'table allocated with %s slots, expected exactly node_count(): a slot that is not a node can '
                                          'win the maximum search (graph without edges) and is then used as a node index' % bad[1])
    elif n == 0:
        rep.ok(rule, key, '%s:%s' % (b.file, b.line), 'no vec![_; n] table in consensus')
    else:
        rep.ok(rule, key, '%s:%s' % (b.file, b.line), '%d table(s) sized node_count()' % n)
