"""Rules added after the second round of independent seeding (24 seeds, 5 caught by the rules as they were).
Each is a necessary condition of a clause of the named property, phrased on facts (provenance, dominance, polynomials),
not on the seed's text.  They are called from the property modules."""
import re
from . import eng_gd
from .mirlib import call_info, strip, strip_casts, fmt, walk
from .poly import poly, pstr


# ------------------------------------------------------------------------------------------------ AO-1 (C01, C02)
def ao1(facts, rep, body_path, rule='AO-1', first=2, second=3, names=('x', 'y'), floor=1):
    """substitution score is asked for (symbol of x, symbol of y), in that order"""
    rep.rule(rule, 'argument order of the substitution function: every call of MatchFunc::score in the DP receives a value '
                   'derived (data provenance) from the first sequence x as its first symbol and one derived from y as its '
                   'second - an asymmetric substitution matrix is otherwise applied transposed')
    b = facts.body(body_path)
    if b is None:
        rep.missing(rule, body_path, 'not found')
        return
    rep.analysed_body(b)
    roots = b.param_roots()

    def closure_arg_roots(cb, pl):
        """roots (parameters of the enclosing function) of a symbol passed inside a closure: the symbol must be one captured
        variable; its provenance is that of the operand captured where the closure is built"""
        e = fmt(strip(cb.expr_operand({'c': pl}, inline_user=True)))
        ups = re.findall(r'\^(\w+)', e)
        if len(set(ups)) != 1:
            return None
        names_ = [u.get('name') for u in (cb.raw.get('upvars') or [])]
        if ups[0] not in names_:
            return None
        k = names_.index(ups[0])
        for bb_ in range(b.n):
            for st in b.stmts(bb_):
                if st['k'] == 'assign' and st['r'].get('k') == 'agg' and st['r'].get('ak') == 'closure' and \
                        st['r'].get('closure') == cb.path and k < len(st['r']['ops']):
                    o = st['r']['ops'][k]
                    q = o.get('m') or o.get('c')
                    return roots[q['l']] if q is not None else None
        return None
    n = 0
    for fb in facts.family(b):
        if fb is not b:
            rep.analysed_body(fb)
        for bb, t in fb.calls():
            info = call_info(t)
            if not info or not info['fn'].endswith('MatchFunc::score') or len(t['args']) != 3:
                continue
            n += 1
            key = '%s|score-argument-order@%d' % (body_path, n)
            ls = [(a.get('m') or a.get('c')) for a in t['args'][1:]]
            if any(q is None for q in ls):
                rep.bad(rule, key, fb.loc(bb), 'a literal is passed as a symbol')
                continue
            if fb is b:
                rs = [roots[ls[0]['l']], roots[ls[1]['l']]]
            else:
                rs = [closure_arg_roots(fb, ls[0]), closure_arg_roots(fb, ls[1])]
                if any(r is None for r in rs):
                    rep.bad(rule, key, fb.loc(bb), 'the symbols passed inside the closure are not plain captured variables: their '
                                                   'origin cannot be established')
                    continue
            ra, rb = rs[0] & {first, second}, rs[1] & {first, second}
            if ra == {first} and rb == {second}:
                rep.ok(rule, key, fb.loc(bb), 'score(symbol of %s, symbol of %s)' % names)
            else:
                rep.bad(rule, key, fb.loc(bb), 'MatchFunc::score is called with symbols derived from parameters %s and %s '
                                               '(expected: first from %s = parameter %d, second from %s = parameter %d)' % (
                            sorted(ra), sorted(rb), names[0], first, names[1], second))
    rep.floor(rule, 'score call sites in %s' % body_path.rsplit('::', 1)[-1], n, floor)


# ------------------------------------------------------------------------------------------------ LF-2 (C05)
def lf2(facts, rep, rule='LF-2'):
    """every way of giving up the search keeps the interval of the longest matching suffix"""
    rep.rule(rule, 'partial-match bookkeeping: inside the search loop of backward_search every store that clears the '
                   '"complete match" flag (i.e. every way of giving up) is dominated, within the iteration, by the stores '
                   'that save the current interval (pl = l, pr = r) - otherwise Partial(..) carries the interval of a '
                   'shorter suffix')
    b = facts.one(r'^data_structures::fmindex::FMIndexable::backward_search$')
    if b is None:
        rep.missing(rule, 'FMIndexable::backward_search', 'not found')
        return
    rep.analysed_body(b)
    loops = b.natural_loops()
    if not loops:
        rep.missing(rule, 'backward_search|loop', 'no loop')
        return
    h = max(loops, key=lambda x: len(loops[x]))
    body = loops[h]
    # the flag: a user bool local assigned const false behind the loop header (the give-up path leaves the loop, so it is
    # not part of the natural loop: take everything the header dominates)
    region = {x for x in b.reachable(0) if b.dominates(h, x)}
    clears = []
    for bb in region:
        for i, s in enumerate(b.stmts(bb)):
            if s['k'] == 'assign' and 'pj' not in s['p'] and b.locals[s['p']['l']]['ty'] == 'bool' and b.is_user(s['p']['l']) and \
                    s['r']['k'] == 'use' and (s['r']['o'].get('k') or {}).get('v') == 0 and (s['r']['o'].get('k') or {}).get('ty') == 'bool':
                clears.append((bb, s['p']['l']))

    def user_source(l, depth=0):
        if b.is_user(l):
            return l
        sd = b.single_def(l)
        if depth < 4 and sd is not None and sd[0] == 'stmt' and sd[3]['r']['k'] == 'use':
            q = sd[3]['r']['o'].get('c') or sd[3]['r']['o'].get('m')
            if q is not None and 'pj' not in q:
                return user_source(q['l'], depth + 1)
        return None
    # the saves: copies between two different user usize locals inside the loop (pl = l, pr = r)
    saves = []
    for bb in body:
        for i, s in enumerate(b.stmts(bb)):
            if s['k'] == 'assign' and 'pj' not in s['p'] and b.is_user(s['p']['l']) and s['r']['k'] == 'use' and \
                    b.locals[s['p']['l']]['ty'] == 'usize':
                from .c05 import src_local
                src = src_local(b, s['r']['o'])      # looks through temporaries and `let (pl, pr) = (l, r)` tuples
                if src is not None and b.is_user(src) and src != s['p']['l'] and b.locals[src]['ty'] == 'usize':
                    saves.append((bb, s['p']['l'], src))
    key = 'backward_search|give-up-after-save'
    if not clears:
        # flag-less form: giving up = leaving the loop on the `upper < lower` edge towards a result that is built there
        for g in eng_gd.guards(b):
            if g['bb'] not in body:
                continue
            for tgt in (g['t'], g['f']):
                if tgt not in body and b.term(g['bb'])['k'] == 'switch':
                    reg = eng_gd.region(b, tgt)
                    if h not in reg and any(s['k'] == 'assign' and s['r']['k'] == 'agg' and
                                            (s['r'].get('adt') or '').endswith('BackwardSearchResult') and
                                            s['r'].get('variant') == 'Partial' for x in reg for s in b.stmts(x)):
                        clears.append((tgt, None))
    if not clears or len(saves) < 2:
        rep.missing(rule, key, 'flag clears (%d) / interval saves (%d) not identified' % (len(clears), len(saves)))
        return
    bad = [cb for cb, _f in clears if not all(b.dominates(sb, cb) for sb, _d, _s in saves)]
    if bad:
        rep.bad(rule, key, b.loc(bad[0]), 'the search is abandoned here before the current interval has been saved: the Partial '
                                          'result would describe the previous (shorter) suffix')
    else:
        rep.ok(rule, key, b.loc(clears[0][0]), '%d give-up site(s), all after the %d interval saves' % (len(clears), len(saves)))


# ------------------------------------------------------------------------------------------------ TS-4b (C07)
def ts4b(facts, rep, rule='TS-4'):
    """find_into: the caller's result buffer is emptied on every path that returns"""
    ABT = 'data_structures::interval_tree::array_backed_interval_tree::ArrayBackedIntervalTree'
    fi = facts.method(ABT, 'find_into')
    key = 'ArrayBackedIntervalTree::find_into|results-cleared-on-every-return'
    if fi is None:
        rep.missing(rule, key, 'find_into not found')
        return
    rep.analysed_body(fi)
    clears = [bb for bb, t in fi.calls() if call_info(t) and call_info(t)['fn'].endswith('Vec::<T, A>::clear')]
    rets = fi.return_blocks()
    if clears and all(any(fi.dominates(c, r) for c in clears) for r in rets):
        rep.ok(rule, key, fi.loc(clears[0]), 'results.clear() dominates every return (the reusable buffer never keeps hits of an '
                                             'earlier query)')
    else:
        rep.bad(rule, key, '%s:%s' % (fi.file, fi.line), 'find_into can return without clearing the caller-supplied result vector: '
                                                         'hits of the previous query are reported again')


# ------------------------------------------------------------------------------------------------ TS-3b (C07)
def ts3b(facts, rep, rule='TS-3'):
    """double-rotation decision compares the two grandchild heights strictly, without slack"""
    AVL = 'data_structures::interval_tree::avl_interval_tree'
    rp = None
    for b in facts.body_list:
        if b.name == 'repair' and b.path.startswith(AVL):
            rp = facts.view(b)
    key = 'Node::repair|inner-rotation-decision'
    if rp is None:
        rep.missing(rule, key, 'repair not found')
        return
    # guards that dominate a rotate_* call on a child (receiver = self.left / self.right): compare as polynomials
    n = 0
    bad = []
    for bb, t in rp.calls():
        info = call_info(t)
        if not info or info['fn'].rsplit('::', 1)[-1] not in ('rotate_left', 'rotate_right') or not t['args']:
            continue
        recv = fmt(strip(rp.expr_operand(t['args'][0], inline_user=True)))
        if not re.search(r'self\.(left|right)', recv):
            continue        # rotation of self: covered by the balanced-case rule
        n += 1
        # innermost guard controlling this call
        g = None
        for gg in eng_gd.guards(rp):
            for tgt in (gg['t'], gg['f']):
                if rp.edge_dominates((gg['bb'], tgt), bb) and (g is None or rp.dominates(g[0]['bb'], gg['bb'])):
                    g = (gg, tgt)
        if g is None:
            bad.append((bb, 'the inner rotation is unconditional'))
            continue
        gg, tgt = g
        e = strip_casts(gg['expr'])
        neg = tgt == gg['f']
        while isinstance(e, tuple) and e[0] == 'un' and e[1] == 'Not':
            neg = not neg
            e = strip_casts(e[2])
        if not (isinstance(e, tuple) and e[0] == 'bin' and e[1] in ('Lt', 'Gt', 'Le', 'Ge')):
            bad.append((bb, 'the inner rotation is not decided by a height comparison'))
            continue
        op = e[1]
        if neg:
            op = {'Lt': 'Ge', 'Ge': 'Lt', 'Gt': 'Le', 'Le': 'Gt'}[op]
        d = poly(e[2])
        for m, v in poly(e[3]).items():
            d[m] = d.get(m, 0) - v
        d = {m: v for m, v in d.items() if v}
        const = d.pop((), 0)
        strict = op in ('Lt', 'Gt')
        # a strict comparison of two heights with no offset (x > y), or the equivalent non-strict x >= y + 1
        ok = len(d) == 2 and sorted(d.values()) == [-1, 1] and ((strict and const == 0) or (not strict and abs(const) == 1))
        if not ok:
            bad.append((bb, 'the grandchild heights are compared as `%s %s 0`: a double rotation is needed exactly when the '
                            'inner grandchild is strictly higher than the outer one' % (pstr(dict(list(d.items()) + ([((), const)] if const else []))), op)))
    if n < 2:
        rep.missing(rule, key, 'expected two inner rotations (left-right and right-left cases), found %d' % n)
    elif bad:
        rep.bad(rule, key, rp.loc(bad[0][0]), bad[0][1])
    else:
        rep.ok(rule, key, '%s:%s' % (rp.file, rp.line), '%d inner rotations, each behind a strict comparison of the grandchild heights' % n)


# ------------------------------------------------------------------------------------------------ EF-7b (C16)
def ef7b(facts, rep, rule='EF-7'):
    """the head used by add_alignment is the first node in topological order"""
    b = facts.body('alignment::poa::Poa::<F>::add_alignment')
    key = 'Poa::add_alignment|head-is-topological-first'
    if b is None:
        rep.missing(rule, key, 'add_alignment not found')
        return
    rep.analysed_body(b)
    # (1) the graph's first node in topological order is computed; (2) no node is addressed by a constant index
    topo = [bb for bb, t in b.calls() if call_info(t) and 'Topo' in call_info(t)['fn'] and call_info(t)['fn'].endswith('::next')]
    consts = []
    for bb, t in b.calls():
        info = call_info(t)
        if info and info['fn'].endswith('NodeIndex::<Ix>::new') and t['args']:
            e = strip_casts(b.expr_operand(t['args'][0], inline_user=True))
            if e[0] == 'const':
                consts.append((bb, e[1]))
    if topo and not consts:
        rep.ok(rule, key, b.loc(topo[0]), 'head = Topo::new(graph).next(graph); no node addressed by a constant index')
    elif consts:
        rep.bad(rule, key, b.loc(consts[0][0]), 'a node is addressed as NodeIndex::new(%s): after an insertion before the first base '
                                                'node %s has a predecessor and is no longer the head - edges added from it can close a '
                                                'cycle; the head must be taken from the topological order' % (consts[0][1], consts[0][1]))
    else:
        rep.bad(rule, key, '%s:%s' % (b.file, b.line), 'the head of the graph is not taken from the topological order')


# ------------------------------------------------------------------------------------------------ PS-1 (C04)
def ps1(facts, rep, rule='PS-1'):
    """less(): the prefix sum runs over the whole table"""
    b = facts.body('data_structures::bwt::less')
    key = 'less|prescan-covers-the-whole-table'
    rep.rule(rule, 'less(): the exclusive prefix sum (prescan) is applied to the whole table that is returned, so every symbol '
                   'up to max_symbol + 1 - occurring in the text or not - gets the number of smaller symbols')
    if b is None:
        rep.missing(rule, key, 'less not found')
        return
    rep.analysed_body(b)
    sites = [(bb, t) for bb, t in b.calls() if call_info(t) and call_info(t)['fn'].endswith('::prescan')]
    if len(sites) != 1:
        rep.bad(rule, key, '%s:%s' % (b.file, b.line), 'expected one prescan call, found %d' % len(sites))
        return
    bb, t = sites[0]
    e = strip(b.expr_operand(t['args'][0], inline_user=True))
    txt = fmt(e)
    # accepted: the vector itself / deref_mut / as_mut_slice / index by RangeFull
    whole = False
    x = e
    while isinstance(x, tuple) and x[0] == 'call' and x[1].rsplit('::', 1)[-1] in ('deref_mut', 'deref', 'as_mut_slice', 'as_mut', 'index_mut', 'index'):
        if x[1].rsplit('::', 1)[-1] in ('index_mut', 'index'):
            rng = strip(x[2][1]) if len(x[2]) > 1 else None
            if not (isinstance(rng, tuple) and rng[0] == 'agg' and 'RangeFull' in rng[2]):
                break
        x = strip(x[2][0])
    if isinstance(x, tuple) and x[0] == 'local':
        # the local must be the returned table
        d, _ = b.defs()
        ret = [df for df in d.get(0, []) if df[0] == 'stmt' and df[3]['r']['k'] == 'use']
        rl = None
        for df in ret:
            q = df[3]['r']['o'].get('m') or df[3]['r']['o'].get('c')
            if q is not None and 'pj' not in q:
                rl = q['l']
        whole = rl == x[1]
    if whole:
        rep.ok(rule, key, b.loc(bb), 'prescan(&mut less[..])')
    else:
        rep.bad(rule, key, b.loc(bb), 'prescan is applied to `%s`, not to the whole returned table: entries outside that range keep '
                                      'raw counts' % txt[:140])


# ------------------------------------------------------------------------------------------------ GD-2 (C10), polynomial form
def gd2(facts, rep, TB, rule='GD-2'):
    from .mirlib import norm_cmp
    rep.rule(rule, 'lazy refusal: in Traceback::traceback_at the call of _traceback_at is dominated by an edge on which '
                   'pos + 2 <= self.pos holds (compared as polynomials: `pos + 2 <= self.pos`, `pos <= self.pos - 2`, a checked '
                   'addition ... are the same test) and the other edge returns None')
    b = facts.body(TB + 'traceback_at')
    if b is None:
        rep.missing(rule, TB + 'traceback_at', 'not found')
        return
    rep.analysed_body(b)
    key = 'Traceback::traceback_at|guard'
    pn = b.local_name(2) or '_2'
    want = {('self.pos',): 1, (pn,): -1, (): -2}
    hit = None
    for g in eng_gd.guards(b):
        e = strip_casts(g['expr'])
        neg0 = False
        while isinstance(e, tuple) and e[0] == 'un' and e[1] == 'Not':
            neg0 = not neg0
            e = strip_casts(e[2])
        if not (isinstance(e, tuple) and e[0] == 'bin' and e[1] in ('Le', 'Ge', 'Lt', 'Gt')):
            continue
        for pol in (True, False):
            op = e[1]
            if pol == neg0:      # the comparison is false on this edge
                op = {'Le': 'Gt', 'Gt': 'Le', 'Lt': 'Ge', 'Ge': 'Lt'}[op]
            a_, c_ = e[2], e[3]
            if op in ('Ge', 'Gt'):
                a_, c_ = c_, a_
                op = {'Ge': 'Le', 'Gt': 'Lt'}[op]
            d = poly(c_)
            for m, v in poly(a_).items():
                d[m] = d.get(m, 0) - v
            if op == 'Lt':       # a < c  <=>  a + 1 <= c
                d[()] = d.get((), 0) - 1
            d = {m: v for m, v in d.items() if v}
            if d == want:
                hit = (g, pol)
    if hit is None:
        rep.bad(rule, key, '%s:%s' % (b.file, b.line), 'no guard equivalent to `pos + 2 <= self.pos` (guards: %s)' % [g['text'] for g in eng_gd.guards(b)])
        return
    g, pol = hit
    go = g['t'] if pol else g['f']
    refuse = g['f'] if pol else g['t']
    calls = [bb for bb, t in b.calls() if call_info(t) and call_info(t)['fn'].endswith('::_traceback_at')]
    none = any(s['k'] == 'assign' and s['p']['l'] == 0 and s['r']['k'] == 'agg' and s['r'].get('variant') == 'None'
               for x in eng_gd.region(b, refuse) - eng_gd.region(b, go) for s in b.stmts(x))
    if not calls or any(not b.edge_dominates((g['bb'], go), c) for c in calls):
        rep.bad(rule, key, b.loc(g['bb']), '_traceback_at is reachable without the `already searched` test')
    elif not none:
        rep.bad(rule, key, b.loc(g['bb']), 'a position that was not searched yet is not refused with None')
    else:
        rep.ok(rule, key, b.loc(g['bb']), '_traceback_at only behind pos + 2 <= self.pos; else None')


def po7(facts, rep, TB, rule='PO-7'):
    """the lazy entry point takes a caller-supplied position: its arithmetic must not panic / wrap"""
    from . import eng_po
    from .po_known import KNOWN
    rep.rule(rule, 'panic / wrap-around obligations of Traceback::traceback_at, the only function that does arithmetic on the '
                   'caller-supplied end position of a lazy query: every MIR Assert and may-panic call is discharged by interval '
                   'analysis (an end position that cannot be represented must be refused like any other position that was not '
                   'searched yet)')
    b = facts.bodies.get(TB + 'traceback_at')
    if b is None:
        rep.missing(rule, TB + 'traceback_at', 'not found')
        return
    n = 0
    for b0, nb, ia, obs in eng_po.scan(facts, [b], KNOWN):
        rep.analysed_body(b0)
        for o in obs:
            n += 1
            key = 'Traceback::traceback_at|%s|%s' % (o['kind'], o['ops'])
            if o['discharged']:
                rep.ok(rule, key, o['where'], 'interval analysis')
            else:
                rep.bad(rule, key, o['where'], 'undischarged %s obligation on the caller-supplied position: %s' % (o['kind'], o['detail']))
    if n == 0:
        rep.ok(rule, 'Traceback::traceback_at|no-obligations', '%s:%s' % (b.file, b.line), 'no arithmetic that can panic or wrap')


# ------------------------------------------------------------------------------------------------ NC-1 (C03)
def _int_bits(t):
    m = re.fullmatch(r'([iu])(\d+|size)', t or '')
    if not m:
        return None
    return (m.group(1), 64 if m.group(2) == 'size' else int(m.group(2)))


def narrowing_casts(body, ia, upvar_interval=None):
    """(bb, line, source type, target type, canonical operand, discharged) for every integer `as` cast that can change the
    value (narrower target, or signed <-> unsigned); discharged when the interval of the operand fits the target type"""
    from . import eng_po
    names = eng_po.canon_names(body)
    out = []
    for bb in sorted(body.reachable(0)):
        for i, s in enumerate(body.stmts(bb)):
            if s['k'] != 'assign' or s['r']['k'] != 'cast' or s['r'].get('ck') != 'IntToInt':
                continue
            o = s['r']['o']
            pl = o.get('c') or o.get('m')
            sty = (pl.get('ty') or body.locals[pl['l']]['ty']) if pl else (o.get('k') or {}).get('ty', '')
            d, sb = _int_bits(s['r']['ty']), _int_bits(sty)
            if not d or not sb:
                continue
            lossy = d[1] < sb[1] or (d[1] == sb[1] and d[0] != sb[0]) or (sb[0] == 'i' and d[0] == 'u')
            if not lossy:
                continue
            dis = False
            if ia is not None and bb in ia.instates:
                st = ia.copy_state(ia.instates[bb])
                for j, s2 in enumerate(body.stmts(bb)[:i]):
                    ia.transfer_stmt(st, bb, j, s2)
                v = ia.operand(st, o)
                rng = eng_po.ty_range(s['r']['ty'])
                dis = v is not None and v[0] not in ('ovf', 'tup') and rng is not None and rng[0] <= v[0] and v[1] <= rng[1]
            elif ia is not None:
                dis = True
            if not dis and upvar_interval is not None and pl is not None:
                # a captured variable: its interval is the one of the operand captured where the closure is built
                v = upvar_interval(body, o)
                rng = eng_po.ty_range(s['r']['ty'])
                dis = v is not None and v[0] not in ('ovf', 'tup') and rng is not None and rng[0] <= v[0] and v[1] <= rng[1]
            out.append({'bb': bb, 'where': body.loc(bb, i), 'from': sty, 'to': s['r']['ty'],
                        'ops': eng_po.alpha(eng_po.canon_expr(body, o, names)), 'discharged': dis})
    return out


NC1_AUDIT = {
    'data_structures::suffix_array::lcp|usize->isize':
        'text positions / LCP values are bounded by the text length, which is far below isize::MAX for an in-memory text',
    'data_structures::suffix_array::shortest_unique_substrings|isize->usize':
        'the value is max(.., 0)-style non-negative by construction of the SUS recurrence (lcp values are >= 0)',
}


def nc1(facts, rep, rule='NC-1'):
    from . import eng_po
    rep.rule(rule, 'value-changing integer casts in the suffix-array module (narrowing `as`, signed <-> unsigned): each is '
                   'discharged by interval analysis or is one of the audited conversions of lengths / positions; a new truncating '
                   'cast (e.g. of the sentinel count when sentinels are ranked below all symbols) is reported')
    n = 0
    for b in facts.body_list:
        if not b.path.startswith(('data_structures::suffix_array', '<data_structures::suffix_array')) or '::tests::' in b.path:
            continue
        v = facts.view(b)
        casts = narrowing_casts(v, eng_po.Intervals(v, facts).run()) if any(
            s['k'] == 'assign' and s['r']['k'] == 'cast' for bb in v.reachable(0) for s in v.stmts(bb)) else []
        if casts:
            rep.analysed_body(v)
        for c in casts:
            n += 1
            key = '%s|%s->%s' % (b.path, c['from'], c['to'])
            if c['discharged']:
                rep.ok(rule, key, c['where'], 'operand interval fits the target type')
            elif key in NC1_AUDIT:
                rep.audited(rule, key, c['where'], NC1_AUDIT[key])
            else:
                rep.bad(rule, key, c['where'], 'the value `%s` is cast from %s to %s and may not fit: symbols / ranks / sentinel '
                                               'counts that are truncated collide' % (c['ops'][:120], c['from'], c['to']))
    rep.floor(rule, 'value-changing casts', n, 2)


PO8_AUDIT = {
    'stats::hmm::viterbi_matrices|index|index_mut(x0,array{0,Deref>::deref(x1)})<ndarray::ArrayBase<ndarray::OwnedRepr<stats::probs::LogProb>, ndarray::Dim<[usize; 2]>>>':
        'the DP matrices are allocated with one row per observation (plus one for backward) and one column per state; the row is a loop index below that bound (or the last row, T >= 1) and the column is a State yielded by hmm.states(), which the Model contract keeps below num_states()',
    'stats::hmm::viterbi_matrices|index|index_mut(x0,array{0,Deref>::deref(x1)})<ndarray::ArrayBase<ndarray::OwnedRepr<usize>, ndarray::Dim<[usize; 2]>>>':
        'the DP matrices are allocated with one row per observation (plus one for backward) and one column per state; the row is a loop index below that bound (or the last row, T >= 1) and the column is a State yielded by hmm.states(), which the Model contract keeps below num_states()',
    'stats::hmm::viterbi_matrices|unwrap|unwrap(Option::map(Iterator::max_by(Iterator::map(Iterator::enumerate(impl_methods>::iter(impl_methods>::index_axis(x0,Axis::Axis{0},P[-1 + x1].0))),closure{}),closure{arg1,x2,x1}),closure{}))<(stats::hmm::State, stats::probs::LogProb)>':
        'maximum over the states of a model with S >= 1 states: the iterator is not empty',
    'stats::hmm::viterbi_matrices|index|index_mut(x0,array{x1,Deref>::deref(x2)})<ndarray::ArrayBase<ndarray::OwnedRepr<stats::probs::LogProb>, ndarray::Dim<[usize; 2]>>>':
        'the DP matrices are allocated with one row per observation (plus one for backward) and one column per state; the row is a loop index below that bound (or the last row, T >= 1) and the column is a State yielded by hmm.states(), which the Model contract keeps below num_states()',
    'stats::hmm::viterbi_matrices|index|index_mut(x0,array{x1,Deref>::deref(x2)})<ndarray::ArrayBase<ndarray::OwnedRepr<usize>, ndarray::Dim<[usize; 2]>>>':
        'the DP matrices are allocated with one row per observation (plus one for backward) and one column per state; the row is a loop index below that bound (or the last row, T >= 1) and the column is a State yielded by hmm.states(), which the Model contract keeps below num_states()',
    'stats::hmm::viterbi_matrices|unwrap|unwrap(PartialOrd>::partial_cmp(Add>::add(x0.1,Model::transition_prob_idx(arg1,x0.0,x1,x2)),Add>::add(x3.1,Model::transition_prob_idx(arg1,x3.0,x1,x2))))<std::cmp::Ordering>':
        'LogProb values compared here are sums of ln-probabilities, never NaN (ln(0) = -inf is handled by C15/GD-8)',
    'stats::hmm::viterbi_traceback|unwrap|unwrap(Iterator::max_by_key(Iterator::enumerate(impl_methods>::iter(x0)),closure{}))<(usize, &stats::probs::LogProb)>':
        'maximum over the states of a model with S >= 1 states: the iterator is not empty',
    'stats::hmm::viterbi_traceback|overflow-sub|impl_methods>::len_of(arg1,Axis::Axis{0}),x0':
        'the loop index runs over 1..=len of axis 0',
    'stats::hmm::viterbi_traceback|index|index(arg2,array{P[impl_methods>::len_of(arg1,Axis::Axis{0}) + -1*x0].0,x1})<ndarray::ArrayBase<ndarray::OwnedRepr<usize>, ndarray::Dim<[usize; 2]>>>':
        'the DP matrices are allocated with one row per observation (plus one for backward) and one column per state; the row is a loop index below that bound (or the last row, T >= 1) and the column is a State yielded by hmm.states(), which the Model contract keeps below num_states()',
    'stats::hmm::viterbi|overflow-sub|slice::len(arg2),1':
        'observation sequences are non-empty (T >= 1, quantifier of C14)',
    'stats::hmm::viterbi|index|index(x0,array{P[-1 + slice::len(arg2)].0,Deref>::deref(x1)})<ndarray::ArrayBase<ndarray::OwnedRepr<stats::probs::LogProb>, ndarray::Dim<[usize; 2]>>>':
        'the DP matrices are allocated with one row per observation (plus one for backward) and one column per state; the row is a loop index below that bound (or the last row, T >= 1) and the column is a State yielded by hmm.states(), which the Model contract keeps below num_states()',
    'stats::hmm::viterbi|index|index_mut(x0,array{P[-1 + slice::len(arg2)].0,Deref>::deref(x1)})<ndarray::ArrayBase<ndarray::OwnedRepr<stats::probs::LogProb>, ndarray::Dim<[usize; 2]>>>':
        'the DP matrices are allocated with one row per observation (plus one for backward) and one column per state; the row is a loop index below that bound (or the last row, T >= 1) and the column is a State yielded by hmm.states(), which the Model contract keeps below num_states()',
    'stats::hmm::forward|index|index_mut(x0,array{0,Deref>::deref(x1)})<ndarray::ArrayBase<ndarray::OwnedRepr<stats::probs::LogProb>, ndarray::Dim<[usize; 2]>>>':
        'the DP matrices are allocated with one row per observation (plus one for backward) and one column per state; the row is a loop index below that bound (or the last row, T >= 1) and the column is a State yielded by hmm.states(), which the Model contract keeps below num_states()',
    'stats::hmm::forward|index|index_mut(x0,array{x1,Deref>::deref(x2)})<ndarray::ArrayBase<ndarray::OwnedRepr<stats::probs::LogProb>, ndarray::Dim<[usize; 2]>>>':
        'the DP matrices are allocated with one row per observation (plus one for backward) and one column per state; the row is a loop index below that bound (or the last row, T >= 1) and the column is a State yielded by hmm.states(), which the Model contract keeps below num_states()',
    'stats::hmm::forward|overflow-sub|x0,1':
        'the closure runs inside the loop over rows 1..T: i >= 1',
    'stats::hmm::forward|index|index(x0,array{P[-1 + x1].0,Deref>::deref(x2)})<ndarray::ArrayBase<ndarray::OwnedRepr<stats::probs::LogProb>, ndarray::Dim<[usize; 2]>>>':
        'the DP matrices are allocated with one row per observation (plus one for backward) and one column per state; the row is a loop index below that bound (or the last row, T >= 1) and the column is a State yielded by hmm.states(), which the Model contract keeps below num_states()',
    'stats::hmm::forward|overflow-sub|slice::len(arg2),1':
        'observation sequences are non-empty (T >= 1, quantifier of C14)',
    'stats::hmm::forward|index|index(x0,array{P[-1 + slice::len(arg2)].0,Deref>::deref(x1)})<ndarray::ArrayBase<ndarray::OwnedRepr<stats::probs::LogProb>, ndarray::Dim<[usize; 2]>>>':
        'the DP matrices are allocated with one row per observation (plus one for backward) and one column per state; the row is a loop index below that bound (or the last row, T >= 1) and the column is a State yielded by hmm.states(), which the Model contract keeps below num_states()',
    'stats::hmm::backward|index|index_mut(x0,array{0,Deref>::deref(x1)})<ndarray::ArrayBase<ndarray::OwnedRepr<stats::probs::LogProb>, ndarray::Dim<[usize; 2]>>>':
        'the DP matrices are allocated with one row per observation (plus one for backward) and one column per state; the row is a loop index below that bound (or the last row, T >= 1) and the column is a State yielded by hmm.states(), which the Model contract keeps below num_states()',
    'stats::hmm::backward|index|index_mut(x0,array{P[1 + x1].0,Deref>::deref(x2)})<ndarray::ArrayBase<ndarray::OwnedRepr<stats::probs::LogProb>, ndarray::Dim<[usize; 2]>>>':
        'the DP matrices are allocated with one row per observation (plus one for backward) and one column per state; the row is a loop index below that bound (or the last row, T >= 1) and the column is a State yielded by hmm.states(), which the Model contract keeps below num_states()',
    'stats::hmm::backward|overflow-sub|slice::len(arg2),1':
        'observation sequences are non-empty (T >= 1, quantifier of C14)',
    'stats::hmm::backward|overflow-add|1,x0':
        'row index + 1 <= number of rows',
    'stats::hmm::backward|index|index(x0,array{x1,Deref>::deref(x2)})<ndarray::ArrayBase<ndarray::OwnedRepr<stats::probs::LogProb>, ndarray::Dim<[usize; 2]>>>':
        'the DP matrices are allocated with one row per observation (plus one for backward) and one column per state; the row is a loop index below that bound (or the last row, T >= 1) and the column is a State yielded by hmm.states(), which the Model contract keeps below num_states()',
    'stats::hmm::backward|overflow-sub|slice::len(arg2),x0':
        'i ranges over 0..n: n - i >= 0',
}


def po8(facts, rep, rule='PO-8'):
    """no panic on impossible observation sequences: panic obligations of the three inference algorithms"""
    from . import eng_po
    from .po_known import KNOWN
    rep.rule(rule, 'panic obligations of viterbi / forward / backward (and viterbi_matrices, viterbi_traceback, their closures): '
                   'every MIR Assert and may-panic call (unwrap, indexing) is discharged by interval analysis or audited with the '
                   'reason it cannot fail for T >= 1, S >= 1; "impossible sequences get probability zero, not a panic" - an '
                   'unwrap on a filtered / possibly empty iterator is reported')
    bodies = [b for b in facts.body_list if re.match('^stats::hmm::(viterbi|forward|backward|viterbi_matrices|viterbi_traceback)(::\\{closure#\\d+\\})*$', b.path)]
    rep.floor(rule, 'bodies', len(bodies), 10)
    total = 0
    for b, nb, ia, obs in eng_po.scan(facts, bodies, KNOWN):
        rep.analysed_body(b)
        seen = {}
        for o in obs:
            total += 1
            key = '%s|%s|%s' % (b.path, o['kind'], o['ops'])
            seen[key] = seen.get(key, 0) + 1
            k2 = key + ('#%d' % seen[key] if seen[key] > 1 else '')
            if o['discharged']:
                rep.ok(rule, k2, o['where'], 'interval analysis')
            elif key in PO8_AUDIT:
                rep.audited(rule, k2, o['where'], PO8_AUDIT[key])
            elif eng_po.orphan_match(key, PO8_AUDIT, set(facts.bodies) | {'QGramIndex::' + b_.name for b_ in facts.body_list}):
                k0 = eng_po.orphan_match(key, PO8_AUDIT, set(facts.bodies) | {'QGramIndex::' + b_.name for b_ in facts.body_list})
                rep.audited(rule, k2, o['where'], 'arithmetic of the removed function %s, now written in its caller: %s' % (k0.split('|')[0], PO8_AUDIT[k0]))
            elif eng_po.implied(key, PO8_AUDIT, o):
                rep.audited(rule, k2, o['where'], eng_po.implied(key, PO8_AUDIT, o)[1])
            else:
                rep.bad(rule, key, o['where'], 'undischarged %s obligation: %s' % (o['kind'], o['detail']))
    rep.floor(rule, 'obligations', total, 20)


# ------------------------------------------------------------------------------------------------ SB-11 (C09)
def sb11(facts, rep, rule='SB-11'):
    """every pattern symbol matches itself: its own bit is set unconditionally in both Myers constructors"""
    rep.rule(rule, 'equality masks, sibling agreement of simple::Myers::new_ambig and long::Myers::new_ambig: in the loop over '
                   'the pattern symbols (the loop that computes the mask `1 << i`) a `peq[..] |= mask` is executed on every '
                   'iteration - the symbol\'s own bit - whatever the ambiguity table says; equivalents only add bits')
    n = 0
    for mod in ('simple', 'long'):
        b = facts.body('pattern_matching::myers::%s::Myers::<T>::new_ambig' % mod)
        key = 'myers::%s::Myers::new_ambig|own-bit-set-unconditionally' % mod
        if b is None:
            rep.missing(rule, key, 'not found')
            continue
        rep.analysed_body(b)
        loops = b.natural_loops()

        def innermost(bb):
            best = None
            for h, blocks in loops.items():
                if bb in blocks and (best is None or len(blocks) < len(loops[best])):
                    best = h
            return best
        shl = [bb for bb, t in b.calls() if call_info(t) and call_info(t)['fn'].endswith('Shl<usize>>::shl') or
               (call_info(t) and call_info(t)['fn'].endswith('::shl'))]
        ors = [bb for bb, t in b.calls() if call_info(t) and call_info(t)['fn'].endswith('BitOrAssign::bitor_assign')]
        for bb in b.reachable(0):
            for s in b.stmts(bb):
                if s['k'] == 'assign' and s['r']['k'] == 'bin' and s['r']['op'] == 'Shl' and bb not in shl:
                    shl.append(bb)
                if s['k'] == 'assign' and s['r']['k'] == 'bin' and s['r']['op'] == 'BitOr' and 'pj' in s['p'] and bb not in ors:
                    ors.append(bb)
        backs = b.loops_back_edges()
        good = False
        found_loop = False
        for sb_ in shl:
            h = innermost(sb_)
            if h is None:
                continue
            # the symbol loop must also contain an |= (the wildcard loop of the same constructor does too: every such loop is checked)
            mine = [o for o in ors if innermost(o) == h]
            if not mine:
                continue
            found_loop = True
            srcs = [s_ for s_, hh in backs if hh == h]
            if any(all(b.dominates(o, s_) for s_ in srcs) for o in mine):
                good = True
            else:
                good = False
                break
        n += 1
        if not found_loop:
            rep.missing(rule, key, 'no loop computing `1 << i` and or-ing it into the mask table found')
        elif good:
            rep.ok(rule, key, '%s:%s' % (b.file, b.line), 'peq[symbol] |= 1 << i on every iteration')
        else:
            rep.bad(rule, key, '%s:%s' % (b.file, b.line), 'the symbol\'s own bit is set only on some paths of the per-symbol loop '
                                                           '(e.g. only when the symbol has no ambiguity entry): a pattern symbol may '
                                                           'not match itself in the text')
    rep.floor(rule, 'constructors', n, 2)
