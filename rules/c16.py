"""C16 partial-order alignment — SR-3 (mode wrappers), EF-5 (monotone graph mutation), TS-7 (growth bound per
operation)."""
from . import effects, eng_sr
from .c01 import run_sr
from .mirlib import call_info, strip, strip_casts, fmt, walk

LEVEL = 'proof'
PRE = 'alignment::poa::Aligner::<F>::'
MIN = 'alignment::poa::MIN_SCORE'
WRAPPERS = {
    'global': ('MIN', 'MIN', 'MIN', 'MIN'),
    'semiglobal': ('MIN', 'MIN', 0, 0),
    'local': (0, 0, 0, 0),
}
ALLOWED_MUT = {'add_node', 'add_edge', 'edge_weight_mut'}
GRAPH_TY = ('&mut petgraph::Graph<', '&mut petgraph::graph::Graph<', '&mut petgraph::graph_impl::Graph<')


def ef5(facts, rep):
    rule = 'EF-5'
    rep.rule(rule, 'monotone graph mutation: in alignment::poa every call that receives `&mut Graph` is add_node, '
                   'add_edge(_, _, const >= 1) or edge_weight_mut whose result is only used for `*w += const >= 1`; '
                   'the graph field of Poa is never reassigned in a `&mut self` method')
    bodies = [b for b in facts.body_list if b.path.startswith('alignment::poa::') and '::tests::' not in b.path]
    n_add_node = n_add_edge = n_ewm = 0
    for b in bodies:
        rep.analysed_body(b)
        for bb, t in b.calls():
            info = call_info(t)
            if not t['args']:
                continue
            a0 = t['args'][0]
            pl = a0.get('m') or a0.get('c')
            if pl is None:
                continue
            ty = pl.get('ty') or b.locals[pl['l']]['ty']
            if not ty.startswith(GRAPH_TY):
                continue
            fn = info['fn'] if info else '<indirect>'
            nm = fn.rsplit('::', 1)[-1]
            key = '%s|graph-mutator|%s' % (b.path, nm)
            if nm not in ALLOWED_MUT or (info and info.get('crate') != 'petgraph'):
                rep.bad(rule, key, b.loc(bb), 'call of %s on the alignment graph: only add_node/add_edge/edge_weight_mut '
                                              'keep the graph growing monotonically' % fn)
                continue
            if nm == 'add_node':
                n_add_node += 1
                rep.ok(rule, key + '@' + str(n_add_node), b.loc(bb), 'add_node')
            elif nm == 'add_edge':
                n_add_edge += 1
                w = strip_casts(b.expr_operand(t['args'][3], inline_user=True))
                if w[0] == 'const' and isinstance(w[1], int) and w[1] >= 1:
                    rep.ok(rule, key + '@' + str(n_add_edge), b.loc(bb), 'add_edge with weight const %d' % w[1])
                else:
                    rep.bad(rule, key + '|weight', b.loc(bb), 'add_edge weight is %s, not a positive constant' % fmt(w))
            else:
                n_ewm += 1
                ok, why = check_weight_increment(b, t)
                if ok:
                    rep.ok(rule, key + '@' + str(n_ewm), b.loc(bb), why)
                else:
                    rep.bad(rule, key + '|increment-only', b.loc(bb), why)
        # reassignment of the graph field in &mut self methods
        if b.raw.get('self_kind') == 'mut' and b.raw.get('impl_adt') == 'alignment::poa::Poa':
            for bb in b.reachable(0):
                for i, s in enumerate(b.stmts(bb)):
                    if s['k'] == 'assign' and s['p']['l'] == 1 and s['p'].get('pj', [])[:1] == ['*']:
                        path = [el['n'] for el in s['p']['pj'][1:] if isinstance(el, dict) and 'f' in el]
                        if path[:1] == ['graph']:
                            rep.bad(rule, '%s|graph-reassigned' % b.path, b.loc(bb, i),
                                    'self.graph is overwritten: earlier nodes/edges may be lost')
    rep.floor(rule, 'add_node sites', n_add_node, 6)
    rep.floor(rule, 'add_edge sites', n_add_edge, 7)
    rep.floor(rule, 'edge_weight_mut sites', n_ewm, 1)


def check_weight_increment(b, t):
    """the &mut i32 obtained from edge_weight_mut(..).unwrap() is only used as *w = *w + const>=1"""
    d = t['dest']['l']
    # follow Option::unwrap / expect
    from .eng_ri import uses_of_locals
    uses = uses_of_locals(b)
    cur = d
    for _ in range(3):
        us = uses.get(cur, [])
        if len(us) != 1 or us[0][0] != 'term':
            break
        t2 = b.term(us[0][1])
        info = call_info(t2)
        if t2['k'] == 'call' and info and info['fn'].endswith(('Option::<T>::unwrap', 'Option::<T>::expect')):
            cur = t2['dest']['l']
            continue
        break
    w = cur
    if w == d:
        return False, 'result of edge_weight_mut is not unwrapped into a plain `&mut weight`'
    stores = 0
    for (kind, bb, x) in uses.get(w, []):
        if kind == 'stmt':
            s = b.stmts(bb)[x]
            if s['k'] != 'assign':
                return False, 'unexpected use of the weight reference'
            p = s['p']
            if p['l'] == w and p.get('pj') == ['*']:
                # store: value must be (*w) + const, matched on the raw MIR (no inlining)
                r = s['r']
                src = None
                if r['k'] == 'use':
                    q = r['o'].get('m') or r['o'].get('c')
                    if q is not None:
                        src = q['l']
                sd = b.single_def(src) if src is not None else None
                good = False
                rr = None
                if r['k'] == 'bin' and r['op'] in ('Add', 'AddWithOverflow', 'AddUnchecked'):
                    rr = r          # release-profile MIR: (*w) = Add(copy (*w), const 1)
                elif sd is not None and sd[0] == 'stmt' and sd[3]['r']['k'] == 'bin' and \
                        sd[3]['r']['op'] in ('Add', 'AddWithOverflow'):
                    rr = sd[3]['r']
                if rr is not None:
                    for x1, x2 in ((rr['a'], rr['b']), (rr['b'], rr['a'])):
                        q1 = x1.get('c') or x1.get('m')
                        if q1 is not None and q1['l'] == w and q1.get('pj') == ['*'] and 'k' in x2 and \
                                isinstance(x2['k'].get('v'), int) and x2['k']['v'] >= 1:
                            good = True
                if good:
                    stores += 1
                    continue
                return False, 'edge weight is overwritten by `%s` (not `old + positive constant`)' % s.get('d')
            # reads of *w feeding the addition are fine
            r = s['r']
            if r['k'] == 'bin' and r['op'] in ('Add', 'AddWithOverflow'):
                continue
            return False, 'weight reference used in %s' % s.get('d')
        else:
            tt = b.term(bb)
            if tt['k'] == 'assert':
                continue
            return False, 'weight reference escapes into %s' % tt.get('dbg', '')[:80]
    if stores < 1:
        return False, 'no increment of the edge weight found'
    return True, '*edge_weight_mut(e).unwrap() += const'


def ts7(facts, rep):
    rule = 'TS-7'
    rep.rule(rule, 'growth bound: in Poa::add_alignment every path through one iteration of the operation loop '
                   'contains at most one add_node; its label is seq[i] and on every path from it to the back edge the '
                   'query cursor i is incremented by one')
    b = facts.body('alignment::poa::Poa::<F>::add_alignment')
    if b is None:
        rep.missing(rule, 'alignment::poa::Poa::<F>::add_alignment', 'body not found')
        return
    rep.analysed_body(b)
    backs = b.loops_back_edges()
    heads = sorted({h for (_s, h) in backs})
    key = b.path + '|single-operation-loop'
    if len(heads) != 1:
        rep.bad(rule, key, '%s:%s' % (b.file, b.line), 'expected one loop over the alignment operations, found %d' % len(heads))
        return
    h = heads[0]
    srcs = [s for (s, hh) in backs if hh == h]
    adds = []
    for bb, t in b.calls():
        info = call_info(t)
        if info and info['fn'].endswith('::add_node') and bb in b.reachable(0):
            adds.append((bb, t))
    rep.floor(rule, 'add_node sites in add_alignment', len(adds), 4)
    # longest path (in add_node calls) through one iteration: DAG = CFG minus back edges, restricted to loop body
    addbbs = {bb for bb, _ in adds}
    memo = {}

    def longest(x, stack=()):
        if x in memo:
            return memo[x]
        if x in stack:
            return 0
        best = 0
        for s in b.succ[x]:
            if (x, s) in backs:
                continue
            best = max(best, longest(s, stack + (x,)))
        memo[x] = best + (1 if x in addbbs else 0)
        return memo[x]

    mx = longest(h)
    key = b.path + '|at-most-one-add_node-per-operation'
    if mx > 1:
        rep.bad(rule, key, '%s:%s' % (b.file, b.line), 'a path through one loop iteration calls add_node %d times' % mx)
    else:
        rep.ok(rule, key, '%s:%s' % (b.file, b.line), 'max add_node calls per iteration = %d over %d sites' % (mx, len(adds)))
    # cursor discipline
    for n, (bb, t) in enumerate(sorted(adds)):
        key = '%s|add_node-consumes-query-symbol@%d' % (b.path, n + 1)
        e = strip(b.expr_operand(t['args'][1], inline_user=True))
        if not (e[0] == 'index' and e[2][0] == 'local' and e[1][0] == 'local' and e[1][1] == 3):
            rep.bad(rule, key, b.loc(bb), 'node label is %s, not seq[cursor]' % fmt(e))
            continue
        cur = e[2][1]
        # blocks that increment the cursor by one
        inc = set()
        for x in b.reachable(0):
            for s in b.stmts(x):
                if s['k'] == 'assign' and 'pj' not in s['p'] and s['p']['l'] == cur:
                    ee = strip_casts(b.expr_rvalue(s['r']))
                    if ee[0] == 'field' and ee[2] == '0':
                        ee = ee[1]
                    if ee[0] == 'bin' and ee[1] in ('Add', 'AddWithOverflow') and ee[2] == ('local', cur, b.local_name(cur)) \
                            and ee[3][0] == 'const' and ee[3][1] == 1:
                        inc.add(x)
        # every path from bb to a back edge source passes an increment block
        seen = {bb}
        st = [bb]
        escaped = False
        while st:
            x = st.pop()
            if x in inc and x != bb:
                continue
            for s in b.succ[x]:
                if (x, s) in backs:
                    escaped = True
                if s not in seen:
                    seen.add(s)
                    st.append(s)
        if escaped:
            rep.bad(rule, key, b.loc(bb), 'a path from this add_node reaches the next operation without advancing the '
                                          'query cursor')
        else:
            rep.ok(rule, key, b.loc(bb), 'label seq[%s]; cursor += 1 on every path to the back edge' % (b.local_name(cur) or cur))


def core_routines(facts):
    """Poa methods that compute an alignment: they return a Traceback"""
    return {b.path for b in facts.body_list if b.path.startswith('alignment::poa::Poa::<F>::') and
            b.raw.get('output') == 'alignment::poa::Traceback'}


def ef6(facts, rep):
    rule = 'EF-6'
    rep.rule(rule, 'fresh traceback per alignment: every Poa routine returning a Traceback builds it from '
                   'Traceback::with_capacity/new inside that call (never from a parameter), takes &self, and the Aligner '
                   'entry points pass nothing but &self.poa, the query and constants/parameters to it - so no matrix cell '
                   'of an earlier alignment (e.g. a row filled under other clip penalties) can leak into the next one')
    cores = core_routines(facts)
    rep.floor(rule, 'Poa routines returning a Traceback', len(cores), 2)
    for path in sorted(cores):
        b = facts.body(path)
        rep.analysed_body(b)
        key = '%s|returns-fresh-traceback' % path
        d, _ = b.defs()
        srcs = []
        work = [0]
        seen = set()
        ok = True
        why = ''
        while work:
            l = work.pop()
            if l in seen:
                continue
            seen.add(l)
            if 1 <= l <= b.arg_count:
                ok = False
                why = 'the returned Traceback is (derived from) parameter `%s`' % (b.local_name(l) or l)
            for df in d.get(l, []):
                if df[0] == 'call':
                    srcs.append(call_info(df[2])['fn'] if call_info(df[2]) else '?')
                elif df[0] == 'stmt' and df[3]['r']['k'] == 'use':
                    pl = df[3]['r']['o'].get('m') or df[3]['r']['o'].get('c')
                    if pl is not None and 'pj' not in pl:
                        work.append(pl['l'])
        for fn in srcs:
            if not (fn.startswith('alignment::poa::Traceback::with_capacity') or fn.startswith('alignment::poa::Traceback::new')
                    or fn in cores):
                ok = False
                why = why or 'the returned Traceback comes from %s' % fn
        if b.raw.get('self_kind') != 'ref':
            ok = False
            why = why or 'takes %s self' % b.raw.get('self_kind')
        if ok and srcs:
            rep.ok(rule, key, '%s:%s' % (b.file, b.line), 'built by %s in this call; &self' % sorted(set(srcs)))
        else:
            rep.bad(rule, key, '%s:%s' % (b.file, b.line), why or 'no constructor found')
    n = 0
    for b in facts.body_list:
        if b.raw.get('impl_adt') != 'alignment::poa::Aligner' or b.raw.get('impl_trait'):
            continue
        for bb, t in b.calls():
            info = call_info(t)
            if not info or info['fn'] not in cores:
                continue
            n += 1
            rep.analysed_body(b)
            key = '%s|core-call-gets-no-old-state' % b.path
            badargs = []
            for ai, a in enumerate(t['args']):
                e = strip(b.expr_operand(a, inline_user=True))
                for x in walk(e):
                    if isinstance(x, tuple) and x[0] == 'field' and x[1] == ('local', 1, 'self') and x[2] != 'poa':
                        badargs.append('self.' + x[2])
                    if isinstance(x, tuple) and x[0] == 'field' and x[1][0] == 'local' and x[1][1] == 1 and x[2] != 'poa':
                        badargs.append('self.' + x[2])
            if badargs:
                rep.bad(rule, key, b.loc(bb), 'state of the previous alignment (%s) is handed to %s' % (
                    ', '.join(sorted(set(badargs))), info['fn'].rsplit('::', 1)[-1]))
            else:
                rep.ok(rule, key, b.loc(bb), 'arguments: &self.poa, query/parameters only')
    rep.floor(rule, 'core call sites in Aligner', n, 1)
    # fail closed on the entry points instead of on a call-site count (helpers may merge call sites)
    for nm in ('global', 'semiglobal', 'local', 'custom'):
        eb = facts.body('alignment::poa::Aligner::<F>::' + nm)
        key = 'alignment::poa::Aligner::<F>::%s|reaches-core-routine' % nm
        if eb is None:
            rep.missing(rule, key, 'entry point not found')
        elif set(facts.reachable_bodies([eb])) & cores:
            rep.ok(rule, key, '%s:%s' % (eb.file, eb.line), 'reaches a Poa routine returning a Traceback')
        else:
            rep.missing(rule, key, 'no Poa alignment routine is reachable from this entry point')


def ef7(facts, rep):
    rule = 'EF-7'
    rep.rule(rule, 'edge endpoint provenance (necessary for acyclicity): in Poa::add_alignment every node that becomes the '
                   'source or target of add_edge / the cursor `prev` is either created in this call (add_node), named by the '
                   'alignment operation (NodeIndex::new of the operation payload) or the head node - never the result of a '
                   'graph query such as neighbors(): the alignment is topologically consistent, arbitrary existing nodes '
                   'are not')
    b = facts.body('alignment::poa::Poa::<F>::add_alignment')
    if b is None:
        rep.missing(rule, 'alignment::poa::Poa::<F>::add_alignment', 'not found')
        return
    rep.analysed_body(b)
    d, _ = b.defs()
    memo = {}

    def prov(l, depth=0):
        """set of provenance tags of node-index local l"""
        if l in memo:
            return memo[l]
        memo[l] = set()
        out = set()
        if depth > 12:
            return {'?'}
        for df in d.get(l, []):
            if df[0] == 'arg':
                out.add('param')
            elif df[0] == 'call':
                fn = call_info(df[2])['fn'] if call_info(df[2]) else '?'
                nm = fn.rsplit('::', 1)[-1]
                if nm == 'add_node':
                    out.add('new')
                elif fn.endswith('NodeIndex::<Ix>::new'):
                    out.add('named')
                elif nm in ('unwrap', 'expect') and fn.startswith('std::option::Option'):
                    a0 = df[2]['args'][0].get('m') or df[2]['args'][0].get('c')
                    out |= prov(a0['l'], depth + 1) if a0 is not None and 'pj' not in a0 else {'?'}
                elif nm == 'next' and 'Topo' in fn:
                    out.add('head')
                else:
                    out.add('query:' + nm)
            elif df[0] == 'stmt':
                r = df[3]['r']
                if r['k'] == 'use':
                    q = r['o'].get('m') or r['o'].get('c')
                    if q is None:
                        out.add('const')
                    elif 'pj' not in q:
                        out |= prov(q['l'], depth + 1)
                    else:
                        # payload of an Option / pattern binding: provenance of the scrutinee
                        out |= prov(q['l'], depth + 1)
                else:
                    out.add('expr')
        memo[l] = out
        return out
    allowed = {'new', 'named', 'head'}
    n = 0
    for bb, t in b.calls():
        info = call_info(t)
        if not info or info['fn'].rsplit('::', 1)[-1] != 'add_edge':
            continue
        for ai in (1, 2):
            pl = t['args'][ai].get('c') or t['args'][ai].get('m')
            if pl is None or 'pj' in pl:
                continue
            n += 1
            pv = prov(pl['l'])
            key = 'add_alignment|add_edge-endpoint-provenance@%d' % n
            if pv and pv <= allowed:
                rep.ok(rule, key, b.loc(bb), '/'.join(sorted(pv)))
            else:
                rep.bad(rule, key, b.loc(bb), 'an edge endpoint comes from %s: linking to a node found by a graph query can close '
                                              'a cycle' % sorted(pv - allowed))
    # the cursor `prev`: every assignment
    rep.floor(rule, 'add_edge endpoints', n, 10)
    for bb, t in b.calls():
        info = call_info(t)
        if info and info['fn'].rsplit('::', 1)[-1] == 'edge_weight_mut':
            # the edge whose weight is incremented was found between prev and an allowed node
            pass


def run(facts, rep, ctx):
    cores = core_routines(facts)
    r = run_sr(facts, rep, 'SR-3', PRE, WRAPPERS, lambda fn: fn in cores, MIN,
               ('poa', 'scoring'))
    if r:
        rep.floor('SR-3', 'restore obligations', r[0], 12)
        rep.floor('SR-3', 'mode-table call sites', r[1], 3)
    # the core routine takes &self: cannot write scoring
    core = facts.body('alignment::poa::Poa::<F>::custom')
    if core is None:
        rep.missing('SR-3', 'alignment::poa::Poa::<F>::custom', 'core routine not found')
    else:
        key = core.path + '|receiver-is-shared'
        if core.raw.get('self_kind') == 'ref':
            rep.ok('SR-3', key, '%s:%s' % (core.file, core.line), '&self receiver; Scoring has no interior mutability')
        else:
            eff = effects.Effects(facts)
            w = eff.param_writes(core, 1)
            if any(effects.path_related(effects.clean(p), ('scoring',)) for p in w):
                rep.bad('SR-3', key, '%s:%s' % (core.file, core.line), 'core routine may write self.scoring')
            else:
                rep.ok('SR-3', key, '%s:%s' % (core.file, core.line), 'no write to scoring')
    ef5(facts, rep)
    ts7(facts, rep)
    ef6(facts, rep)
    ef7(facts, rep)


_run_before_round2 = run


def run(facts, rep, ctx):
    """rules added after the second round of independent seeding (rules/round2.py)"""
    _run_before_round2(facts, rep, ctx)
    from . import round2
    round2.ef7b(facts, rep)



_run_before_round5 = run


def run(facts, rep, ctx):
    """rules added after the fourth seeding round (rules/round5.py)"""
    _run_before_round5(facts, rep, ctx)
    from . import round2
    for nm in ('custom', 'global_banded'):
        round2.ao1(facts, rep, 'alignment::poa::Poa::<F>::' + nm, first=1, second=2, names=('the graph (reference base)', 'the query'), floor=2)


_run_before_round6 = run


def run(facts, rep, ctx):
    """rules added after the fifth seeding round (rules/round6.py)"""
    _run_before_round6(facts, rep, ctx)
    from . import round6
    round6.cf2(facts, rep, ['alignment::poa::'], 50)


_run_before_round7 = run


def run(facts, rep, ctx):
    """rules added in the sixth seeding round (rules/round7.py)"""
    _run_before_round7(facts, rep, ctx)
    from . import round7
    round7.sz1(facts, rep)
