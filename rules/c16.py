"""C16 partial-order alignment — SR-3 (mode wrappers), EF-5 (monotone graph mutation), TS-7 (growth bound per
operation)."""
from . import effects, eng_sr
from .c01 import run_sr
from .mirlib import call_info, strip, strip_casts, fmt

LEVEL = 'proof'
PRE = 'alignment::poa::Aligner::<F>::'
MIN = 'alignment::poa::MIN_SCORE'
WRAPPERS = {
    'global': ('MIN', 'MIN', 'MIN', 'MIN'),
    'semiglobal': ('MIN', 'MIN', 0, 0),
    'local': (0, 0, 0, 0),
}
ALLOWED_MUT = {'add_node', 'add_edge', 'edge_weight_mut'}
GRAPH_TY = ('&mut petgraph::Graph<', '&mut petgraph::graph::Graph<', '&mut petgraph::graph_impl::Graph<')


def ef5(facts, rep):
    rule = 'EF-5'
    rep.rule(rule, 'monotone graph mutation: in alignment::poa every call that receives `&mut Graph` is add_node, '
                   'add_edge(_, _, const >= 1) or edge_weight_mut whose result is only used for `*w += const >= 1`; '
                   'the graph field of Poa is never reassigned in a `&mut self` method')
    bodies = [b for b in facts.body_list if b.path.startswith('alignment::poa::') and '::tests::' not in b.path]
    n_add_node = n_add_edge = n_ewm = 0
    for b in bodies:
        rep.analysed_body(b)
        for bb, t in b.calls():
            info = call_info(t)
            if not t['args']:
                continue
            a0 = t['args'][0]
            pl = a0.get('m') or a0.get('c')
            if pl is None:
                continue
            ty = pl.get('ty') or b.locals[pl['l']]['ty']
            if not ty.startswith(GRAPH_TY):
                continue
            fn = info['fn'] if info else '<indirect>'
            nm = fn.rsplit('::', 1)[-1]
            key = '%s|graph-mutator|%s' % (b.path, nm)
            if nm not in ALLOWED_MUT or (info and info.get('crate') != 'petgraph'):
                rep.bad(rule, key, b.loc(bb), 'call of %s on the alignment graph: only add_node/add_edge/edge_weight_mut '
                                              'keep the graph growing monotonically' % fn)
                continue
            if nm == 'add_node':
                n_add_node += 1
                rep.ok(rule, key + '@' + str(n_add_node), b.loc(bb), 'add_node')
            elif nm == 'add_edge':
                n_add_edge += 1
                w = strip_casts(b.expr_operand(t['args'][3], inline_user=True))
                if w[0] == 'const' and isinstance(w[1], int) and w[1] >= 1:
                    rep.ok(rule, key + '@' + str(n_add_edge), b.loc(bb), 'add_edge with weight const %d' % w[1])
                else:
                    rep.bad(rule, key + '|weight', b.loc(bb), 'add_edge weight is %s, not a positive constant' % fmt(w))
            else:
                n_ewm += 1
                ok, why = check_weight_increment(b, t)
                if ok:
                    rep.ok(rule, key + '@' + str(n_ewm), b.loc(bb), why)
                else:
                    rep.bad(rule, key + '|increment-only', b.loc(bb), why)
        # reassignment of the graph field in &mut self methods
        if b.raw.get('self_kind') == 'mut' and b.raw.get('impl_adt') == 'alignment::poa::Poa':
            for bb in b.reachable(0):
                for i, s in enumerate(b.stmts(bb)):
                    if s['k'] == 'assign' and s['p']['l'] == 1 and s['p'].get('pj', [])[:1] == ['*']:
                        path = [el['n'] for el in s['p']['pj'][1:] if isinstance(el, dict) and 'f' in el]
                        if path[:1] == ['graph']:
                            rep.bad(rule, '%s|graph-reassigned' % b.path, b.loc(bb, i),
                                    'self.graph is overwritten: earlier nodes/edges may be lost')
    rep.floor(rule, 'add_node sites', n_add_node, 6)
    rep.floor(rule, 'add_edge sites', n_add_edge, 7)
    rep.floor(rule, 'edge_weight_mut sites', n_ewm, 1)


def check_weight_increment(b, t):
    """the &mut i32 obtained from edge_weight_mut(..).unwrap() is only used as *w = *w + const>=1"""
    d = t['dest']['l']
    # follow Option::unwrap / expect
    from .eng_ri import uses_of_locals
    uses = uses_of_locals(b)
    cur = d
    for _ in range(3):
        us = uses.get(cur, [])
        if len(us) != 1 or us[0][0] != 'term':
            break
        t2 = b.term(us[0][1])
        info = call_info(t2)
        if t2['k'] == 'call' and info and info['fn'].endswith(('Option::<T>::unwrap', 'Option::<T>::expect')):
            cur = t2['dest']['l']
            continue
        break
    w = cur
    if w == d:
        return False, 'result of edge_weight_mut is not unwrapped into a plain `&mut weight`'
    stores = 0
    for (kind, bb, x) in uses.get(w, []):
        if kind == 'stmt':
            s = b.stmts(bb)[x]
            if s['k'] != 'assign':
                return False, 'unexpected use of the weight reference'
            p = s['p']
            if p['l'] == w and p.get('pj') == ['*']:
                # store: value must be (*w) + const, matched on the raw MIR (no inlining)
                r = s['r']
                src = None
                if r['k'] == 'use':
                    q = r['o'].get('m') or r['o'].get('c')
                    if q is not None:
                        src = q['l']
                sd = b.single_def(src) if src is not None else None
                good = False
                if sd is not None and sd[0] == 'stmt' and sd[3]['r']['k'] == 'bin' and \
                        sd[3]['r']['op'] in ('Add', 'AddWithOverflow'):
                    rr = sd[3]['r']
                    for x1, x2 in ((rr['a'], rr['b']), (rr['b'], rr['a'])):
                        q1 = x1.get('c') or x1.get('m')
                        if q1 is not None and q1['l'] == w and q1.get('pj') == ['*'] and 'k' in x2 and \
                                isinstance(x2['k'].get('v'), int) and x2['k']['v'] >= 1:
                            good = True
                if good:
                    stores += 1
                    continue
                return False, 'edge weight is overwritten by `%s` (not `old + positive constant`)' % s.get('d')
            # reads of *w feeding the addition are fine
            r = s['r']
            if r['k'] == 'bin' and r['op'] in ('Add', 'AddWithOverflow'):
                continue
            return False, 'weight reference used in %s' % s.get('d')
        else:
            tt = b.term(bb)
            if tt['k'] == 'assert':
                continue
            return False, 'weight reference escapes into %s' % tt.get('dbg', '')[:80]
    if stores < 1:
        return False, 'no increment of the edge weight found'
    return True, '*edge_weight_mut(e).unwrap() += const'


def ts7(facts, rep):
    rule = 'TS-7'
    rep.rule(rule, 'growth bound: in Poa::add_alignment every path through one iteration of the operation loop '
                   'contains at most one add_node; its label is seq[i] and on every path from it to the back edge the '
                   'query cursor i is incremented by one')
    b = facts.body('alignment::poa::Poa::<F>::add_alignment')
    if b is None:
        rep.missing(rule, 'alignment::poa::Poa::<F>::add_alignment', 'body not found')
        return
    rep.analysed_body(b)
    backs = b.loops_back_edges()
    heads = sorted({h for (_s, h) in backs})
    key = b.path + '|single-operation-loop'
    if len(heads) != 1:
        rep.bad(rule, key, '%s:%s' % (b.file, b.line), 'expected one loop over the alignment operations, found %d' % len(heads))
        return
    h = heads[0]
    srcs = [s for (s, hh) in backs if hh == h]
    adds = []
    for bb, t in b.calls():
        info = call_info(t)
        if info and info['fn'].endswith('::add_node') and bb in b.reachable(0):
            adds.append((bb, t))
    rep.floor(rule, 'add_node sites in add_alignment', len(adds), 4)
    # longest path (in add_node calls) through one iteration: DAG = CFG minus back edges, restricted to loop body
    addbbs = {bb for bb, _ in adds}
    memo = {}

    def longest(x, stack=()):
        if x in memo:
            return memo[x]
        if x in stack:
            return 0
        best = 0
        for s in b.succ[x]:
            if (x, s) in backs:
                continue
            best = max(best, longest(s, stack + (x,)))
        memo[x] = best + (1 if x in addbbs else 0)
        return memo[x]

    mx = longest(h)
    key = b.path + '|at-most-one-add_node-per-operation'
    if mx > 1:
        rep.bad(rule, key, '%s:%s' % (b.file, b.line), 'a path through one loop iteration calls add_node %d times' % mx)
    else:
        rep.ok(rule, key, '%s:%s' % (b.file, b.line), 'max add_node calls per iteration = %d over %d sites' % (mx, len(adds)))
    # cursor discipline
    for n, (bb, t) in enumerate(sorted(adds)):
        key = '%s|add_node-consumes-query-symbol@%d' % (b.path, n + 1)
        e = strip(b.expr_operand(t['args'][1], inline_user=True))
        if not (e[0] == 'index' and e[2][0] == 'local' and e[1][0] == 'local' and e[1][1] == 3):
            rep.bad(rule, key, b.loc(bb), 'node label is %s, not seq[cursor]' % fmt(e))
            continue
        cur = e[2][1]
        # blocks that increment the cursor by one
        inc = set()
        for x in b.reachable(0):
            for s in b.stmts(x):
                if s['k'] == 'assign' and 'pj' not in s['p'] and s['p']['l'] == cur:
                    ee = strip_casts(b.expr_rvalue(s['r']))
                    if ee[0] == 'field' and ee[2] == '0':
                        ee = ee[1]
                    if ee[0] == 'bin' and ee[1] in ('Add', 'AddWithOverflow') and ee[2] == ('local', cur, b.local_name(cur)) \
                            and ee[3][0] == 'const' and ee[3][1] == 1:
                        inc.add(x)
        # every path from bb to a back edge source passes an increment block
        seen = {bb}
        st = [bb]
        escaped = False
        while st:
            x = st.pop()
            if x in inc and x != bb:
                continue
            for s in b.succ[x]:
                if (x, s) in backs:
                    escaped = True
                if s not in seen:
                    seen.add(s)
                    st.append(s)
        if escaped:
            rep.bad(rule, key, b.loc(bb), 'a path from this add_node reaches the next operation without advancing the '
                                          'query cursor')
        else:
            rep.ok(rule, key, b.loc(bb), 'label seq[%s]; cursor += 1 on every path to the back edge' % (b.local_name(cur) or cur))


def run(facts, rep, ctx):
    r = run_sr(facts, rep, 'SR-3', PRE, WRAPPERS, lambda fn: fn == 'alignment::poa::Poa::<F>::custom', MIN,
               ('poa', 'scoring'))
    if r:
        rep.floor('SR-3', 'restore obligations', r[0], 12)
        rep.floor('SR-3', 'mode-table call sites', r[1], 3)
    # the core routine takes &self: cannot write scoring
    core = facts.body('alignment::poa::Poa::<F>::custom')
    if core is None:
        rep.missing('SR-3', 'alignment::poa::Poa::<F>::custom', 'core routine not found')
    else:
        key = core.path + '|receiver-is-shared'
        if core.raw.get('self_kind') == 'ref':
            rep.ok('SR-3', key, '%s:%s' % (core.file, core.line), '&self receiver; Scoring has no interior mutability')
        else:
            eff = effects.Effects(facts)
            w = eff.param_writes(core, 1)
            if any(effects.path_related(effects.clean(p), ('scoring',)) for p in w):
                rep.bad('SR-3', key, '%s:%s' % (core.file, core.line), 'core routine may write self.scoring')
            else:
                rep.ok('SR-3', key, '%s:%s' % (core.file, core.line), 'no write to scoring')
    ef5(facts, rep)
    ts7(facts, rep)
