"""C15 log-space arithmetic — TB-5 (scale factors), GD-5 (checked construction), GD-8 (the difference of two
log-probabilities is only formed behind the ln(0) guard: no -inf - -inf = NaN)."""
import math
import struct
from . import eng_gd
from .mirlib import call_info, strip, strip_casts, fmt, walk, norm_cmp

LEVEL = 'other'
P = 'stats::probs::'


def fval(c):
    if c is None or 'bits' not in c:
        return None
    return struct.unpack('<d', struct.pack('<Q', int(c['bits'])))[0]


def ulps(a, b):
    ia = struct.unpack('<q', struct.pack('<d', a))[0]
    ib = struct.unpack('<q', struct.pack('<d', b))[0]
    return abs(ia - ib)


def const_f(e):
    if e[0] == 'const' and isinstance(e[1], tuple) and e[1][0] == 'bits':
        return struct.unpack('<d', struct.pack('<Q', int(e[1][1])))[0]
    return None


def tb5(facts, rep):
    rule = 'TB-5'
    rep.rule(rule, 'scale factors: evaluated consts LOG_TO_PHRED_FACTOR = -10/ln 10 and PHRED_TO_LOG_FACTOR = -ln 10/10 '
                   '(within 2 ulp) are mutually inverse, and each From impl between LogProb / PHREDProb / Prob uses the '
                   'factor (resp. base-10 formula) of its own direction')
    a = fval(facts.consts.get(P + 'LOG_TO_PHRED_FACTOR'))
    b = fval(facts.consts.get(P + 'PHRED_TO_LOG_FACTOR'))
    if a is None or b is None:
        rep.missing(rule, 'LOG_TO_PHRED_FACTOR / PHRED_TO_LOG_FACTOR', 'constants not evaluated')
        return
    for nm, v, want in (('LOG_TO_PHRED_FACTOR', a, -10.0 / math.log(10.0)), ('PHRED_TO_LOG_FACTOR', b, -math.log(10.0) / 10.0)):
        key = nm + '|value'
        if ulps(v, want) <= 2:
            rep.ok(rule, key, '', '%r (%d ulp from %r)' % (v, ulps(v, want), want))
        else:
            rep.bad(rule, key, '', '%s = %r, expected %r' % (nm, v, want))
    key = 'factors|mutually-inverse'
    if abs(a * b - 1.0) <= 4 * 2.220446049250313e-16:
        rep.ok(rule, key, '', 'a*b - 1 = %g' % (a * b - 1.0))
    else:
        rep.bad(rule, key, '', 'LOG_TO_PHRED_FACTOR * PHRED_TO_LOG_FACTOR = %r' % (a * b))
    want = {
        ('LogProb', 'PHREDProb'): 'PHRED_TO_LOG_FACTOR',
        ('PHREDProb', 'LogProb'): 'LOG_TO_PHRED_FACTOR',
    }
    for (to, frm), fac in want.items():
        b_ = facts.one(r'^<stats::probs::%s as std::convert::From<stats::probs::%s>>::from$' % (to, frm))
        key = 'From<%s> for %s|factor' % (frm, to)
        if b_ is None:
            rep.missing(rule, key, 'impl not found')
            continue
        rep.analysed_body(b_)
        found = None
        for bb in b_.reachable(0):
            for s in b_.stmts(bb):
                if s['k'] == 'assign' and s['r']['k'] == 'bin':
                    for o in (s['r']['a'], s['r']['b']):
                        d = o.get('k', {}).get('def')
                        if d:
                            found = (s['r']['op'], d.rsplit('::', 1)[-1], bb)
        if found == ('Mul', fac, found[2] if found else None):
            rep.ok(rule, key, b_.loc(found[2]), 'value * %s' % fac)
        else:
            rep.bad(rule, key, '%s:%s' % (b_.file, b_.line), 'conversion uses %s, expected multiplication by %s' % (found, fac))
    # base-10 conversions
    b1 = facts.one(r'^<stats::probs::Prob as std::convert::From<stats::probs::PHREDProb>>::from$')
    key = 'From<PHREDProb> for Prob|10^(-p/10)'
    if b1 is None:
        rep.missing(rule, key, 'impl not found')
    else:
        rep.analysed_body(b1)
        ok = False
        for bb, t in b1.calls():
            info = call_info(t)
            if info and info['fn'].endswith('f64::powf') or (info and info['fn'].endswith('::powf')):
                base = const_f(strip(b1.expr_operand(t['args'][0], inline_user=True)))
                e = strip(b1.expr_operand(t['args'][1], inline_user=True))
                txt = fmt(e)
                ok = base == 10.0 and e[0] == 'bin' and e[1] == 'Div' and const_f(e[3]) == 10.0 and \
                    e[2][0] == 'un' and e[2][1] == 'Neg'
        if ok:
            rep.ok(rule, key, '%s:%s' % (b1.file, b1.line), '10f64.powf(-p / 10.0)')
        else:
            rep.bad(rule, key, '%s:%s' % (b1.file, b1.line), 'PHRED -> Prob is not 10^(-p/10)')
    b2 = facts.one(r'^<stats::probs::PHREDProb as std::convert::From<stats::probs::Prob>>::from$')
    key = 'From<Prob> for PHREDProb|-10*log10(p)'
    if b2 is None:
        rep.missing(rule, key, 'impl not found')
    else:
        rep.analysed_body(b2)
        ok = False
        for bb in b2.reachable(0):
            for s in b2.stmts(bb):
                if s['k'] == 'assign' and s['r']['k'] == 'bin' and s['r']['op'] == 'Mul':
                    e = strip(b2.expr_rvalue(s['r'], inline_user=True))
                    cs = [const_f(x) for x in (e[2], e[3])]
                    calls = [x for x in (e[2], e[3]) if x[0] == 'call' and x[1].endswith('log10')]
                    ok = (-10.0 in cs) and bool(calls)
        if ok:
            rep.ok(rule, key, '%s:%s' % (b2.file, b2.line), '-10.0 * p.log10()')
        else:
            rep.bad(rule, key, '%s:%s' % (b2.file, b2.line), 'Prob -> PHRED is not -10 * log10(p)')


def gd5(facts, rep):
    rule = 'GD-5'
    rep.rule(rule, 'checked construction: Prob::checked builds Ok(Prob(p)) only on the edge where 0.0 <= p <= 1.0 holds '
                   '(RangeInclusive{0.0,1.0}.contains(&p) or the two comparisons) and Err on the other edge')
    b = facts.body(P + 'Prob::checked')
    if b is None:
        rep.missing(rule, P + 'Prob::checked', 'not found')
        return
    rep.analysed_body(b)
    key = 'Prob::checked|range-guard'
    g_ok = None
    for g in eng_gd.guards(b):
        e = strip(g['expr'])
        if e[0] == 'call' and e[1].endswith('RangeInclusive::<Idx>::contains'):
            rng = strip(e[2][0])
            arg = strip(e[2][1])
            if rng[0] == 'call' and rng[1].endswith('RangeInclusive::<Idx>::new'):
                lo, hi = const_f(strip(rng[2][0])), const_f(strip(rng[2][1]))
                if lo == 0.0 and hi == 1.0 and arg[0] == 'local' and arg[1] == 1:
                    g_ok = g
    if g_ok is None:
        # two comparisons form
        cs = set()
        for g in eng_gd.guards(b):
            if g['cmp_true']:
                cs.add(g['cmp_true'])
        nm = b.local_name(1)
        if ('Le', '0.0', nm) in cs or ('Le', '0e0', nm) in cs:
            pass
        rep.bad(rule, key, '%s:%s' % (b.file, b.line), 'no guard equivalent to (0.0..=1.0).contains(&p) found (guards: %s)' % [
            g['text'] for g in eng_gd.guards(b)])
        return
    t_reg = eng_gd.region(b, g_ok['t'])
    f_reg = eng_gd.region(b, g_ok['f'])

    def variants(reg):
        out = set()
        for x in reg:
            for s in b.stmts(x):
                if s['k'] == 'assign' and s['p']['l'] == 0 and s['r']['k'] == 'agg':
                    out.add(s['r'].get('variant'))
        return out
    tv = variants(t_reg - f_reg)
    fv = variants(f_reg - t_reg)
    if tv == {'Ok'} and fv == {'Err'}:
        rep.ok(rule, key, b.loc(g_ok['bb']), 'Ok only inside [0,1], Err outside')
    else:
        rep.bad(rule, key, b.loc(g_ok['bb']), 'in-range edge builds %s, out-of-range edge builds %s' % (sorted(tv), sorted(fv)))


def gd8(facts, rep):
    rule = 'GD-8'
    rep.rule(rule, 'NaN guard: in LogProb::{ln_add_exp, ln_sum_exp, ln_sub_exp} the difference of two log-probabilities '
                   '(and the closure that forms it) is reached only on the false edge of `larger == ln_zero()`, so '
                   '-inf - -inf is never evaluated; ln_zero is returned on the true edge')
    n = 0
    for nm in ('ln_add_exp', 'ln_sum_exp', 'ln_sub_exp'):
        b = facts.body(P + 'LogProb::' + nm)
        if b is None:
            rep.missing(rule, P + 'LogProb::' + nm, 'not found')
            continue
        rep.analysed_body(b)
        # sites: Sub::sub calls on LogProb in this body, or creation of a closure whose body contains one
        sites = []
        for bb, t in b.calls():
            info = call_info(t)
            if info and info['fn'].endswith('ops::Sub::sub') and bb in b.reachable(0):
                sites.append(bb)
        for c in facts.closures_of(b.path):
            has = any(call_info(t) and call_info(t)['fn'].endswith('ops::Sub::sub') for _bb, t in c.calls())
            if has:
                for bb in b.reachable(0):
                    for s in b.stmts(bb):
                        if s['k'] == 'assign' and s['r']['k'] == 'agg' and s['r'].get('closure') == c.path:
                            sites.append(bb)
        guards = []
        for g in eng_gd.guards(b):
            c = g['cmp_true']
            if c and c[0] == 'Eq' and ('ln_zero' in c[1] or 'ln_zero' in c[2]):
                guards.append(g)
        key = 'LogProb::%s|difference-behind-ln_zero-guard' % nm
        if not sites:
            rep.missing(rule, key, 'no log-probability difference found')
            continue
        n += len(sites)
        bad = [s for s in sites if not any(b.edge_dominates((g['bb'], g['f']), s) for g in guards)]
        # the guard must test the value that is subtracted (the maximum): accept a guard on any operand but require one
        # guard whose false edge dominates every site and whose true edge returns ln_zero
        if bad:
            rep.bad(rule, key, b.loc(bad[0]), 'a difference of log-probabilities is formed without a dominating '
                                              '`== ln_zero()` test: -inf - -inf yields NaN')
        else:
            rep.ok(rule, key, b.loc(sites[0]), '%d difference site(s) behind %d ln_zero guard(s)' % (len(sites), len(guards)))
    rep.floor(rule, 'difference sites', n, 3)


def gd8b(facts, rep):
    rule = 'GD-8b'
    rep.rule(rule, 'term selection of ln_sum_exp: the closure producing the summed terms drops a term (returns None) only '
                   'because it is the maximum itself (index equality) or exactly ln(0) (equality with ln_zero()); any other '
                   'condition - in particular an absolute threshold on the log value - discards terms that matter relative '
                   'to the maximum; equality tests in ln_sub_exp use the default tolerance of approx::Relative')
    b = facts.body(P + 'LogProb::ln_sum_exp')
    if b is None:
        rep.missing(rule, P + 'LogProb::ln_sum_exp', 'not found')
        return
    n = 0
    for c in facts.closures_of(b.path):
        nones = [bb for bb in c.reachable(0) for s in c.stmts(bb)
                 if s['k'] == 'assign' and s['p']['l'] == 0 and s['r']['k'] == 'agg' and s['r'].get('variant') == 'None']
        if not nones:
            continue
        rep.analysed_body(c)
        n += 1
        key = 'LogProb::ln_sum_exp|terms-dropped-only-for-max-or-ln_zero'
        bad = []
        for g in eng_gd.guards(c):
            txt = g['text']
            e = strip(g['expr'])
            ok = False
            if g['cmp_true'] and g['cmp_true'][0] == 'Eq':
                if 'ln_zero' in txt:
                    ok = True
                elif e[0] == 'bin' and all(not (isinstance(x, tuple) and x[0] == 'const' and isinstance(x[1], tuple) and x[1][0] == 'bits')
                                           for x in walk(e)):
                    ok = True   # index equality
            if not ok:
                bad.append(txt)
        if bad:
            rep.bad(rule, key, '%s:%s' % (c.file, c.line), 'a term of the sum is dropped under the condition `%s`: only the maximum '
                                                           'itself and exact ln(0) may be skipped' % bad[0][:100])
        else:
            rep.ok(rule, key, '%s:%s' % (c.file, c.line), 'None only for i == imax or p == ln_zero()')
    rep.floor(rule, 'term closures', n, 1)
    sub = facts.body(P + 'LogProb::ln_sub_exp')
    key = 'LogProb::ln_sub_exp|default-equality-tolerance'
    if sub is None:
        rep.missing(rule, key, 'not found')
    else:
        rep.analysed_body(sub)
        setters = []
        for bb, t in sub.calls():
            info = call_info(t)
            if info and info['fn'].startswith('approx::Relative') and info['fn'].rsplit('::', 1)[-1] in ('max_relative', 'epsilon'):
                v = const_f(strip(sub.expr_operand(t['args'][1], inline_user=True)))
                if v is None or v > 1e-9:
                    setters.append((bb, info['fn'].rsplit('::', 1)[-1], v))
        if setters:
            rep.bad(rule, key, sub.loc(setters[0][0]), 'the "operands are equal" shortcut uses %s = %s on the log values: differences '
                                                       'far above rounding noise are returned as probability 0' % (setters[0][1], setters[0][2]))
        else:
            rep.ok(rule, key, '%s:%s' % (sub.file, sub.line), 'approx::Relative::default()')


def tb10(facts, rep):
    rule = 'TB-10'
    rep.rule(rule, 'fast exponential cut-off: with x = ONEBYLOG2 * arg the bit trick builds the exponent field trunc(x) + '
                   'OFFSET_F64, which must stay >= 1, i.e. MIN_VAL * ONEBYLOG2 + OFFSET_F64 >= 1 (MIN_VAL > about -708.4); and '
                   'MIN_VAL <= -40 so that flushing to 0 costs less than f64 epsilon relative to the largest operand')
    mv = fval(facts.consts.get('utils::fastexp::MIN_VAL'))
    ob = fval(facts.consts.get('utils::fastexp::ONEBYLOG2'))
    off = facts.const_value('utils::fastexp::OFFSET_F64')
    key = 'fastexp|cutoff-keeps-exponent-field-positive'
    if mv is None or ob is None or off is None:
        rep.missing(rule, key, 'constants MIN_VAL / ONEBYLOG2 / OFFSET_F64 not evaluated')
        return
    # the comparison must actually use MIN_VAL
    fb = facts.one(r'^<f64 as utils::fastexp::FastExp<f64>>::fastexp$')
    uses = False
    if fb is not None:
        rep.analysed_body(fb)
        for g in eng_gd.guards(fb):
            if 'MIN_VAL' in g['text']:
                uses = g['cmp_true'] is not None
    lo = math.trunc(mv * ob) + off
    if not uses:
        rep.bad(rule, key, '', 'fastexp does not compare its argument with MIN_VAL before the bit trick')
    elif lo < 1:
        rep.bad(rule, key, '', 'MIN_VAL = %r lets trunc(x / ln 2) + %d become %d < 1: the shifted bits run into the sign bit and '
                               'fastexp returns huge negative values / -inf instead of ~0' % (mv, off, lo))
    elif mv > -40.0:
        rep.bad(rule, key, '', 'MIN_VAL = %r flushes values to 0 that are not negligible relative to the largest operand' % mv)
    else:
        rep.ok(rule, key, '', 'MIN_VAL = %r: smallest exponent field %d >= 1' % (mv, lo))


def run(facts, rep, ctx):
    gd8b(facts, rep)
    tb10(facts, rep)
    tb5(facts, rep)
    gd5(facts, rep)
    gd8(facts, rep)


_run_before_round4b = run


def run(facts, rep, ctx):
    """further rules added after the third seeding round (rules/round4.py)"""
    _run_before_round4b(facts, rep, ctx)
    from . import round4
    round4.tb5b(facts, rep)



_run_before_round5 = run


def run(facts, rep, ctx):
    """rules added after the fourth seeding round (rules/round5.py)"""
    _run_before_round5(facts, rep, ctx)
    from . import round5
    round5.zr1(facts, rep)
    round5.cs1(facts, rep)


_run_before_round6 = run


def run(facts, rep, ctx):
    """rules added after the fifth seeding round (rules/round6.py)"""
    _run_before_round6(facts, rep, ctx)
    from . import round6
    round6.tb5b(facts, rep)


_run_before_round7 = run


def run(facts, rep, ctx):
    """rules added in the sixth seeding round (rules/round7.py)"""
    _run_before_round7(facts, rep, ctx)
    from . import round7
    round7.bp1(facts, rep)
