"""C04 BWT / Occ — SB-10: writer/reader agreement of the sampled occurrence table (Occ::new vs Occ::get), incl. the
look-ahead branch for k > 64, compared as polynomials over (r, k, r / k); GD-9: bwt() wraps around only at text
position 0."""
import re
from . import eng_gd
from .mirlib import call_info, strip, strip_casts, fmt, walk
from .poly import poly, pstr

LEVEL = 'other'
OCC = 'data_structures::bwt::Occ'


def occ_atom(b):
    r = b.local_name(3)

    def atom(e):
        t = fmt(e)
        t = t.replace('self.k', 'k')
        if e[0] == 'bin' and e[1] == 'Div':
            a, c = fmt(strip_casts(e[2])), fmt(strip_casts(e[3])).replace('self.k', 'k')
            if c == 'k' and a == r:
                return 'q'
        if t == r:
            return 'r'
        if t == 'k':
            return 'k'
        return t
    return atom


def range_args(b, e):
    """(start expr, inclusive end expr) of the range inside an Index::index(bwt, range) expression; an exclusive
    Range {start, end} is converted to the inclusive end `end - 1`"""
    for x in walk(e):
        if isinstance(x, tuple) and x[0] == 'call' and x[1].endswith('RangeInclusive::<Idx>::new') and len(x[2]) == 2:
            return x[2]
        if isinstance(x, tuple) and x[0] == 'agg' and x[2].endswith('ops::Range::Range') and len(x[3]) == 2:
            return (x[3][0], ('bin', 'Sub', x[3][1], ('const', 1, 'usize', None)))
    return None


def run(facts, rep, ctx):
    rule = 'SB-10'
    rep.rule(rule, 'writer/reader agreement of the sampled Occ table: Occ::new pushes a checkpoint for row i exactly when '
                   'i % k == 0, after counting bwt[i]; Occ::get reads checkpoint r / k, counts bwt over (q*k, r] and adds, '
                   'and in the k > 64 look-ahead branch counts bwt over (r, (q+1)*k] and subtracts from checkpoint q + 1 - '
                   'compared as polynomials in r, k and q = r / k, so algebraically equivalent rewrites are accepted')
    w = facts.method(OCC, 'new')
    g = facts.method(OCC, 'get')
    if g is not None:
        # private helpers of the reader (e.g. the look-ahead branch as its own function) are analysed in place
        from . import inline
        g = inline.inlined(facts, g, lambda pth: pth.rsplit('::', 1)[-1] in ('new', 'get'))
    if w is None or g is None:
        rep.missing(rule, OCC + '::{new,get}', 'not found')
        return
    rep.analysed_body(w)
    rep.analysed_body(g)
    # ---- writer
    key = 'Occ::new|checkpoint-rows'
    wg = []
    for gd in eng_gd.guards(w):
        e = strip_casts(gd['expr'])
        if e[0] == 'bin' and e[1] == 'Eq':
            for a, c in ((e[2], e[3]), (e[3], e[2])):
                a, c = strip_casts(a), strip_casts(c)
                if a[0] == 'bin' and a[1] == 'Rem' and c[0] == 'const' and c[1] == 0:
                    wg.append((gd, a))
    lit = None
    for bb in w.reachable(0):
        for s in w.stmts(bb):
            if s['k'] == 'assign' and s['r']['k'] == 'agg' and s['r'].get('adt') == OCC:
                lit = {f: strip_casts(w.expr_operand(o, inline_user=True)) for f, o in zip(s['r']['fields'], s['r']['ops'])}
    pushes = [bb for bb, t in w.calls() if call_info(t) and call_info(t)['fn'].endswith('Vec::<T, A>::push')
              and w.loop_depth(bb) >= 1]
    incs = []
    for bb in w.reachable(0):
        for s in w.stmts(bb):
            if s['k'] == 'assign' and s['r']['k'] == 'bin' and s['r']['op'].startswith('Add'):
                e = strip(w.expr_rvalue(s['r'], inline_user=False))
                if e[0] == 'bin' and strip_casts(e[3])[0] == 'const' and strip_casts(e[3])[1] == 1 and 'curr_occ' in fmt(e[2]) + str(
                        [w.local_name(x[1]) for x in walk(e[2]) if isinstance(x, tuple) and x[0] == 'local']):
                    incs.append(bb)
    ok = False
    why = ''
    if len(wg) == 1 and lit is not None and pushes:
        gd, rem = wg[0]
        kk = strip_casts(rem[3])
        if kk != lit.get('k'):
            why = 'the modulus of the checkpoint test (%s) is not the value stored in field k (%s)' % (fmt(kk), fmt(lit.get('k')))
        elif not all(w.edge_dominates((gd['bb'], gd['t']), p) for p in pushes):
            why = 'a checkpoint is pushed outside the edge i % k == 0'
        else:
            ok = True
    else:
        why = 'expected one `i %% k == 0` test, a struct literal and pushes (found %d tests, %d pushes)' % (len(wg), len(pushes))
    if ok:
        rep.ok(rule, key, w.loc(wg[0][0]['bb']), 'push iff i % k == 0, k stored in the struct')
    else:
        rep.bad(rule, key, '%s:%s' % (w.file, w.line), why)
    key = 'Occ::new|row-counted-before-checkpoint'
    if ok:
        gd = wg[0][0]
        # the increment of curr_occ[c] must precede the checkpoint test in the iteration: its block dominates the guard
        cnt = []
        for bb in w.reachable(0):
            for s in w.stmts(bb):
                if s['k'] == 'assign' and 'pj' in s['p'] and s['r']['k'] == 'bin' and s['r']['op'].startswith('Add') and \
                        (s['r']['b'].get('k') or {}).get('v') == 1:
                    # release profile: `*cell = Add(*cell, 1)` without the overflow tuple
                    cnt.append(bb)
                elif s['k'] == 'assign' and 'pj' in s['p'] and s['r']['k'] == 'use':
                    q = s['r']['o'].get('m') or s['r']['o'].get('c')
                    if q is not None and q.get('pj') and isinstance(q['pj'][-1], dict) and q['pj'][-1].get('f') == 0:
                        sd = w.single_def(q['l'])
                        if sd and sd[0] == 'stmt' and sd[3]['r']['k'] == 'bin' and sd[3]['r']['op'].startswith('Add'):
                            cnt.append(bb)
        if cnt and any(w.dominates(c, gd['bb']) for c in cnt):
            rep.ok(rule, key, w.loc(cnt[0]), 'curr_occ[c] += 1 dominates the checkpoint test: checkpoints are inclusive of row i')
        else:
            rep.bad(rule, key, w.loc(gd['bb']), 'the checkpoint is taken before bwt[i] is counted: Occ::get assumes inclusive checkpoints')
    # ---- reader
    atom = occ_atom(g)
    counts = []
    for bb, t in g.calls():
        info = call_info(t)
        if info and info['fn'].startswith('bytecount::count'):
            e = strip(g.expr_operand(t['args'][0], inline_user=True))
            ra = range_args(g, e)
            counts.append((bb, t, ra))
    key = 'Occ::get|count-sites'
    if len(counts) != 2 or any(c[2] is None for c in counts):
        rep.bad(rule, key, '%s:%s' % (g.file, g.line), 'expected two bytecount::count sites over ranges of the BWT (low and high '
                                                       'checkpoint), found %d with a recognisable range' % sum(1 for c in counts if c[2]))
        return
    rep.ok(rule, key, '%s:%s' % (g.file, g.line), '2 sites')
    # which one is subtracted from a checkpoint (high) and which is added (low)
    for bb, t, ra in counts:
        d = t['dest']['l']
        from .eng_ri import uses_of_locals
        role = None
        for (kind, ubb, x) in uses_of_locals(g).get(d, []):
            if kind == 'stmt':
                s = g.stmts(ubb)[x]
                if s['k'] == 'assign' and s['r']['k'] == 'bin':
                    op = s['r']['op'].replace('WithOverflow', '')
                    if op == 'Add':
                        role = ('low', s)
                    elif op == 'Sub':
                        b_op = s['r']['b'].get('c') or s['r']['b'].get('m')
                        role = ('high', s) if b_op is not None and b_op['l'] == d else ('?', s)
        ps, pe = poly(ra[0], atom), poly(ra[1], atom)
        if role is None:
            rep.bad(rule, 'Occ::get|count-use', g.loc(bb), 'the byte count is neither added to nor subtracted from a checkpoint')
            continue
        kind, s = role
        other = s['r']['b'] if kind == 'low' and (s['r']['a'].get('c') or s['r']['a'].get('m') or {}).get('l') == d else s['r']['a']
        if kind == 'low':
            oth = s['r']['a'] if ((s['r']['b'].get('c') or s['r']['b'].get('m') or {}).get('l') == d) else s['r']['b']
        else:
            oth = s['r']['a']
        ck = fmt(strip_casts(g.expr_operand(oth, inline_user=True))).replace('self.k', 'k')
        key = 'Occ::get|%s-checkpoint-range' % kind
        if kind == 'low':
            want_s, want_e = {('k', 'q'): 1, (): 1}, {('r',): 1}
            want_ck = 'q'
        else:
            want_s, want_e = {('r',): 1, (): 1}, {('k', 'q'): 1, ('k',): 1}
            want_ck = 'q+1'
        # checkpoint index used
        idxp = None
        for x in walk(strip(g.expr_operand(oth, inline_user=True))):
            if isinstance(x, tuple) and x[0] == 'call' and (x[3] or x[1]).endswith(('Index::index', '::get')) and len(x[2]) == 2 \
                    and idxp is None:
                idxp = poly(x[2][1], atom)
        want_idx = {('q',): 1} if kind == 'low' else {('q',): 1, (): 1}
        problems = []
        if ps != want_s:
            problems.append('range starts at %s, expected %s' % (pstr(ps), pstr(want_s)))
        if pe != want_e:
            problems.append('range ends at %s, expected %s' % (pstr(pe), pstr(want_e)))
        if idxp != want_idx:
            problems.append('combined with checkpoint %s, expected %s' % (pstr(idxp) if idxp is not None else ck, pstr(want_idx)))
        if problems:
            rep.bad(rule, key, g.loc(bb), '; '.join(problems) + ' (q = r / k)')
        else:
            rep.ok(rule, key, g.loc(bb), 'bwt[%s ..= %s] %s checkpoint %s' % (pstr(ps), pstr(pe), 'added to' if kind == 'low' else
                                                                               'subtracted from', pstr(want_idx)))
    # ---- bwt(): wrap-around only at position 0
    rule2 = 'GD-9'
    rep.rule(rule2, 'bwt(): bwt[r] = text[p - 1] on the edge p > 0 and text[n - 1] on the other edge (p = pos[r])')
    b = facts.body('data_structures::bwt::bwt')
    key = 'bwt|predecessor-with-wraparound'
    if b is None:
        rep.missing(rule2, key, 'not found')
        return
    # the element expression lives in bwt() itself (indexed loop) or in a closure handed to an iterator adaptor (map/collect)
    good = False
    es = []
    home = b
    cands = []
    for fb in facts.family(b):
        rep.analysed_body(fb)
        e1 = eng_gd.edges_where(fb, lambda c: c[0] == 'Lt' and c[1] == '0')
        if e1:
            cands.append((fb, e1))
    if len(cands) == 1 and len(cands[0][1]) == 1:
        home, es = cands[0]
        vocab = {}
        if home.kind == 'Closure':
            from . import eng_po
            vocab = eng_po.closure_vocabulary(facts, home)[1]

        def is_len(atom):
            m = re.fullmatch(r'_1\.\^(\w+)', atom)
            if m and m.group(1) in vocab:
                atom = vocab[m.group(1)]
            return 'len' in atom
        gbb, pos_t, _c, zero_t = es[0]
        pidx = {}
        for bb in home.reachable(0):
            t = home.term(bb)
            if t['k'] == 'assert' and t['msg']['k'] == 'bounds':
                e = strip_casts(home.expr_operand(t['msg']['index'], inline_user=True))
                pidx[bb] = e
        a_pos = [poly(e) for bb, e in pidx.items() if home.edge_dominates((gbb, pos_t), bb)]
        a_zero = [poly(e) for bb, e in pidx.items() if home.edge_dominates((gbb, zero_t), bb)]
        good = len(a_pos) == 1 and len(a_zero) == 1 and a_pos[0].get((), 0) == -1 and len(a_pos[0]) == 2 and \
            a_zero[0].get((), 0) == -1 and any(is_len(m[0]) for m in a_zero[0] if m)
    if good:
        rep.ok(rule2, key, home.loc(es[0][0]), 'text[p - 1] if p > 0 else text[n - 1]')
    else:
        rep.bad(rule2, key, '%s:%s' % (b.file, b.line), 'the BWT symbol of row r is not the cyclic predecessor of suffix pos[r]')


    # ---- stability of the inverse permutation
    rule3 = 'EF-9'
    rep.rule(rule3, 'invert_bwt relies on bwtfind being the *stable* sort permutation of the BWT (equal symbols keep their row '
                    'order): bwtfind must be the counting sort over less[] and must not use an unstable sort')
    bf = facts.body('data_structures::bwt::bwtfind')
    key = 'bwtfind|stable-counting-sort'
    if bf is None:
        rep.missing(rule3, key, 'not found')
        return
    fam = [bf] + facts.closures_of(bf.path)
    for fb in fam:
        rep.analysed_body(fb)
    names = [call_info(t)['fn'] for fb in fam for _bb, t in fb.calls() if call_info(t)]
    unstable = [n for n in names if 'sort_unstable' in n or 'select_nth_unstable' in n]
    uses_less = any(n == 'data_structures::bwt::less' for n in names)
    if unstable:
        rep.bad(rule3, key, '%s:%s' % (bf.file, bf.line), 'bwtfind orders rows with %s: rows holding the same symbol may be permuted, '
                                                          'so invert_bwt walks the wrong cycle' % unstable[0].rsplit('::', 1)[-1])
    elif not uses_less and not any('sort' in n for n in names):
        rep.bad(rule3, key, '%s:%s' % (bf.file, bf.line), 'bwtfind neither counts with less[] nor sorts')
    else:
        rep.ok(rule3, key, '%s:%s' % (bf.file, bf.line), 'counting sort over less[] (stable)' if uses_less else 'stable sort')


_run_before_round2 = run


def run(facts, rep, ctx):
    """rules added after the second round of independent seeding (rules/round2.py)"""
    _run_before_round2(facts, rep, ctx)
    from . import round2
    round2.ps1(facts, rep)


_run_before_round4 = run


def run(facts, rep, ctx):
    """rules added after the third seeding round (rules/round4.py)"""
    _run_before_round4(facts, rep, ctx)
    from . import round4
    if ctx.get('flavor') != 'nochk':
        round4.po9(facts, rep)

