"""SR: symbolic save/restore analysis.

Abstract values flowed forward through the CFG of one wrapper body:
   ('entry', path)   the value field `path` of *self had on entry
   ('const', v)      an integer constant
   ('arr', (v0..))   a local array aggregate of abstract values
   ('mutref', path)  / ('ref', path)  a reference to a self field path
   ('ext', i)        (inside an inlined callee) the i-th by-value argument leaf of the caller
   TOP
Calls to loop-free bodies of the crate that receive exactly one self-derived reference are analysed in place (depth <= 3)
and their stores / return value are mapped back; every other call clobbers what the callee may write (effect summary).
Locations: locals, and field paths of *self (parameter 1).
At every Return each self field that the body stores to must hold ('entry', same path).
At designated calls the tracked fields must hold the constants of a mode table."""
from .mirlib import call_info
from .effects import path_related

TOP = ('top',)


def join(a, b):
    if a == b:
        return a
    return TOP


def join_state(s1, s2):
    if s1 is None:
        return dict(s2)
    if s2 is None:
        return dict(s1)
    out = {}
    for k in set(s1) | set(s2):
        if k in s1 and k in s2:
            out[k] = join(s1[k], s2[k])
        else:
            # a field absent on one side still holds its entry value there
            if k[0] == 'F':
                other = s1.get(k, s2.get(k))
                out[k] = join(other, ('entry', k[1]))
            else:
                out[k] = TOP
    return out


class SR:
    def __init__(self, body, facts, effects, self_local=1, depth=0, init=None):
        self.depth = depth
        self.init = init or {}
        self.inlined = []         # callee paths analysed in place
        self.sub_calls = []       # (line of the inlining call, callee fn, translated state) of calls made inside helpers
        self.body = body
        self.facts = facts
        self.eff = effects
        self.self_local = self_local
        self.stored = set()       # self field paths directly stored to in this body
        self.at_call = []         # (bb, callee, state snapshot)
        self.at_return = []       # (bb, state)

    # -- place helpers
    def self_path(self, place):
        """field path if place is (*self).a.b..., else None"""
        if place['l'] != self.self_local:
            return None
        pj = place.get('pj', [])
        if not pj or pj[0] != '*':
            return None
        path = []
        for el in pj[1:]:
            if isinstance(el, dict) and 'f' in el:
                path.append(el['n'])
            elif el == '*':
                path.append('*')
            elif isinstance(el, dict) and ('i' in el or 'ci' in el):
                path.append('[]')
            else:
                pass
        return tuple(path)

    def via_ref(self, st, place):
        """self field path of (*r).f.g when the local r holds a tracked reference to self state (`let s = &mut self.scoring;
        s.xclip_prefix = ..`), else None"""
        pj = place.get('pj', [])
        if place['l'] == self.self_local or not pj or pj[0] != '*':
            return None
        v = st.get(('L', place['l']), TOP)
        if v[0] not in ('mutref', 'ref'):
            return None
        path = list(v[1])
        for el in pj[1:]:
            if isinstance(el, dict) and 'f' in el:
                path.append(el['n'])
            else:
                return None
        return tuple(path)

    def read_field(self, st, path):
        best = None
        for k, v in st.items():
            if k[0] != 'F':
                continue
            p = k[1]
            if p == path:
                return v
            if path_related(p, path):
                best = TOP
        if best is not None:
            return best
        return ('entry', path)

    def read_place(self, st, place):
        sp = self.self_path(place)
        if sp is None:
            sp = self.via_ref(st, place)
        if sp is not None:
            return self.read_field(st, sp)
        pj = place.get('pj', [])
        if not pj:
            return st.get(('L', place['l']), TOP)
        # local array element with a constant index
        if len(pj) == 1 and isinstance(pj[0], dict):
            base = st.get(('L', place['l']), TOP)
            idx = None
            if 'i' in pj[0]:
                iv = st.get(('L', pj[0]['i']), TOP)
                if iv[0] == 'const':
                    idx = iv[1]
            elif 'ci' in pj[0] and not pj[0]['fe']:
                idx = pj[0]['ci']
            if base[0] == 'arr' and idx is not None and 0 <= idx < len(base[1]):
                return base[1][idx]
        return TOP

    def operand(self, st, o):
        if 'c' in o:
            return self.read_place(st, o['c'])
        if 'm' in o:
            return self.read_place(st, o['m'])
        if 'k' in o:
            v = o['k'].get('v')
            if isinstance(v, int):
                return ('const', v)
        return TOP

    def rvalue(self, st, r):
        k = r['k']
        if k == 'use':
            return self.operand(st, r['o'])
        if k == 'agg' and r['ak'] == 'array':
            return ('arr', tuple(self.operand(st, o) for o in r['ops']))
        if k == 'repeat':
            try:
                n = int(r.get('n'))
            except (TypeError, ValueError):
                n = None
            if n is not None and 0 < n <= 16:
                return ('arr', tuple(self.operand(st, r['o']) for _ in range(n)))
        if k == 'ref':
            sp = self.self_path(r['p'])
            if sp is None:
                sp = self.via_ref(st, r['p'])
            if sp is not None:
                return ('mutref' if r['bk'] == 'mut' else 'ref', sp)
            pl = r['p']
            if pl['l'] == self.self_local and pl.get('pj') == ['*']:
                return ('mutref' if r['bk'] == 'mut' else 'ref', ())
            # reborrow of a reference held in a local: &mut *_10
            if pl.get('pj') == ['*']:
                v = st.get(('L', pl['l']), TOP)
                if v[0] in ('mutref', 'ref'):
                    return v if r['bk'] == 'mut' else ('ref', v[1])
        if k == 'cast':
            v = self.operand(st, r['o'])
            if v[0] in ('mutref', 'ref'):
                return v
        return TOP

    def clobber(self, st, path):
        for k in list(st):
            if k[0] == 'F' and path_related(k[1], path):
                st[k] = TOP
        st[('F', path)] = TOP

    def write_place(self, st, place, val):
        sp = self.self_path(place)
        if sp is None:
            vr = self.via_ref(st, place)
            if vr is not None and st.get(('L', place['l']), TOP)[0] == 'mutref':
                sp = vr
        if sp is not None:
            self.stored.add(sp)
            for k in list(st):
                if k[0] == 'F' and k[1] != sp and path_related(k[1], sp):
                    st[k] = TOP
            st[('F', sp)] = val
            return
        pj = place.get('pj', [])
        if not pj:
            st[('L', place['l'])] = val
            return
        if pj[0] == '*':
            # store through a reference held in a local
            v = st.get(('L', place['l']), TOP)
            if v[0] == 'mutref':
                self.clobber(st, v[1])
            elif v == TOP and self.body.locals[place['l']]['ty'].startswith('&mut'):
                # unknown mutable reference: could it alias self? only if derived from self, which we track; a
                # TOP reference means we lost track -> be conservative
                for k in list(st):
                    if k[0] == 'F':
                        st[k] = TOP
                self.lost = True
            return
        # partial store into a local aggregate
        st[('L', place['l'])] = TOP

    def transfer_stmt(self, st, s):
        if s['k'] == 'assign':
            v = self.rvalue(st, s['r'])
            # a &mut to self state escaping into an aggregate/closure: clobber now (conservative)
            r = s['r']
            if r['k'] == 'agg':
                for o in r['ops']:
                    ov = self.operand(st, o)
                    if ov[0] == 'mutref':
                        self.clobber(st, ov[1])
            self.write_place(st, s['p'], v)
        elif s['k'] == 'setdisc':
            self.write_place(st, s['p'], TOP)

    def transfer_call(self, st, bb, t):
        info = call_info(t)
        callee = None
        if info is not None:
            callee = self.facts.bodies.get(info.get('res') or info.get('fn'))
        self.at_call.append((bb, info['fn'] if info else None, dict(st)))
        if callee is not None and self.try_inline(st, t, callee):
            return
        if info is not None and self.std_mem(st, t, info['fn']):
            return
        for ai, a in enumerate(t['args']):
            v = self.operand(st, a)
            if v[0] == 'mutref':
                sub = None
                if callee is not None:
                    w = self.eff.writes(callee)
                    if w is not None:
                        sub = {p for (_b, _i, (k, r, p), _h) in w if k == 'param' and r == ai + 1}
                if sub is None:
                    self.clobber(st, v[1])
                else:
                    for p in sub:
                        self.clobber(st, v[1] + tuple(p))
            elif v == TOP:
                pl = a.get('c') or a.get('m')
                if pl is not None:
                    ty = pl.get('ty') or self.body.locals[pl['l']]['ty']
                    if ty.startswith('&mut') or '{closure' in ty:
                        # lost track of a mutable reference / closure environment: any self field may change
                        pts = self.eff.operand_pointee(self.body, a)
                        if any(k == 'param' and r == self.self_local for (k, r, p) in pts) or \
                                any(k == 'unknown' for (k, r, p) in pts):
                            for (k, r, p) in pts:
                                if k == 'param' and r == self.self_local:
                                    self.clobber(st, tuple(x for x in p if x != '()'))
                                elif k == 'unknown':
                                    for kk in list(st):
                                        if kk[0] == 'F':
                                            st[kk] = TOP
        self.write_place(st, t['dest'], TOP)

    def std_mem(self, st, t, fn):
        """std::mem::replace(&mut self.f, v) / take(&mut self.f) / swap(&mut self.f, &mut self.g) on tracked self fields:
        exactly the documented value movement (old value out, new value in)"""
        if fn not in ('std::mem::replace', 'core::mem::replace', 'std::mem::take', 'core::mem::take', 'std::mem::swap', 'core::mem::swap'):
            return False
        vals = [self.operand(st, a) for a in t['args']]
        if not vals or vals[0][0] != 'mutref' or '[]' in vals[0][1] or '*' in vals[0][1]:
            return False
        name = fn.rsplit('::', 1)[-1]
        old = self.read_field(st, vals[0][1])
        if name == 'replace' and len(vals) == 2 and vals[1][0] not in ('mutref', 'ref'):
            self.write_field(st, vals[0][1], vals[1])
            self.write_place(st, t['dest'], old)
            return True
        if name == 'take' and len(vals) == 1:
            self.write_field(st, vals[0][1], TOP)
            self.write_place(st, t['dest'], old)
            return True
        if name == 'swap' and len(vals) == 2 and vals[1][0] == 'mutref' and '[]' not in vals[1][1] and '*' not in vals[1][1] \
                and not path_related(vals[0][1], vals[1][1]):
            other = self.read_field(st, vals[1][1])
            self.write_field(st, vals[0][1], other)
            self.write_field(st, vals[1][1], old)
            self.write_place(st, t['dest'], TOP)
            return True
        return False

    def write_field(self, st, sp, val):
        self.stored.add(sp)
        for k in list(st):
            if k[0] == 'F' and k[1] != sp and path_related(k[1], sp):
                st[k] = TOP
        st[('F', sp)] = val

    def try_inline(self, st, t, callee):
        """analyse a small loop-free callee in place; returns False when the call must be handled conservatively"""
        if self.depth >= 3 or callee.natural_loops() or len(callee.blocks) > 60:
            return False
        vals = [self.operand(st, a) for a in t['args']]
        refs = [(i, v) for i, v in enumerate(vals) if v[0] in ('mutref', 'ref')]
        if len(refs) != 1:
            return False
        for a, v in zip(t['args'], vals):
            if v == TOP:
                pl = a.get('c') or a.get('m')
                if pl is not None:
                    ty = pl.get('ty') or self.body.locals[pl['l']]['ty']
                    if ty.startswith('&mut') or '{closure' in ty:
                        return False
        k, (_kind, P) = refs[0]
        ext = []

        def to_ext(v):
            if v[0] == 'const' or v == TOP:
                return v
            if v[0] == 'arr':
                return ('arr', tuple(to_ext(x) for x in v[1]))
            ext.append(v)
            return ('ext', len(ext) - 1)

        init = {}
        for i, v in enumerate(vals):
            if i != k:
                init[('L', i + 1)] = to_ext(v)
        sub = SR(callee, self.facts, self.eff, self_local=k + 1, depth=self.depth + 1, init=init).run()
        if sub.lost or not sub.at_return:
            return False
        rs = None
        for _bb, s2 in sub.at_return:
            rs = join_state(rs, s2)
        snapshot = dict(st)

        def back(v):
            if v[0] == 'ext':
                return ext[v[1]]
            if v[0] == 'entry':
                return self.read_field(snapshot, tuple(P) + tuple(v[1]))
            if v[0] == 'arr':
                return ('arr', tuple(back(x) for x in v[1]))
            if v[0] in ('mutref', 'ref'):
                return (v[0], tuple(P) + tuple(v[1]))
            return v

        # designated calls made inside the helper are call sites of this wrapper too: translate their states
        for (cbb, cfn, cst) in list(sub.at_call) + [(None, f_, s_) for (_l, f_, s_) in sub.sub_calls]:
            tst = dict(snapshot)
            for key, v in cst.items():
                if key[0] == 'F':
                    tpath = tuple(P) + tuple(key[1])
                    for kk in list(tst):
                        if kk[0] == 'F' and kk[1] != tpath and path_related(kk[1], tpath):
                            tst[kk] = TOP
                    tst[('F', tpath)] = back(v)
            self.sub_calls.append((t.get('line'), cfn, tst))
        writes = []
        for key, v in rs.items():
            if key[0] == 'F':
                writes.append((tuple(P) + tuple(key[1]), back(v), key[1] in sub.stored))
        ret = back(rs.get(('L', 0), TOP))
        for path, v, direct in sorted(writes, key=lambda w: (len(w[0]), w[0])):
            if direct:
                self.stored.add(path)
            for kk in list(st):
                if kk[0] == 'F' and kk[1] != path and path_related(kk[1], path):
                    st[kk] = TOP
            st[('F', path)] = v
        self.write_place(st, t['dest'], ret)
        self.inlined.append(callee.path)
        self.inlined.extend(sub.inlined)
        return True

    def run(self):
        body = self.body
        self.lost = False
        inst = {0: dict(self.init)}
        work = [0]
        iters = 0
        while work:
            bb = work.pop()
            iters += 1
            if iters > 20000:
                raise RuntimeError('SR did not converge')
            st = dict(inst[bb])
            for s in body.stmts(bb):
                self.transfer_stmt(st, s)
            t = body.term(bb)
            if t['k'] == 'call':
                self.transfer_call(st, bb, t)
            elif t['k'] == 'return':
                self.at_return.append((bb, st))
            elif t['k'] == 'drop':
                pass
            for s2 in body.succ[bb]:
                old = inst.get(s2)
                new = join_state(old, st)
                if old is None or new != old:
                    inst[s2] = new
                    if s2 not in work:
                        work.append(s2)
        # at_call / at_return may contain stale snapshots from early iterations: keep the last per bb
        last_call = {}
        for bb, fn, st in self.at_call:
            last_call[bb] = (bb, fn, st)
        self.at_call = list(last_call.values())
        lastsub = {}
        for ln, fn, st in self.sub_calls:
            lastsub[(ln, fn)] = (ln, fn, st)
        self.sub_calls = list(lastsub.values())
        last_ret = {}
        for bb, st in self.at_return:
            last_ret[bb] = (bb, st)
        self.at_return = list(last_ret.values())
        return self


def fmt_val(v):
    if v[0] == 'entry':
        return 'entry(self.%s)' % '.'.join(v[1])
    if v[0] == 'const':
        return 'const %d' % v[1]
    if v[0] == 'top':
        return 'unknown'
    return str(v)


def check_wrapper(rep, rule, body, facts, eff, callee_pred, mode_table, restore_prefix=()):
    """mode_table: dict field-leaf-name -> expected int at the designated call.
    Returns number of restore obligations checked."""
    sr = SR(body, facts, eff).run()
    rep.analysed_body(body)
    n = 0
    where = '%s:%s %s' % (body.file, body.line, body.path)
    if not sr.at_return:
        rep.missing(rule, body.path + ':return', 'no normal return in wrapper')
    stored = sorted(p for p in sr.stored if tuple(p[:len(restore_prefix)]) == tuple(restore_prefix))
    for path in stored:
        for bb, st in sr.at_return:
            v = sr.read_field(st, path)
            key = '%s|restore|self.%s' % (body.path, '.'.join(path))
            if v == ('entry', path):
                rep.ok(rule, key, body.loc(bb), 'holds entry value at return')
            else:
                rep.bad(rule, key, where,
                        'field self.%s is overwritten by this wrapper but at the return in bb%d it holds %s instead '
                        'of its entry value' % ('.'.join(path), bb, fmt_val(v)))
            n += 1
    # mode table at the designated call
    sites = [(bb, fn, st) for (bb, fn, st) in sr.at_call if fn and callee_pred(fn)]
    sites += [(None, fn, st) for (_ln, fn, st) in sr.sub_calls if fn and callee_pred(fn)]
    if not sites:
        rep.missing(rule, body.path + ':core-call', 'no call to the core alignment routine found')
    for bb, fn, st in sites:
        for leaf, want in mode_table.items():
            cands = [p for p in stored if p and p[-1] == leaf]
            key = '%s|mode|%s' % (body.path, leaf)
            if not cands:
                rep.bad(rule, key, where, 'mode table: field %s is never set by the wrapper (expected %d at the call '
                                          'to %s)' % (leaf, want, fn))
                continue
            for p in cands:
                v = sr.read_field(st, p)
                where_c = body.loc(bb) if bb is not None else where
                if v == ('const', want):
                    rep.ok(rule, key, where_c, 'const %d at call to %s' % (want, fn))
                else:
                    rep.bad(rule, key, where_c,
                            'mode table: self.%s holds %s at the call to %s, expected %d' % (
                                '.'.join(p), fmt_val(v), fn, want))
    return n, len(sites), stored
