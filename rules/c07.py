"""C07 interval trees / annotation map.
TS-2 augmentation maintenance (typestate dirty/clean per node object), TS-3 balance (repair post-dominates, rotation
guard), SB-1 iterator sibling agreement + intersect table, TS-4 array-backed `indexed` typestate, SG-1 no &mut to keys
escapes, SB-8 annotation map insert/find agree on key and range."""
import re
from . import effects, eng_gd
from .mirlib import call_info, strip, strip_casts, fmt, norm_cmp, walk, emap

LEVEL = 'proof'
AVL = 'data_structures::interval_tree::avl_interval_tree'
NODE = AVL + '::Node::<N, D>::'
ABT = 'data_structures::interval_tree::array_backed_interval_tree::ArrayBackedIntervalTree'
LINKS = ('left', 'right')
CLEANERS = ('repair', 'rotate_left', 'rotate_right', 'insert')


# --------------------------------------------------------------------------- TS-2

class NodeTS:
    """may-dirty analysis: state = frozenset of (object, 'height'|'max') flags that are stale"""

    def __init__(self, facts, body, eff):
        self.facts = facts
        self.b = body
        self.eff = eff
        self.violations = []
        self.events = 0

    def is_box_node(self, l):
        ty = self.b.locals[l]['ty']
        return ty.startswith('std::boxed::Box<') and 'avl_interval_tree::Node<' in ty

    def objs(self, origins):
        out = set()
        for (k, r, p) in origins:
            path = tuple(x for x in p if x not in ('*', '()', '0', '[]'))
            if k == 'param' and r == 1:
                out.add(('self', path))
            elif k in ('owned', 'local') and self.is_box_node(r):
                out.add((('box', r), path))
        return out

    def dirty_for_path(self, path):
        """which flags of the owner become stale when memory at `path` below it is written"""
        if not path:
            return ()
        f = path[0]
        if f in LINKS:
            return ('height', 'max')
        if f == 'interval':
            return ('max',) if len(path) >= 1 else ()
        if f in ('max',):
            return ('max',)
        if f in ('height',):
            return ('height',)
        return ()

    def transfer(self, bb, st, record):
        b = self.b
        st = set(st)

        def dirty(o, flags):
            for fl in flags:
                st.add((o, fl))

        def clean(o, flags):
            for fl in flags:
                st.discard((o, fl))

        for i, s in enumerate(b.stmts(bb)):
            if s['k'] != 'assign':
                continue
            # move-out obligation for boxed nodes
            r = s['r']
            ops = []
            if r['k'] == 'use':
                ops = [r['o']]
            elif r['k'] == 'agg':
                ops = r['ops']
            for o in ops:
                pl = o.get('m')
                if pl is not None and 'pj' not in pl and self.is_box_node(pl['l']):
                    ob = ('box', pl['l'])
                    stale = sorted(fl for (oo, fl) in st if oo == ob)
                    if stale and record:
                        self.violations.append((bb, 'node held in %s is moved into the tree at %s while its %s is stale '
                                                    '(no update_%s after the last structural change)' % (
                                                        b.local_name(pl['l']) or '_%d' % pl['l'], b.loc(bb, i),
                                                        '/'.join(stale), '/update_'.join(stale)),
                                                'moved-stale:' + '/'.join(stale)))
                    # the new holder inherits the state
                    if 'pj' not in s['p'] and self.is_box_node(s['p']['l']):
                        nb = ('box', s['p']['l'])
                        for fl in ('height', 'max'):
                            st.discard((nb, fl))
                        for fl in stale:
                            st.add((nb, fl))
            if 'pj' in s['p']:
                for (o, path) in self.objs(self.eff.place_origins(b, s['p'])):
                    fl = self.dirty_for_path(path)
                    if fl:
                        self.events += 1
                        dirty(o, fl)
        t = b.term(bb)
        if t['k'] == 'call':
            info = call_info(t)
            fn = info['fn'] if info else ''
            nm = fn.rsplit('::', 1)[-1]
            is_node_fn = fn.startswith(AVL + '::Node::') or fn.startswith(AVL + '::swap_interval_data')
            for ai, a in enumerate(t['args']):
                pl = a.get('m') or a.get('c')
                if pl is None:
                    continue
                ty = pl.get('ty') or b.locals[pl['l']]['ty']
                if not ty.startswith('&mut'):
                    continue
                for (o, path) in self.objs(self.eff.operand_pointee(b, a)):
                    self.events += 1
                    if is_node_fn and not path and ai == 0 and nm == 'update_height':
                        clean(o, ('height',))
                    elif is_node_fn and not path and ai == 0 and nm == 'update_max':
                        clean(o, ('max',))
                    elif is_node_fn and not path and ai == 0 and nm in CLEANERS:
                        clean(o, ('height', 'max'))
                    elif is_node_fn and not path and nm == 'swap_interval_data':
                        dirty(o, ('max',))
                    elif is_node_fn and path:
                        # a structural operation on a descendant makes the ancestor's augmentation stale
                        if path[0] in LINKS:
                            dirty(o, ('height', 'max'))
                    else:
                        fl = self.dirty_for_path(path)
                        if fl:
                            dirty(o, fl)
        return frozenset(st)

    def run(self, initial):
        b = self.b
        inst = {0: frozenset(initial)}
        work = [0]
        while work:
            bb = work.pop()
            out = self.transfer(bb, inst[bb], False)
            for s in b.succ[bb]:
                old = inst.get(s)
                new = out if old is None else (old | out)
                if old is None or new != old:
                    inst[s] = new
                    if s not in work:
                        work.append(s)
        self.violations = []
        self.events = 0
        ret_stale = set()
        for bb in sorted(inst):
            out = self.transfer(bb, inst[bb], True)
            if b.term(bb)['k'] == 'return':
                ret_stale |= {fl for (o, fl) in out if o == 'self'}
        return ret_stale


def ts2(facts, rep):
    rule = 'TS-2'
    rep.rule(rule, 'augmentation maintenance: in Node::{insert,repair,rotate_left,rotate_right} a node object (self or a '
                   'local Box<Node>) becomes stale on any store to / &mut escape of its left/right/interval (or a '
                   'structural call on a descendant) and is fresh again only after update_height and update_max (or a '
                   'callee verified by the same rule); self must be fresh at every return and a local node fresh when '
                   'it is moved into the tree')
    eff = effects.Effects(facts)
    n = 0
    refresh = 0
    for nm in ('insert', 'repair', 'rotate_left', 'rotate_right'):
        b = facts.body(NODE + nm)
        if b is None:
            rep.missing(rule, NODE + nm, 'body not found')
            continue
        n += 1
        rep.analysed_body(b)
        for bb, t in b.calls():
            info = call_info(t)
            if info and info['fn'].rsplit('::', 1)[-1] in ('update_height', 'update_max') and bb in b.reachable(0):
                refresh += 1
        ts = NodeTS(facts, b, eff)
        stale = ts.run({('self', 'height'), ('self', 'max')})
        key = 'Node::%s|self-fresh-at-return' % nm
        if stale:
            rep.bad(rule, key, '%s:%s' % (b.file, b.line),
                    'on some path self.%s is stale when %s returns: update_%s is not called after the last change of '
                    'left/right/interval' % ('/'.join(sorted(stale)), nm, '/update_'.join(sorted(stale))))
        else:
            rep.ok(rule, key, '%s:%s' % (b.file, b.line), 'height and max refreshed after the last structural change on '
                                                          'every path (%d events)' % ts.events)
        key = 'Node::%s|moved-nodes-fresh' % nm
        if ts.violations:
            for bb, msg, k in ts.violations[:3]:
                rep.bad(rule, key, b.loc(bb), msg)
        else:
            rep.ok(rule, key, '%s:%s' % (b.file, b.line), 'no stale node is linked into the tree')
    rep.floor(rule, 'maintenance bodies', n, 4)
    rep.floor(rule, 'update_height/update_max call sites', refresh, 10)
    # the refresh functions must look at both children (and the own interval for max)
    for nm, need in (('update_height', {'left', 'right'}), ('update_max', {'left', 'right', 'interval'})):
        b = facts.body(NODE + nm)
        if b is None:
            rep.missing(rule, NODE + nm, 'body not found')
            continue
        rep.analysed_body(b)
        seen = set()
        stores = set()
        for bb in b.reachable(0):
            for pl in eng_gd.place_mentions(b, bb):
                sp = eng_gd.self_field_path(pl)
                if sp:
                    seen.add(sp[0])
            for s in b.stmts(bb):
                if s['k'] == 'assign':
                    sp = eng_gd.self_field_path(s['p'])
                    if sp:
                        stores.add(sp[0])
        tgt = nm.split('_')[1]
        key = 'Node::%s|consults-both-children' % nm
        miss = need - seen
        if miss:
            rep.bad(rule, key, '%s:%s' % (b.file, b.line), '%s never looks at self.%s: the augmentation of that subtree is '
                                                           'ignored' % (nm, '/'.join(sorted(miss))))
        elif tgt not in stores:
            rep.bad(rule, key, '%s:%s' % (b.file, b.line), '%s does not store self.%s' % (nm, tgt))
        else:
            rep.ok(rule, key, '%s:%s' % (b.file, b.line), 'reads %s, stores %s' % (sorted(need), tgt))


# --------------------------------------------------------------------------- TS-3

def ts3(facts, rep):
    rule = 'TS-3'
    rep.rule(rule, 'balance: in Node::insert every path to the return passes repair(self) after the recursive insert / '
                   'new child; in repair the guard is |left_h - right_h| <= 1 and on its false edge every path to the '
                   'return passes a rotation of self; IntervalTree::insert reaches Node::insert or creates the root')
    ins = facts.body(NODE + 'insert')
    if ins is None:
        rep.missing(rule, NODE + 'insert', 'not found')
    else:
        rep.analysed_body(ins)
        reps = [bb for bb, t in ins.calls() if call_info(t) and call_info(t)['fn'] == NODE + 'repair']
        key = 'Node::insert|repair-on-every-path'
        reach = ins.reachable(0, removed_blocks=set(reps))
        rets = [x for x in ins.return_blocks() if x in reach]
        if not reps or rets:
            rep.bad(rule, key, '%s:%s' % (ins.file, ins.line), 'a path through insert returns without calling repair(self): the '
                                                               'tree can lose its height balance')
        else:
            # and repair comes after the child insert / store: no child mutation after the last repair
            after = set()
            for r in reps:
                after |= eng_gd.region(ins, r) - {r}
            late = [bb for bb, t in ins.calls() if bb in after and call_info(t) and call_info(t)['fn'] == NODE + 'insert']
            if late:
                rep.bad(rule, key, ins.loc(late[0]), 'recursive insert happens after repair(self)')
            else:
                rep.ok(rule, key, ins.loc(reps[0]), 'repair(self) post-dominates the child update')
    rp = facts.body(NODE + 'repair')
    if rp is None:
        rep.missing(rule, NODE + 'repair', 'not found')
    else:
        rep.analysed_body(rp)
        gs = []
        for g in eng_gd.guards(rp):
            c = g['cmp_true']
            if c and 'abs(' in c[1] + c[2]:
                gs.append(g)
        key = 'Node::repair|balance-guard'
        if len(gs) != 1:
            rep.bad(rule, key, '%s:%s' % (rp.file, rp.line), 'expected one guard on |left_h - right_h|, found %d' % len(gs))
        else:
            g = gs[0]
            c = g['cmp_true']
            ok = c[0] == 'Le' and c[2] == '1' and re.search(r'abs\(Sub\w*\(', c[1]) is not None
            if not ok:
                rep.bad(rule, key, rp.loc(g['bb']), 'balanced-case guard is `%s %s %s`, expected |left_h - right_h| <= 1 (AVL '
                                                    'invariant)' % (c[1], c[0], c[2]))
            else:
                rots = [bb for bb, t in rp.calls() if call_info(t) and call_info(t)['fn'] in (
                    NODE + 'rotate_left', NODE + 'rotate_right')
                    and any(o == ('self', ()) for o in NodeTS(facts, rp, effects.Effects(facts)).objs(
                        effects.Effects(facts).operand_pointee(rp, t['args'][0])))]
                reg = eng_gd.region(rp, g['f'], stop=set(rots))
                escaped = [x for x in reg if rp.term(x)['k'] == 'return' and x not in rots]
                if escaped or not rots:
                    rep.bad(rule, key, rp.loc(g['bb']), 'an unbalanced node can leave repair without a rotation of self')
                else:
                    rep.ok(rule, key, rp.loc(g['bb']), '|left_h - right_h| <= 1 else rotate (%d rotation sites on self)' % len(rots))
    ti = facts.method(AVL + '::IntervalTree', 'insert')
    key = 'IntervalTree::insert|delegates-or-creates-root'
    if ti is None:
        rep.missing(rule, key, 'not found')
    else:
        rep.analysed_body(ti)
        calls = {call_info(t)['fn'] for _bb, t in ti.calls() if call_info(t)}
        if NODE + 'insert' in calls and NODE + 'new' in calls:
            rep.ok(rule, key, '%s:%s' % (ti.file, ti.line), 'Node::insert on an existing root, Node::new otherwise')
        else:
            rep.bad(rule, key, '%s:%s' % (ti.file, ti.line), 'IntervalTree::insert does not reach Node::insert / Node::new')


# --------------------------------------------------------------------------- SB-1

def arg_names(b, txt):
    for l in range(1, b.arg_count + 1):
        nm = b.local_name(l)
        if nm:
            txt = re.sub(r'\b%s\b' % re.escape(nm), 'a%d' % l, txt)
    return txt


_UNWRAPPERS = ('::unwrap', '::expect', '::unwrap_unchecked', 'Try>::branch', '::deref', '::deref_mut', '::as_ref',
               '::as_mut', '::borrow', '::borrow_mut')


def _candidate_form(b, e):
    """rewrite every sub-expression that denotes the entry popped from self.nodes (or a non-self local holding a
    node) to the atom `node`; drop Deref::deref / reference / pointer-coercion wrappers"""
    def is_node_ty(ty):
        return 'Node<' in ty

    def f(x):
        k = x[0]
        if k in ('deref', 'ref'):
            return x[1]
        if k == 'cast' and (x[3].startswith('PointerCoercion') or x[3] in ('PtrToPtr', 'Subtype')):
            return x[1]
        if k == 'call':
            fn = x[1]
            if fn.endswith('Vec::<T, A>::pop') or re.search(r'Vec(::<[^>]*>)?::pop$', re.sub(r'<[^<>]*>', '', fn)):
                a = x[2][0] if x[2] else None
                if a is not None and fmt(a).endswith('self.nodes'):
                    return ('local', -1, 'node?')       # Option<node>
            if any(fn.endswith(u) or (u + '::') in fn or fn.split('::<')[0].endswith(u) for u in _UNWRAPPERS) \
                    and len(x[2]) >= 1:
                a = x[2][0]
                if a == ('local', -1, 'node?') and not fn.endswith(('deref', 'deref_mut')):
                    return ('local', -1, 'node?') if 'branch' in fn else ('local', -1, 'node')
                if fn.endswith(('::deref', '::deref_mut', '::as_ref', '::as_mut', '::borrow', '::borrow_mut')) or \
                        'Deref>::deref' in fn or 'DerefMut>::deref_mut' in fn:
                    return a
        if k == 'field' and x[2] == '0' and isinstance(x[1], tuple) and x[1][0] == 'downcast' and \
                x[1][1] == ('local', -1, 'node?') and x[1][2] in ('Some', 'Continue'):
            return ('local', -1, 'node')
        if k == 'local' and x[1] > 0 and x[2] != 'self' and is_node_ty(b.locals[x[1]]['ty']) and \
                'Option<' not in b.locals[x[1]]['ty'].split('Node<')[0]:
            return ('local', -1, 'node')
        return x

    return emap(e, f)


def sb1(facts, rep):
    rule = 'SB-1'
    rep.rule(rule, 'sibling agreement: IntervalTreeIterator::next and IntervalTreeIteratorMut::next prune with the same '
                   'set of comparisons (query.start < node.max, query.end > node.interval.start, intersect) and intersect '
                   'is exactly the conjunction of the four half-open comparisons')
    its = []
    for ty in ('IntervalTreeIterator', 'IntervalTreeIteratorMut'):
        b = facts.method(AVL + '::' + ty, 'next', 'Iterator')
        if b is None:
            rep.missing(rule, ty + '::next', 'not found')
            continue
        rep.analysed_body(b)
        sig = []
        for g in eng_gd.guards(b):
            c = g['cmp_true']
            if c:
                sig.append('%s %s %s' % (c[1], c[0], c[2]))
            else:
                e = strip(g['expr'])
                if e[0] == 'call':
                    sig.append('call ' + e[1].rsplit('::', 1)[-1] + '(' + ', '.join(fmt(x) for x in e[2]) + ')')
        its.append((ty, b, sorted(sig)))
    if len(its) == 2:
        key = 'IntervalTreeIterator-vs-Mut|same-pruning-guards'
        a, c = its
        if a[2] == c[2] and len(a[2]) >= 3:
            rep.ok(rule, key, '%s:%s' % (a[1].file, a[1].line), '; '.join(a[2]))
        else:
            rep.bad(rule, key, '%s:%s' % (c[1].file, c[1].line),
                    'the shared and the mutable iterator prune differently: %s vs %s' % (a[2], c[2]))
        want = sorted(['call intersect(self.interval, node.interval)',
                       'node.interval.start Lt self.interval.end', 'self.interval.start Lt node.max'])
        # name- and idiom-independent form: the traversal candidate (whatever expression yields the popped stack
        # entry: match / ? / unwrap / a user variable) is rewritten to `node`, auto-deref calls are dropped
        for ty, b, _sig in its:
            key = '%s::next|pruning-predicates' % ty
            norm = []
            for g in eng_gd.guards(b):
                c = norm_cmp(g['expr'], True, xform=lambda x, b=b: _candidate_form(b, x))
                if c:
                    norm.append('%s %s %s' % (c[1], c[0], c[2]))
                else:
                    e = strip(g['expr'])
                    if e[0] == 'call':
                        norm.append('call ' + e[1].rsplit('::', 1)[-1] + '(' +
                                    ', '.join(fmt(_candidate_form(b, x)) for x in e[2]) + ')')
            norm = sorted(norm)
            if norm == want:
                rep.ok(rule, key, '%s:%s' % (b.file, b.line), '; '.join(norm))
            else:
                rep.bad(rule, key, '%s:%s' % (b.file, b.line), 'pruning predicates are %s, expected %s' % (norm, want))
    it = facts.body(AVL + '::intersect')
    if it is None:
        rep.missing(rule, AVL + '::intersect', 'not found')
    else:
        rep.analysed_body(it)
        got = set()
        for g in eng_gd.guards(it):
            c = g['cmp_true']
            if c:
                got.add(arg_names(it, '%s %s %s' % (c[1], c[0], c[2])))
        # the last conjunct is the returned value, not a switch
        for bb in it.reachable(0):
            for s in it.stmts(bb):
                if s['k'] == 'assign' and 'pj' not in s['p'] and s['p']['l'] == 0:
                    c = norm_cmp(it.expr_rvalue(s['r'], inline_user=True), True)
                    if c:
                        got.add(arg_names(it, '%s %s %s' % (c[1], c[0], c[2])))
            t = it.term(bb)
            if t['k'] == 'call' and 'pj' not in t['dest'] and t['dest']['l'] == 0:
                c = norm_cmp(it.expr_call(t, inline_user=True), True)
                if c:
                    got.add(arg_names(it, '%s %s %s' % (c[1], c[0], c[2])))
        got = {re.sub(r'Deref>::deref\((a\d)\)', r'\1', g) for g in got}
        want = {'a1.start Lt a1.end', 'a2.start Lt a2.end', 'a2.start Lt a1.end', 'a1.start Lt a2.end'}
        key = 'intersect|four-half-open-comparisons'
        if got == want:
            rep.ok(rule, key, '%s:%s' % (it.file, it.line), '; '.join(sorted(got)))
        else:
            rep.bad(rule, key, '%s:%s' % (it.file, it.line), 'intersect tests %s, expected %s' % (sorted(got), sorted(want)))


# --------------------------------------------------------------------------- TS-4

def ts4(facts, rep):
    rule = 'TS-4'
    rep.rule(rule, 'indexed typestate of the array-backed tree: every &mut self method that mutates `entries` (other than '
                   'index/index_core) stores indexed = false afterwards on every path; only index stores true, after '
                   'sort_by_key and index_core in that order; find_into touches entries/max_level only behind the refusal '
                   'guard on !self.indexed whose other edge panics; find goes through find_into')
    eff = effects.Effects(facts)
    muts = 0
    for b in facts.body_list:
        if b.raw.get('impl_adt') != ABT or b.raw.get('self_kind') != 'mut' or b.raw.get('impl_trait'):
            continue
        rep.analysed_body(b)
        w = eff.writes(b) or []
        ent = [(bb, i) for (bb, i, (k, r, p), how) in w if k == 'param' and r == 1 and p and effects.clean(p)[:1] == ('entries',)]
        if not ent or b.name in ('index', 'index_core'):
            continue
        muts += 1
        key = '%s::%s|mutation-clears-indexed' % ('ArrayBackedIntervalTree', b.name)
        # blocks storing indexed = false
        clr = set()
        for bb in b.reachable(0):
            for s in b.stmts(bb):
                if s['k'] == 'assign' and eng_gd.self_field_path(s['p']) == ('indexed',):
                    e = b.expr_rvalue(s['r'])
                    if e[0] == 'const' and e[1] == 0:
                        clr.add(bb)
        bad = None
        for (bb, _i) in ent:
            reg = eng_gd.region(b, bb, stop=clr - {bb})
            if bb in clr:
                continue
            if any(b.term(x)['k'] == 'return' and x not in clr for x in reg):
                bad = bb
        if bad is not None:
            rep.bad(rule, key, b.loc(bad), '%s changes `entries` but can return without marking the tree un-indexed: a later '
                                           'query would be answered from a stale index' % b.name)
        else:
            rep.ok(rule, key, '%s:%s' % (b.file, b.line), 'indexed = false after the mutation on every path')
    rep.floor(rule, 'mutators of entries', muts, 1)
    # only `index` stores true
    for b in facts.body_list:
        if b.raw.get('impl_adt') != ABT:
            continue
        for bb in b.reachable(0):
            for i, s in enumerate(b.stmts(bb)):
                if s['k'] == 'assign' and eng_gd.self_field_path(s['p']) == ('indexed',):
                    e = b.expr_rvalue(s['r'])
                    if not (e[0] == 'const' and e[1] == 0) and b.name != 'index':
                        rep.bad(rule, 'ArrayBackedIntervalTree::%s|sets-indexed' % b.name, b.loc(bb, i),
                                'indexed is set outside index()')
    idx = facts.method(ABT, 'index')
    key = 'ArrayBackedIntervalTree::index|sort-then-index_core-then-true'
    if idx is None:
        rep.missing(rule, key, 'index not found')
    else:
        rep.analysed_body(idx)
        sort = [bb for bb, t in idx.calls() if call_info(t) and call_info(t)['fn'].rsplit('::', 1)[-1].startswith('sort')]
        core = [bb for bb, t in idx.calls() if call_info(t) and call_info(t)['fn'].endswith('::index_core')]
        tru = []
        for bb in idx.reachable(0):
            for s in idx.stmts(bb):
                if s['k'] == 'assign' and eng_gd.self_field_path(s['p']) == ('indexed',):
                    e = idx.expr_rvalue(s['r'])
                    if e[0] == 'const' and e[1] == 1:
                        tru.append(bb)
        ok = sort and core and tru and all(idx.dominates(sort[0], c) for c in core) and \
            all(idx.dominates(core[0], t) for t in tru)
        if ok:
            rep.ok(rule, key, idx.loc(sort[0]), 'sort dominates index_core dominates indexed = true')
        else:
            rep.bad(rule, key, '%s:%s' % (idx.file, idx.line), 'index() must sort, then index_core, then set indexed = true '
                                                               '(found sort %s, index_core %s, true-store %s)' % (sort, core, tru))
        # the sort key is the interval start
        srt = [c for c in facts.closures_of(idx.path)]
        # the key function may also be a named function passed by value (sort_by_key(Entry::start))
        for bb, t in idx.calls():
            if call_info(t) and call_info(t)['fn'].rsplit('::', 1)[-1].startswith('sort'):
                for a in t['args'][1:]:
                    kf = (a.get('k') or {}).get('res') or (a.get('k') or {}).get('fn')
                    if kf and facts.bodies.get(kf) is not None:
                        srt.append(facts.bodies[kf])
        keyk = 'ArrayBackedIntervalTree::index|sort-key-is-start'
        good = False
        for c in srt:
            for bb in c.reachable(0):
                for s in c.stmts(bb):
                    if s['k'] == 'assign' and 'pj' not in s['p'] and s['p']['l'] == 0:
                        e = fmt(strip(c.expr_rvalue(s['r'], inline_user=True)))
                        if e.endswith('.start'):
                            good = True
        if good:
            rep.ok(rule, keyk, '%s:%s' % (idx.file, idx.line), 'sort_by_key(|e| e.interval.start)')
        else:
            rep.bad(rule, keyk, '%s:%s' % (idx.file, idx.line), 'entries are not sorted by interval start before indexing')
    fi = facts.method(ABT, 'find_into')
    key = 'ArrayBackedIntervalTree::find_into|refuses-unindexed'
    if fi is None:
        rep.missing(rule, key, 'find_into not found')
    else:
        rep.analysed_body(fi)
        g = None
        for gg in eng_gd.guards(fi):
            if fmt(strip(gg['expr'])) in ('Not(self.indexed)', 'self.indexed'):
                g = gg
        if g is None:
            rep.bad(rule, key, '%s:%s' % (fi.file, fi.line), 'no guard on self.indexed: an un-indexed tree is queried')
        else:
            neg = fmt(strip(g['expr'])).startswith('Not')
            refuse, go = (g['t'], g['f']) if neg else (g['f'], g['t'])
            touch = eng_gd.blocks_touching_self_fields(fi, {'entries', 'max_level'})
            bad = [bb for bb in touch if not fi.edge_dominates((g['bb'], go), bb)]
            if bad:
                rep.bad(rule, key, fi.loc(sorted(bad)[0]), 'entries/max_level are read outside the `indexed` edge')
            elif not eng_gd.reaches_panic_only(fi, refuse):
                rep.bad(rule, key, fi.loc(g['bb']), 'the un-indexed edge does not refuse (it can reach a normal return)')
            else:
                rep.ok(rule, key, fi.loc(g['bb']), '%d blocks read the index, all behind the guard; other edge panics' % len(touch))
    fd = facts.method(ABT, 'find')
    key = 'ArrayBackedIntervalTree::find|through-find_into'
    if fd is None:
        rep.missing(rule, key, 'find not found')
    else:
        rep.analysed_body(fd)
        touch = eng_gd.blocks_touching_self_fields(fd, {'entries', 'max_level'})
        via = any(call_info(t) and call_info(t)['fn'].endswith('::find_into') for _bb, t in fd.calls())
        if touch or not via:
            rep.bad(rule, key, '%s:%s' % (fd.file, fd.line), 'find reads the entries directly instead of going through the '
                                                             'guarded find_into')
        else:
            rep.ok(rule, key, '%s:%s' % (fd.file, fd.line), 'delegates to find_into')


# --------------------------------------------------------------------------- SG-1

def sg1(facts, rep):
    rule = 'SG-1'
    rep.rule(rule, 'no public function of the interval-tree modules or annot_map returns `&mut` to an Interval, a Node, '
                   'or the max/height augmentation (the mutable iterator hands out &mut D only), so user code cannot break '
                   'the ordering invariant')
    n = 0
    for b in facts.body_list:
        if b.kind == 'Closure' or not b.raw.get('reachable'):
            continue
        if not (b.path.startswith('data_structures::interval_tree') or b.path.startswith('<data_structures::interval_tree')
                or b.path.startswith('data_structures::annot_map') or b.path.startswith('<data_structures::annot_map')):
            continue
        out = b.raw.get('output', '')
        n += 1
        key = '%s|output' % b.path
        if re.search(r'&(\'\w+ )?mut (utils::interval::Interval|[\w:]*Node<)', out) or \
                re.search(r'&(\'\w+ )?mut [\w:]*InternalEntry<', out):
            rep.bad(rule, key, '%s:%s' % (b.file, b.line), 'public API returns `%s`: callers can change a stored key/node' % out)
        else:
            rep.ok(rule, key, '%s:%s' % (b.file, b.line), out[:80])
    rep.floor(rule, 'public functions inspected', n, 15)
    # EntryMut hands out the interval by shared reference
    for mod in (AVL, 'data_structures::interval_tree::array_backed_interval_tree'):
        pass
    em = facts.method(AVL + '::EntryMut', 'interval')
    key = 'EntryMut::interval|shared'
    if em is None:
        rep.missing(rule, key, 'EntryMut::interval not found')
    elif 'mut' in em.raw.get('output', ''):
        rep.bad(rule, key, '%s:%s' % (em.file, em.line), 'EntryMut::interval returns %s' % em.raw['output'])
    else:
        rep.ok(rule, key, '%s:%s' % (em.file, em.line), em.raw['output'])
    # fields of Node / EntryMut are private
    for adt in (AVL + '::Node', AVL + '::EntryMut', AVL + '::IntervalTree', ABT):
        a = facts.adts.get(adt)
        key = '%s|fields-private' % adt
        if a is None:
            rep.missing(rule, key, 'type not found')
            continue
        pubf = [f['name'] for f in a['variants'][0]['fields'] if f['pub']]
        if pubf and a['reachable']:
            rep.bad(rule, key, '%s:%s' % (a['file'], a['line']), 'public field(s) %s expose the tree structure' % pubf)
        else:
            rep.ok(rule, key, '%s:%s' % (a['file'], a['line']), 'no public fields')


# --------------------------------------------------------------------------- SB-8

def sb8(facts, rep):
    rule = 'SB-8'
    rep.rule(rule, 'annotation map: insert_at, insert_loc and find derive the tree key from refid() and the interval as '
                   'start() .. start() + length() identically, and find consults only the tree stored under the queried '
                   'reference id')
    AM = 'data_structures::annot_map::AnnotMap'
    sigs = {}
    for nm in ('insert_at', 'insert_loc', 'find'):
        b = facts.method(AM, nm)
        if b is None:
            rep.missing(rule, AM + '::' + nm, 'not found')
            continue
        rep.analysed_body(b)
        rng = None
        fam = facts.family(b)       # the method and the closures nested in it (e.g. `.get(..).map(|itree| ..)`)
        for c in fam:
            for bb in c.reachable(0):
                for s in c.stmts(bb):
                    if s['k'] == 'assign' and s['r']['k'] == 'agg' and s['r'].get('adt', '').startswith('std::ops::Range'):
                        e = [strip_casts(c.expr_operand(o, inline_user=True)) for o in s['r']['ops']]
                        txt = ' .. '.join(fmt(x) for x in e)
                        # captured variables of a closure are the variables of the method
                        txt = re.sub(r'_1\.\^(\w+)', r'\1', txt)
                        # location argument name -> LOC
                        for l in range(1, b.arg_count + 1):
                            if b.local_name(l):
                                txt = re.sub(r'\b%s\b' % re.escape(b.local_name(l)), 'LOC', txt)
                        txt = re.sub(r'\(?&?LOC\)?', 'LOC', txt)
                        rng = txt
        maps = sorted({call_info(t)['fn'].rsplit('::', 1)[-1] for c in fam for _bb, t in c.calls()
                       if call_info(t) and 'HashMap' in call_info(t)['fn']})
        refid = any(call_info(t) and call_info(t)['fn'].endswith('::refid') for c in fam for _bb, t in c.calls())
        sigs[nm] = (rng, maps, refid, b)
    if len(sigs) == 3:
        rngs = {nm: re.sub(r'\bdata\b', 'LOC', s[0] or '') for nm, s in sigs.items()}
        key = 'AnnotMap|insert-and-find-use-the-same-interval'
        vals = set(rngs.values())
        if len(vals) == 1 and 'start' in list(vals)[0] and 'length' in list(vals)[0]:
            rep.ok(rule, key, '%s:%s' % (sigs['find'][3].file, sigs['find'][3].line), list(vals)[0])
        else:
            rep.bad(rule, key, '%s:%s' % (sigs['find'][3].file, sigs['find'][3].line),
                    'insert and find build different intervals from a location: %s' % rngs)
        for nm, (rng, maps, refid, b) in sigs.items():
            key = 'AnnotMap::%s|keyed-by-refid' % nm
            want = 'get' if nm == 'find' else 'entry'
            if refid and want in maps and not (nm == 'find' and any(m in maps for m in ('values', 'iter', 'values_mut'))):
                rep.ok(rule, key, '%s:%s' % (b.file, b.line), 'HashMap::%s(refid)' % want)
            else:
                rep.bad(rule, key, '%s:%s' % (b.file, b.line), 'tree lookup is not keyed by the location refid (HashMap calls: %s)' % maps)


def run(facts, rep, ctx):
    ts2(facts, rep)
    ts3(facts, rep)
    sb1(facts, rep)
    ts4(facts, rep)
    sg1(facts, rep)
    sb8(facts, rep)


_run_before_round2 = run


def run(facts, rep, ctx):
    """rules added after the second round of independent seeding (rules/round2.py)"""
    _run_before_round2(facts, rep, ctx)
    from . import round2
    round2.ts3b(facts, rep)
    round2.ts4b(facts, rep)



_run_before_round5 = run


def run(facts, rep, ctx):
    """rules added after the fourth seeding round (rules/round5.py)"""
    _run_before_round5(facts, rep, ctx)
    from . import round5
    round5.ts12(facts, rep)


_run_before_round6 = run


def run(facts, rep, ctx):
    """rules added after the fifth seeding round (rules/round6.py)"""
    _run_before_round6(facts, rep, ctx)
    from . import round6
    round6.ts13(facts, rep)
