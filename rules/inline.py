"""MIR-level inlining of small private helpers plus jump threading on known enum variants.

Why: guard / sibling / table rules are intraprocedural.  Moving a validation block, a bit-selection expression or a
width computation into a private helper (the most common behaviour-preserving refactoring) must not change a verdict,
and removing a check inside such a helper must still be seen.  Rules that want this call `inlined(facts, body, keep)`
and analyse the returned Body, whose CFG is the caller's MIR with

  * every call to a crate-local, non-recursive, loop-free-or-small free/associated function (not in `keep`) replaced by
    a renumbered copy of the callee's blocks (arguments copied into the callee's parameter locals, each `return`
    turned into `dest = move _0'; goto <return target>`), to a bounded depth, and
  * the continuation after a merge point duplicated per predecessor when that resolves a `switchInt(discriminant(v))`
    (v = a freshly built Ok/Err/Some/None, or `Try::branch` of one): the path-insensitive merge that `helper(..)?`
    introduces between the callee's returns and the caller's `?` is split again, so "Err on this edge, work only behind
    the other edge" stays visible as plain dominance facts.

The transformation only ever duplicates or splices blocks of the MIR extracted from the current tree; it never invents
statements other than parameter/return copies."""
import copy
import os
from .mirlib import Body, call_info

TARGET_KEYS = ('t', 'u', 'else', 'imag')
VARIANT_INDEX = {
    'std::option::Option': {'None': 0, 'Some': 1},
    'std::result::Result': {'Ok': 0, 'Err': 1},
    'std::ops::ControlFlow': {'Continue': 0, 'Break': 1},
}
BRANCH_MAP = {'Ok': ('std::ops::ControlFlow', 'Continue'), 'Some': ('std::ops::ControlFlow', 'Continue'),
              'Err': ('std::ops::ControlFlow', 'Break'), 'None': ('std::ops::ControlFlow', 'Break')}


def _renum_locals(x, off):
    if isinstance(x, dict):
        out = {}
        for k, v in x.items():
            if k in ('l', 'i') and isinstance(v, int) and not isinstance(v, bool):
                out[k] = v + off
            elif k in ('dbg', 'd') and isinstance(v, str):
                out[k] = v
            else:
                out[k] = _renum_locals(v, off)
        return out
    if isinstance(x, list):
        return [_renum_locals(v, off) for v in x]
    return x


def _renum_targets(t, boff):
    for k in TARGET_KEYS:
        if isinstance(t.get(k), int) and not isinstance(t.get(k), bool):
            t[k] = t[k] + boff
    if 'vals' in t:
        t['vals'] = [[v, bb + boff] for v, bb in t['vals']]
    return t


def default_policy(facts, caller, callee, keep):
    raw = callee.raw
    if callee.kind == 'Closure':
        # only reached through a combinator model (rules/combinators.py): a closure literal called exactly here
        return not (keep is not None and keep(callee.path)) and len(callee.blocks) <= 80
    if callee.kind not in ('Fn', 'AssocFn'):
        return False
    if raw.get('pub') and raw.get('reachable'):
        # part of the public API: rules name such functions themselves
        return False
    if keep is not None and keep(callee.path):
        return False
    if len(callee.blocks) > 80:
        return False
    return True


def _ref_base(raw, l, defs):
    """local r such that local l is a plain copy / whole reborrow (`&mut *r`, `&*r`) of the reference held in r
    (followed transitively); l itself if it is not such a copy"""
    seen = set()
    while l not in seen:
        seen.add(l)
        d = defs.get(l)
        if d is None or len(d) != 1:
            return l
        r = d[0]
        if r.get('k') == 'ref' and r['p'].get('pj') == ['*']:
            l = r['p']['l']
            continue
        if r.get('k') == 'use':
            q = r['o'].get('m') or r['o'].get('c')
            if q is not None and not q.get('pj'):
                l = q['l']
                continue
        return l
    return l


def _subst_locals(x, subst):
    if isinstance(x, dict):
        out = {}
        for k, v in x.items():
            if k == 'l' and isinstance(v, int) and not isinstance(v, bool) and v in subst:
                out[k] = subst[v]
            else:
                out[k] = _subst_locals(v, subst)
        return out
    if isinstance(x, list):
        return [_subst_locals(v, subst) for v in x]
    return x


def splice(raw, bb, craw, tag):
    """replace the call terminating block bb of raw by an inlined copy of craw"""
    call = raw['blocks'][bb]['t']
    loff = len(raw['locals'])
    boff = len(raw['blocks'])
    # reference parameters that are plain (re)borrows of a caller reference are replaced by that reference in the copied
    # code: `(*self').field` of a helper taking `&mut self` is `(*self).field` of the caller
    from .combinators import _whole_defs
    cdefs = _whole_defs(raw)
    subst = {}
    reassigned = set()
    for blk in craw['blocks']:
        for st in blk['s']:
            if st['k'] == 'assign' and not st['p'].get('pj'):
                reassigned.add(st['p']['l'])
        if blk['t']['k'] == 'call' and not blk['t']['dest'].get('pj'):
            reassigned.add(blk['t']['dest']['l'])
    for k, a in enumerate(call['args']):
        pl = a.get('m') or a.get('c')
        if pl is None or pl.get('pj'):
            continue
        pty = craw['locals'][k + 1]['ty'] if k + 1 < len(craw['locals']) else ''
        if not pty.startswith('&') or (k + 1) in reassigned:
            continue
        base = _ref_base(raw, pl['l'], cdefs)
        if raw['locals'][base]['ty'].startswith('&'):
            subst[loff + 1 + k] = base
    for i, l in enumerate(craw['locals']):
        l2 = dict(l)
        l2['inl'] = tag
        # inlined locals are temporaries of the caller: their names must not be confused with the caller's variables
        if 'name' in l2:
            l2['oname'] = l2.pop('name')
        if l2.pop('user', None):
            l2['iuser'] = True
            # the helper's own variables stay variables (a mutably borrowed iterator is opaque in the caller as well);
            # its parameters are temporaries bound to the caller's argument expressions
            if i > craw.get('arg_count', 0):
                l2['user'] = True
        raw['locals'].append(l2)
    for blk in craw['blocks']:
        nb = {'s': _subst_locals(_renum_locals(blk['s'], loff), subst),
              't': _renum_targets(_subst_locals(_renum_locals(copy.deepcopy(blk['t']), loff), subst), boff)}
        for k in blk:
            if k not in ('s', 't'):
                nb[k] = blk[k]
        nb['inl'] = tag
        t = nb['t']
        if t['k'] == 'return':
            nb['s'] = list(nb['s']) + [{'k': 'assign', 'p': copy.deepcopy(call['dest']),
                                        'r': {'k': 'use', 'o': {'m': {'l': loff}}}, 'line': call.get('line'),
                                        'd': 'inlined return value'}]
            if call.get('t') is not None:
                nb['t'] = {'k': 'goto', 't': call['t'], 'line': t.get('line'), 'dbg': 'inlined return'}
            else:
                nb['t'] = {'k': 'unreachable', 'line': t.get('line'), 'dbg': 'inlined diverging return'}
        elif t['k'] == 'resume' and call.get('u') is not None:
            nb['t'] = {'k': 'goto', 't': call['u'], 'line': t.get('line'), 'dbg': 'inlined resume'}
        raw['blocks'].append(nb)
    pre = []
    for k, a in enumerate(call['args']):
        pre.append({'k': 'assign', 'p': {'l': loff + 1 + k}, 'r': {'k': 'use', 'o': copy.deepcopy(a)},
                    'line': call.get('line'), 'd': 'inlined argument %d' % k})
    blk = raw['blocks'][bb]
    blk['s'] = list(blk['s']) + pre
    blk['t'] = {'k': 'goto', 't': boff, 'line': call.get('line'), 'dbg': 'inlined call of ' + craw['path'],
                'inlined_call': craw['path']}


# ------------------------------------------------------------------ jump threading on known variants

def _succs(t):
    return Body.term_succs(t)


def _mut_borrowed(raw):
    out = set()
    for blk in raw['blocks']:
        for s in blk['s']:
            if s['k'] == 'assign' and s['r']['k'] in ('ref', 'rawptr') and s['r'].get('bk') not in ('shared', 'Not', 'const'):
                out.add(s['r']['p']['l'])
    return out


def _transfer_block(blk, st, untracked):
    st = dict(st)
    for s in blk['s']:
        if s['k'] == 'assign':
            d = s['p']
            if 'pj' in d and d['pj']:
                if d['pj'][0] != '*':
                    st.pop(d['l'], None)
                continue
            r = s['r']
            v = None
            if r['k'] == 'agg' and r.get('ak') == 'adt' and r.get('adt') in VARIANT_INDEX and r.get('variant') in \
                    VARIANT_INDEX[r['adt']]:
                v = (r['adt'], r['variant'])
            elif r['k'] == 'use':
                pl = r['o'].get('m') or r['o'].get('c')
                if pl is not None and not pl.get('pj'):
                    v = st.get(pl['l'])
            elif r['k'] == 'disc':
                pl = r['p']
                if not pl.get('pj') and pl['l'] in st and st[pl['l']][0] != 'int':
                    adt, var = st[pl['l']]
                    v = ('int', VARIANT_INDEX[adt][var])
            if v is not None and d['l'] not in untracked:
                st[d['l']] = v
            else:
                st.pop(d['l'], None)
        elif s['k'] == 'setdisc':
            st.pop(s['p']['l'], None)
    t = blk['t']
    if t['k'] == 'call':
        d = t['dest']
        if not d.get('pj'):
            v = None
            info = call_info(t)
            if info and info.get('fn') == 'std::ops::Try::branch' and t['args']:
                pl = t['args'][0].get('m') or t['args'][0].get('c')
                if pl is not None and not pl.get('pj') and pl['l'] in st and st[pl['l']][0] != 'int':
                    v = BRANCH_MAP.get(st[pl['l']][1])
            if v is not None and d['l'] not in untracked:
                st[d['l']] = v
            else:
                st.pop(d['l'], None)
        else:
            if d['pj'][0] != '*':
                st.pop(d['l'], None)
    return st


def _flow(raw, untracked):
    n = len(raw['blocks'])
    inst = {0: {}}
    work = [0]
    while work:
        b = work.pop()
        out = _transfer_block(raw['blocks'][b], inst[b], untracked)
        for s in _succs(raw['blocks'][b]['t']):
            if s not in inst:
                inst[s] = dict(out)
                work.append(s)
            else:
                old = inst[s]
                new = {k: v for k, v in old.items() if out.get(k) == v}
                if new != old:
                    inst[s] = new
                    work.append(s)
    return inst


def _resolve_switch(blk, st):
    """target of the switch terminating blk if its discriminant is a known int in state st (after the block's
    statements), else None"""
    t = blk['t']
    if t['k'] != 'switch':
        return None
    pl = t['d'].get('m') or t['d'].get('c')
    if pl is None or pl.get('pj'):
        return None
    v = st.get(pl['l'])
    if v is None or v[0] != 'int':
        return None
    for val, tgt in t['vals']:
        if val == v[1]:
            return tgt
    return t['else']


def thread_variants(raw, max_rounds=40, max_chain=8):
    untracked = _mut_borrowed(raw)
    changed_any = False
    for _ in range(max_rounds):
        inst = _flow(raw, untracked)
        n = len(raw['blocks'])
        preds = [[] for _ in range(n)]
        for b in inst:
            for s in _succs(raw['blocks'][b]['t']):
                preds[s].append(b)
        done = False
        # 1. switches that are already decided
        for b in sorted(inst):
            blk = raw['blocks'][b]
            st = _transfer_block({'s': blk['s'], 't': {'k': 'goto', 't': 0}}, inst[b], untracked)
            tgt = _resolve_switch(blk, st)
            if tgt is not None:
                blk['t'] = {'k': 'goto', 't': tgt, 'line': blk['t'].get('line'), 'dbg': 'threaded switch', 'exp': blk['t'].get('exp')}
                done = True
        if done:
            changed_any = True
            continue
        # 2. duplicate the chain merge-point .. switch for a predecessor on which the switch is decided
        for b in sorted(inst):
            blk = raw['blocks'][b]
            if blk['t']['k'] != 'switch' or blk['t'].get('dty') == 'bool':
                continue
            chain = [b]
            cur = b
            while len(set(preds[cur])) == 1 and len(chain) < max_chain and preds[cur][0] not in chain:
                cur = preds[cur][0]
                chain.insert(0, cur)
            m = chain[0]
            ps = sorted(set(preds[m]))
            if len(ps) < 2 or m == 0:
                continue
            # blocks of the chain must be straight-line into each other (normal successor in chain)
            ok = all(chain[i + 1] in _succs(raw['blocks'][chain[i]]['t']) for i in range(len(chain) - 1))
            if not ok:
                continue
            for p in ps:
                if p in chain:
                    continue
                st = _transfer_block(raw['blocks'][p], inst[p], untracked)
                for c in chain[:-1]:
                    st = _transfer_block(raw['blocks'][c], st, untracked)
                last = raw['blocks'][chain[-1]]
                st = _transfer_block({'s': last['s'], 't': {'k': 'goto', 't': 0}}, st, untracked)
                tgt = _resolve_switch(last, st)
                if tgt is None:
                    continue
                # clone
                base = len(raw['blocks'])
                newidx = {c: base + i for i, c in enumerate(chain)}
                for i, c in enumerate(chain):
                    nb = copy.deepcopy(raw['blocks'][c])
                    nb['clone_of'] = raw['blocks'][c].get('clone_of', c)
                    t = nb['t']
                    if i + 1 < len(chain):
                        nxt = chain[i + 1]
                        for k in TARGET_KEYS:
                            if k != 'u' and t.get(k) == nxt:
                                t[k] = newidx[nxt]
                        if 'vals' in t:
                            t['vals'] = [[v, newidx[nxt] if bb == nxt else bb] for v, bb in t['vals']]
                    else:
                        nb['t'] = {'k': 'goto', 't': tgt, 'line': t.get('line'), 'dbg': 'threaded switch', 'exp': t.get('exp')}
                    raw['blocks'].append(nb)
                pt = raw['blocks'][p]['t']
                for k in TARGET_KEYS:
                    if k != 'u' and pt.get(k) == m:
                        pt[k] = newidx[m]
                if 'vals' in pt:
                    pt['vals'] = [[v, newidx[m] if bb == m else bb] for v, bb in pt['vals']]
                done = True
                break
            if done:
                break
        if not done:
            break
        changed_any = True
    return changed_any


# ------------------------------------------------------------------ driver

def new_function_policy(facts, caller, callee, keep):
    """inline whatever the rules have never seen (keep = the frozen list of known functions)"""
    return callee.kind in ('Fn', 'AssocFn', 'Closure') and not (keep is not None and keep(callee.path)) and \
        len(callee.blocks) <= 150


def inlined(facts, body, keep=None, depth=3, policy=default_policy, thread=True, combinators=True, closureless=True):
    """Body equal to `body` with small crate-local helpers inlined (see module doc). `keep(path)` -> True keeps a
    callee as a call. The result is cached on the facts object."""
    cache = facts.__dict__.setdefault('_inline_cache', {})
    ck = (body.path, id(body), id(keep) if keep is not None else None, depth, thread, combinators, id(policy), closureless)
    if ck in cache:
        return cache[ck]
    raw = copy.deepcopy(body.raw)
    expanded = []
    if combinators and not os.environ.get('VERIF_NO_COMBINATORS'):
        from . import combinators as comb
        expanded = comb.expand(raw, facts, keep, closureless=closureless)
    level = {i: 0 for i in range(len(raw['blocks']))}
    stack_of = {i: (body.path,) for i in range(len(raw['blocks']))}
    names = []
    i = 0
    while i < len(raw['blocks']):
        blk = raw['blocks'][i]
        t = blk['t']
        if t['k'] == 'call' and level[i] < depth:
            info = call_info(t)
            callee = None
            if info is not None and info.get('crate') == facts.crate or (info is not None and info.get('res_crate') == facts.crate):
                callee = facts.bodies.get(info.get('res') or info.get('fn')) or facts.bodies.get(info.get('fn'))
            direct = bool(info is not None and info.get('direct_closure'))
            if callee is not None and callee.kind == 'Closure' and not direct:
                callee = None
            if callee is not None and callee.path not in stack_of[i] and policy(facts, body, callee, keep) and \
                    len(t['args']) == callee.arg_count and \
                    (direct or len(callee.raw.get('inputs', [])) == callee.arg_count):
                start = len(raw['blocks'])
                splice(raw, i, callee.raw, callee.path)
                names.append(callee.path)
                for j in range(start, len(raw['blocks'])):
                    level[j] = level[i] + 1
                    stack_of[j] = stack_of[i] + (callee.path,)
        i += 1
    threaded = thread_variants(raw) if (thread and (names or expanded)) else False
    if not names and not threaded and not expanded:
        cache[ck] = body
        return body
    nb = Body(raw, facts)
    nb.inlined_callees = names
    nb.expanded_combinators = expanded
    cache[ck] = nb
    return nb
