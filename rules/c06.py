"""C06 FMD index — TB-2: the symbol iteration order of FMDIndex::backward_ext equals the complements of the index
alphabet in ascending byte order (needed for the reverse-strand lower bound accumulation)."""
import re
from .mirlib import call_info, strip, walk, fmt
from .c20 import table_from_initialiser

LEVEL = 'other'


def bytes_consts(b):
    out = []
    for bb in sorted(b.reachable(0)):
        for s in b.stmts(bb):
            if s['k'] == 'assign':
                for x in walk(b.expr_rvalue(s['r'])):
                    if isinstance(x, tuple) and x[0] == 'const' and isinstance(x[1], tuple) and x[1][0] == 'bytes' \
                            and isinstance(x[1][1], bytes):
                        out.append((x[1][1], bb))
        t = b.term(bb)
        if t['k'] == 'call':
            for a in t['args']:
                for x in walk(b.expr_operand(a)):
                    if isinstance(x, tuple) and x[0] == 'const' and isinstance(x[1], tuple) and x[1][0] == 'bytes' \
                            and isinstance(x[1][1], bytes):
                        out.append((x[1][1], bb))
    return out


def run(facts, rep, ctx):
    rule = 'TB-2'
    rep.rule(rule, 'table agreement: the byte-string literal iterated in FMDIndex::backward_ext must equal '
                   'complement(c) for c ascending over (literal of dna::n_alphabet() + the sentinel `$` inserted and '
                   'asserted in FMDIndex::from), with complement reconstructed from dna::COMPLEMENT\'s initialiser; a '
                   'wrong order mis-accumulates the reverse-strand lower bound for every later symbol')
    be = facts.one(r'^data_structures::fmindex::FMDIndex::<.*>::backward_ext$')
    na = facts.body('alphabets::dna::n_alphabet')
    init = facts.one(r'^<alphabets::dna::COMPLEMENT as std::ops::Deref>::deref::__static_ref_initialize$')
    frm = [b for b in facts.body_list if b.name == 'from' and 'FMDIndex' in (b.raw.get('impl_self') or '')]
    if be is None or na is None or init is None or not frm:
        rep.missing(rule, 'backward_ext / n_alphabet / COMPLEMENT / FMDIndex::from', 'anchor not found (%s %s %s %s)' % (
            be, na, init, len(frm)))
        return
    for b in (be, na, init, frm[0]):
        rep.analysed_body(b)
    r = table_from_initialiser(init)
    if r[0] is None or r[2]:
        rep.bad(rule, 'dna::COMPLEMENT|reconstructable', '%s:%s' % (init.file, init.line), '; '.join(r[2]))
        return
    table = r[0]
    alpha = sorted({c for c, _ in bytes_consts(na)})
    key = 'dna::n_alphabet|literal'
    if len(alpha) != 1:
        rep.missing(rule, key, 'alphabet literal not found')
        return
    rep.ok(rule, key, '%s:%s' % (na.file, na.line), repr(alpha[0]))
    # sentinel inserted in FMDIndex::from
    sent = None
    f = frm[0]
    uses_n = any(call_info(t) and call_info(t)['fn'] == 'alphabets::dna::n_alphabet' for _bb, t in f.calls())
    for bb, t in f.calls():
        info = call_info(t)
        if info and info['fn'].endswith('Alphabet::insert') and len(t['args']) == 2:
            e = strip(f.expr_operand(t['args'][1]))
            if e[0] == 'const' and isinstance(e[1], int):
                sent = e[1]
    key = 'FMDIndex::from|asserts-n_alphabet-plus-sentinel'
    if sent is None or not uses_n:
        rep.bad(rule, key, '%s:%s' % (f.file, f.line), 'FMDIndex::from no longer checks the BWT against n_alphabet() + sentinel')
        return
    checked = any(call_info(t) and call_info(t)['fn'].endswith('Alphabet::is_word') for _bb, t in f.calls())
    if not checked:
        rep.bad(rule, key, '%s:%s' % (f.file, f.line), 'alphabet membership of the BWT is not checked')
    else:
        rep.ok(rule, key, '%s:%s' % (f.file, f.line), 'n_alphabet() + %r, is_word(bwt)' % chr(sent))
    symbols = sorted(set(alpha[0]) | {sent})
    want = bytes(table[c] for c in symbols)
    lits = sorted({c for c, _ in bytes_consts(be) if len(c) >= 4})
    key = 'FMDIndex::backward_ext|iteration-order'
    # if the loop maps its literal through dna::complement, the effective order is complement(literal)
    fam = [be] + facts.closures_of(be.path)
    maps = any(call_info(t) and call_info(t)['fn'] == 'alphabets::dna::complement' for fb in fam for _bb, t in fb.calls())
    if maps and len(lits) == 1:
        lits = [bytes(table[c] for c in lits[0])]
    if len(lits) != 1:
        rep.bad(rule, key, '%s:%s' % (be.file, be.line), 'expected one symbol-order literal in backward_ext, found %r' % lits)
    elif lits[0] != want:
        rep.bad(rule, key, '%s:%s' % (be.file, be.line),
                'backward_ext iterates %r but the complements of the index alphabet in ascending order are %r' % (lits[0], want))
    else:
        rep.ok(rule, key, '%s:%s' % (be.file, be.line), '%r == complement(%r)' % (lits[0], bytes(symbols)))
    # forward_ext = swapped backward_ext on the complement symbol
    fe = facts.one(r'^data_structures::fmindex::FMDIndex::<.*>::forward_ext$')
    key = 'FMDIndex::forward_ext|complement-and-swap'
    if fe is None:
        rep.missing(rule, key, 'forward_ext not found')
    else:
        # BiInterval::swapped may be a helper or written in place: analyse it in place
        from . import inline
        fe = inline.inlined(facts, fe, lambda pth: pth.rsplit('::', 1)[-1] in ('forward_ext', 'backward_ext', 'smems', 'all_smems'))
        rep.analysed_body(fe)
        names = [call_info(t)['fn'] for _bb, t in fe.calls() if call_info(t)]
        crossed = []
        for bb in fe.reachable(0):
            for st in fe.stmts(bb):
                if st['k'] == 'assign' and st['r']['k'] == 'agg' and (st['r'].get('adt') or '').endswith('fmindex::BiInterval'):
                    f = dict(zip(st['r']['fields'], [fmt(strip(fe.expr_operand(o, inline_user=True))) for o in st['r']['ops']]))
                    ok = f.get('lower', '').endswith('.lower_rev') and f.get('lower_rev', '').endswith('.lower') and \
                        f.get('size', '').endswith('.size') and f.get('match_size', '').endswith('.match_size')
                    src = 'result' if 'backward_ext' in f.get('lower', '') else 'argument'
                    crossed.append((src, ok))
        be_calls = [t for _bb, t in fe.calls() if call_info(t) and call_info(t)['fn'].endswith('::backward_ext')]
        comp_ok = False
        for t in be_calls:
            e = strip(fe.expr_operand(t['args'][2], inline_user=True)) if len(t['args']) > 2 else None
            comp_ok = comp_ok or (e is not None and e[0] == 'call' and e[1] == 'alphabets::dna::complement')
        if sorted(crossed) == [('argument', True), ('result', True)] and comp_ok and len(be_calls) == 1:
            rep.ok(rule, key, '%s:%s' % (fe.file, fe.line), 'backward_ext(swapped, complement(a)).swapped()')
        else:
            rep.bad(rule, key, '%s:%s' % (fe.file, fe.line), 'forward_ext is not the swapped backward extension by the complement '
                                                             '(interval literals %s, complement symbol: %s, calls %s)' % (crossed, comp_ok, names))


_run_before_round2 = run


def run(facts, rep, ctx):
    """rules added after the second round of independent seeding (rules/round2.py)"""
    _run_before_round2(facts, rep, ctx)
    from . import round2
    # bi-interval extension rests on the sampled Occ table: its writer/reader agreement (rule SB-10 of C04) is part of this check
    from . import c04
    c04.run(facts, rep, ctx)


_run_before_round4b = run


def run(facts, rep, ctx):
    """further rules added after the third seeding round (rules/round4.py)"""
    _run_before_round4b(facts, rep, ctx)
    from . import round4
    sm = [b.path for b in facts.body_list if re.search(r'FMDIndex::<.*>::(smems|all_smems)$', b.path)]
    round4.ri5(facts, rep, sm)



_run_before_round5 = run


def run(facts, rep, ctx):
    """rules added after the fourth seeding round (rules/round5.py)"""
    _run_before_round5(facts, rep, ctx)
    from . import round5
    round5.ls1(facts, rep)


_run_before_round6 = run


def run(facts, rep, ctx):
    """rules added after the fifth seeding round (rules/round6.py)"""
    _run_before_round6(facts, rep, ctx)
    from . import round6
    round6.cf2(facts, rep, ['data_structures::fmindex::', 'data_structures::bwt::'], 70)
