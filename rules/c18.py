"""C18 bit-packed containers — UC-1 (unit consistency of BitEnc bit offsets), SB-5 (constructor / threshold sibling
agreement), GD-7 (range refusal and clear)."""
from . import eng_gd
from .mirlib import call_info, strip, strip_casts, fmt, walk, norm_cmp

LEVEL = 'other'
BE = 'data_structures::bitenc::BitEnc'
SI = 'data_structures::smallints::SmallInts'


def addr_offset_locals(b):
    """locals holding the second component (bit offset) of a BitEnc::addr result, incl. copies"""
    res = set()
    dests = set()
    for bb, t in b.calls():
        info = call_info(t)
        if info and info['fn'] == BE + '::addr' and 'pj' not in t['dest']:
            dests.add(t['dest']['l'])
    changed = True
    while changed:
        changed = False
        for l in range(len(b.locals)):
            if l in res:
                continue
            d, _ = b.defs()
            for df in d.get(l, []):
                if df[0] != 'stmt' or df[3]['r']['k'] != 'use':
                    continue
                q = df[3]['r']['o'].get('c') or df[3]['r']['o'].get('m')
                if q is None:
                    continue
                pj = q.get('pj', [])
                if q['l'] in dests and len(pj) == 1 and isinstance(pj[0], dict) and pj[0].get('f') == 1:
                    res.add(l)
                    changed = True
                elif not pj and q['l'] in res:
                    res.add(l)
                    changed = True
    return res


def is_capacity(b, o):
    """operand reads self.usable_bits_per_block"""
    e = strip_casts(b.expr_operand(o, inline_user=True))
    return e[0] == 'field' and e[2] == 'usable_bits_per_block'


def uc1(facts, rep):
    rule = 'UC-1'
    rep.rule(rule, 'unit consistency: BitEnc::addr yields bit offsets in [0, usable_bits_per_block); wherever such an '
                   'offset is the start of a Range or is compared with a bound, the bound must be the field '
                   'usable_bits_per_block (zero tests excepted) - a literal bound such as 32 contradicts addr for '
                   'widths that do not divide 32')
    n = 0
    bodies = facts.methods(BE, 'push_values') + facts.methods(BE, 'push') + facts.methods(BE, 'set') + \
        facts.methods(BE, 'get')
    if not facts.methods(BE, 'push_values'):
        rep.missing(rule, BE + '::push_values', 'not found')
    for b in bodies:
        rep.analysed_body(b)
        offs = addr_offset_locals(b)
        if not offs:
            continue
        # conditions of compiler-inserted checks (`x >> bit` asserts bit < 32): not comparisons of the source program
        assert_conds = set()
        for bb in b.reachable(0):
            t = b.term(bb)
            if t['k'] == 'assert':
                cp = t['cond'].get('c') or t['cond'].get('m')
                if cp is not None:
                    assert_conds.add(cp['l'])
        for bb in b.reachable(0):
            for i, s in enumerate(b.stmts(bb)):
                if s['k'] != 'assign':
                    continue
                if 'pj' not in s['p'] and s['p']['l'] in assert_conds:
                    continue
                r = s['r']
                if r['k'] == 'agg' and r.get('adt', '').startswith('std::ops::Range') and len(r['ops']) == 2:
                    st = r['ops'][0].get('c') or r['ops'][0].get('m')
                    if st is not None and 'pj' not in st and st['l'] in offs:
                        n += 1
                        key = '%s|range-from-addr-offset|end' % b.path
                        if is_capacity(b, r['ops'][1]):
                            rep.ok(rule, key, b.loc(bb, i), 'range ends at self.usable_bits_per_block')
                        else:
                            rep.bad(rule, key, b.loc(bb, i),
                                    'a range of slot offsets starts at an addr() offset but ends at %s instead of '
                                    'self.usable_bits_per_block: for widths that do not divide 32 it yields a slot '
                                    'beyond the usable bits of the block' % fmt(strip(b.expr_operand(r['ops'][1]))))
                if r['k'] == 'bin' and r['op'] in ('Lt', 'Le', 'Gt', 'Ge'):
                    for x, y in ((r['a'], r['b']), (r['b'], r['a'])):
                        q = x.get('c') or x.get('m')
                        if q is not None and 'pj' not in q and q['l'] in offs:
                            if 'k' in y and y['k'].get('v') == 0:
                                continue
                            n += 1
                            key = '%s|compare-addr-offset|bound' % b.path
                            if is_capacity(b, y):
                                rep.ok(rule, key, b.loc(bb, i), 'compared with self.usable_bits_per_block')
                            elif 'k' in y and isinstance(y['k'].get('v'), int):
                                rep.bad(rule, key, b.loc(bb, i), 'addr() offset compared with literal %d instead of '
                                                                 'self.usable_bits_per_block' % y['k']['v'])
    rep.floor(rule, 'ranges/comparisons over addr offsets', n, 1)
    # the shift amount for the final partial block must also be relative to the usable capacity
    b = facts.method(BE, 'push_values')
    if b is not None:
        offs = addr_offset_locals(b)
        for bb in b.reachable(0):
            for i, s in enumerate(b.stmts(bb)):
                if s['k'] == 'assign' and s['r']['k'] == 'bin' and s['r']['op'].startswith('Sub'):
                    y = s['r']['b'].get('c') or s['r']['b'].get('m')
                    if y is not None and 'pj' not in y and y['l'] in offs:
                        key = '%s|capacity-minus-offset' % b.path
                        if is_capacity(b, s['r']['a']):
                            rep.ok(rule, key, b.loc(bb, i), 'usable_bits_per_block - offset')
                        else:
                            rep.bad(rule, key, b.loc(bb, i), '%s - offset: the remaining room in a block must be '
                                                             'computed from self.usable_bits_per_block' % fmt(
                                strip(b.expr_operand(s['r']['a'], inline_user=True))))


def sb5(facts, rep):
    rule = 'SB-5'
    rep.rule(rule, 'sibling agreement: BitEnc::new and with_capacity initialise every field except storage identically '
                   'and assert the same width limit; SmallInts::{push,set,real_value} decide small-vs-big with the same '
                   'strict comparison against S::max_value()')
    a = facts.method(BE, 'new')
    c = facts.method(BE, 'with_capacity')
    if a is None or c is None:
        rep.missing(rule, BE + '::{new,with_capacity}', 'constructors not found')
    else:
        def lit(b):
            for bb in b.reachable(0):
                for s in b.stmts(bb):
                    if s['k'] == 'assign' and s['r']['k'] == 'agg' and s['r'].get('adt') == BE:
                        return {f: fmt(strip_casts(b.expr_operand(o, inline_user=True)))
                                for f, o in zip(s['r']['fields'], s['r']['ops'])}
            return None
        la, lc = lit(a), lit(c)
        rep.analysed_body(a)
        rep.analysed_body(c)
        if la is None or lc is None:
            rep.missing(rule, BE + ' literal', 'struct literal not found in a constructor')
        else:
            for f in sorted(la):
                if f == 'storage':
                    continue
                key = '%s|new-vs-with_capacity|%s' % (BE, f)
                if la[f] == lc.get(f):
                    rep.ok(rule, key, '%s:%s' % (a.file, a.line), la[f])
                else:
                    rep.bad(rule, key, '%s:%s' % (c.file, c.line), 'field %s: new() uses `%s`, with_capacity() uses `%s`' % (
                        f, la[f], lc.get(f)))
            ga = sorted(g['text'] for g in eng_gd.guards(a))
            gc = sorted(g['text'] for g in eng_gd.guards(c))
            key = '%s|new-vs-with_capacity|asserts' % BE
            if ga == gc:
                rep.ok(rule, key, '%s:%s' % (a.file, a.line), str(ga))
            else:
                rep.bad(rule, key, '%s:%s' % (c.file, c.line), 'constructors check different preconditions: %s vs %s' % (ga, gc))
    smallints_thresholds(facts, rep, rule)


def smallints_thresholds(facts, rep, rule):
    # SmallInts thresholds
    sigs = {}
    for nm in ('push', 'set', 'real_value'):
        b = facts.method(SI, nm)
        if b is None:
            rep.missing(rule, SI + '::' + nm, 'not found')
            continue
        rep.analysed_body(b)
        found = []
        for bb, t in b.calls():
            info = call_info(t)
            if info and info['fn'].rsplit('::', 1)[-1] in ('lt', 'le', 'gt', 'ge') and 'PartialOrd' in info['fn']:
                ops = [fmt(strip(b.expr_operand(x, inline_user=True))) for x in t['args']]
                side = [i for i, o in enumerate(ops) if 'max_value' in o]
                if side:
                    op = info['fn'].rsplit('::', 1)[-1]
                    # normalise to "value OP max"
                    if side[0] == 0:
                        op = {'lt': 'gt', 'le': 'ge', 'gt': 'lt', 'ge': 'le'}[op]
                    found.append((op, bb))
        sigs[nm] = found
    ops = {nm: sorted({o for o, _ in f}) for nm, f in sigs.items()}
    for nm, f in sigs.items():
        b = facts.method(SI, nm)
        key = '%s::%s|threshold-vs-max_value' % (SI, nm)
        if not f:
            rep.bad(rule, key, '%s:%s' % (b.file, b.line), 'no comparison against S::max_value() found: the small/big '
                                                           'decision of this method cannot be matched with its siblings')
        elif ops[nm] != ['lt']:
            rep.bad(rule, key, b.loc(f[0][1]), 'value is compared with S::max_value() using `%s`; siblings use the strict `lt`: '
                                               'a value equal to the small maximum is stored/read on different sides' % ops[nm])
        else:
            rep.ok(rule, key, b.loc(f[0][1]), 'strict `value < S::max_value()`')


def gd7(facts, rep):
    rule = 'GD-7'
    rep.rule(rule, 'range refusal: BitEnc::get addresses storage only on the edge where i < self.len and returns None on '
                   'the other; SmallInts::get likewise against smallints.len(); BitEnc::clear resets storage and len')
    g = facts.method(BE, 'get')
    if g is None:
        rep.missing(rule, BE + '::get', 'not found')
    else:
        rep.analysed_body(g)
        es = eng_gd.edges_where(g, lambda c: c in (('Lt', 'i', 'self.len'),) or c == ('Lt', fmt(('local', 2, g.local_name(2))), 'self.len'))
        key = BE + '::get|in-range-guard'
        if len(es) != 1:
            rep.bad(rule, key, '%s:%s' % (g.file, g.line), 'expected one guard `i < self.len`, found %d (%s)' % (
                len(es), [x['text'] for x in eng_gd.guards(g)]))
        else:
            gbb, inr, _c, outr = es[0]
            sites = [bb for bb, t in g.calls() if call_info(t) and call_info(t)['fn'].startswith(BE + '::') and bb in g.reachable(0)]
            bad = [bb for bb in sites if not g.edge_dominates((gbb, inr), bb)]
            if bad or not sites:
                rep.bad(rule, key, g.loc(gbb), 'storage is addressed outside the `i < self.len` edge' if bad else
                        'no addressing call found')
            else:
                # the out-of-range edge yields None
                reg = eng_gd.region(g, outr)
                none = any(s['k'] == 'assign' and s['p']['l'] == 0 and s['r']['k'] == 'agg' and
                           s['r'].get('variant') == 'None' for x in reg for s in g.stmts(x))
                if none:
                    rep.ok(rule, key, g.loc(gbb), '%d addressing calls behind the guard; other edge returns None' % len(sites))
                else:
                    rep.bad(rule, key, g.loc(gbb), 'the out-of-range edge does not return None')
    c = facts.method(BE, 'clear')
    if c is None:
        rep.missing(rule, BE + '::clear', 'not found')
    else:
        rep.analysed_body(c)
        cleared = any(call_info(t) and call_info(t)['fn'].endswith('Vec::<T, A>::clear') for _bb, t in c.calls())
        len0 = False
        for bb in c.reachable(0):
            for s in c.stmts(bb):
                if s['k'] == 'assign' and eng_gd.self_field_path(s['p']) == ('len',):
                    e = c.expr_rvalue(s['r'])
                    len0 = e[0] == 'const' and e[1] == 0
        key = BE + '::clear|resets-storage-and-len'
        if cleared and len0:
            rep.ok(rule, key, '%s:%s' % (c.file, c.line), 'storage.clear() and len = 0')
        else:
            rep.bad(rule, key, '%s:%s' % (c.file, c.line), 'clear() leaves %s' % ('len' if cleared else 'storage') + ' untouched')
    sg = facts.method(SI, 'get')
    if sg is not None:
        rep.analysed_body(sg)
        gs = [x for x in eng_gd.guards(sg) if x['cmp_true'] and x['cmp_true'][0] == 'Lt' and 'len(' in x['cmp_true'][2]]
        key = SI + '::get|in-range-guard'
        fam = facts.family(sg)
        unchecked = [(c, bb) for c in fam for bb, t in c.calls() if call_info(t) and
                     call_info(t)['fn'].endswith(('ops::Index::index', 'ops::IndexMut::index_mut')) and
                     'smallints' in fmt(strip(c.expr_operand(t['args'][0], inline_user=True)))]
        checked = [(c, bb) for c in fam for bb, t in c.calls() if call_info(t) and
                   call_info(t)['fn'].rsplit('::', 1)[-1] in ('get', 'get_mut') and 'slice' in call_info(t)['fn'] + (call_info(t).get('res') or '')]
        if unchecked:
            # an indexing access must sit behind i < len
            okg = bool(gs) and all(c is sg and sg.edge_dominates((gs[0]['bb'], gs[0]['t']), bb) for c, bb in unchecked)
            if okg:
                rep.ok(rule, key, sg.loc(gs[0]['bb']), gs[0]['text'])
            else:
                rep.bad(rule, key, '%s:%s' % (sg.file, sg.line), 'no `i < self.smallints.len()` guard')
        elif checked:
            rep.ok(rule, key, '%s:%s' % (sg.file, sg.line), 'storage is read through the checked slice::get only (None when out of range)')
        else:
            rep.missing(rule, key, 'no access to the storage vector found')


def mk1(facts, rep):
    from .eng_ri import uses_of_locals
    rule = 'MK-1'
    rep.rule(rule, 'masking sibling agreement: every BitEnc method that stores a caller-supplied value widens it with '
                   'u32::from(value) and must combine that word with `& self.mask` before it reaches storage (set_by_addr does; '
                   'push_values builds whole blocks itself) - an unmasked value spills into the neighbouring slots and differs '
                   'from what push/set would have stored')
    n = 0
    for b in facts.body_list:
        if b.raw.get('impl_adt') != BE or b.raw.get('impl_trait'):
            continue
        for bb, t in b.calls():
            info = call_info(t)
            if not info or not info['fn'].endswith('From::from') or 'u32' not in (info.get('args') or [''])[0]:
                continue
            a0 = strip(b.expr_operand(t['args'][0], inline_user=True))
            if not (a0[0] == 'local' and 2 <= a0[1] <= b.arg_count and b.locals[a0[1]]['ty'] == 'u8'):
                continue
            n += 1
            rep.analysed_body(b)
            key = '%s|value-masked-to-width' % b.path
            d = t['dest']['l']
            uses = uses_of_locals(b)
            masked = False
            unmasked_use = None
            work = [d]
            seen = set()
            while work:
                l = work.pop()
                if l in seen:
                    continue
                seen.add(l)
                for (kind, ubb, x) in uses.get(l, []):
                    if kind != 'stmt':
                        unmasked_use = unmasked_use or b.loc(ubb)
                        continue
                    st = b.stmts(ubb)[x]
                    if st['k'] != 'assign':
                        continue
                    r = st['r']
                    if r['k'] == 'bin' and r['op'] == 'BitAnd':
                        other = r['b'] if (r['a'].get('c') or r['a'].get('m') or {}).get('l') == l else r['a']
                        if fmt(strip(b.expr_operand(other, inline_user=True))) == 'self.mask':
                            masked = True
                            continue
                    if r['k'] == 'use' and 'pj' not in st['p']:
                        work.append(st['p']['l'])
                        continue
                    unmasked_use = unmasked_use or b.loc(ubb, x)
            if masked and unmasked_use is None:
                rep.ok(rule, key, b.loc(bb), 'u32::from(value) & self.mask')
            else:
                rep.bad(rule, key, unmasked_use or b.loc(bb), 'the widened value is used without `& self.mask`: bits above the '
                                                              'encoding width leak into the block')
    rep.floor(rule, 'methods widening a caller-supplied value', n, 2)


def run(facts, rep, ctx):
    mk1(facts, rep)
    uc1(facts, rep)
    sb5(facts, rep)
    gd7(facts, rep)


_run_before_round3 = run


def run(facts, rep, ctx):
    """rules added after the second seeding round, second half (rules/round3.py)"""
    _run_before_round3(facts, rep, ctx)
    from . import round3
    round3.fw1(facts, rep)


_run_before_round4b = run


def run(facts, rep, ctx):
    """further rules added after the third seeding round (rules/round4.py)"""
    _run_before_round4b(facts, rep, ctx)
    from . import round4
    round4.fw2(facts, rep)
    round4.sb5b(facts, rep)



_run_before_round6 = run


def run(facts, rep, ctx):
    """rules added after the fifth seeding round (rules/round6.py)"""
    _run_before_round6(facts, rep, ctx)
    from . import round6
    round6.sb5c(facts, rep)
