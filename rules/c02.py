"""C02 banded alignment — SR-2 (mode wrappers), RI-2 (scratch re-initialisation), TS-1 (band freshness),
GD-1 (cell-budget sentinel)."""
from . import effects, eng_sr, eng_ri, eng_gd
from .c01 import run_sr, run_ri, MIN, tb1b, tb1
from .mirlib import call_info, strip, strip_casts, fmt, norm_cmp

LEVEL = 'proof'
PRE = 'alignment::pairwise::banded::Aligner::<F>::'
WRAPPERS = {
    'global': ('MIN', 'MIN', 'MIN', 'MIN'),
    'semiglobal': ('MIN', 'MIN', 0, 0),
    'semiglobal_with_prehash': ('MIN', 'MIN', 0, 0),
    'local': (0, 0, 0, 0),
}
ENTRY = ['custom', 'custom_with_prehash', 'custom_with_matches', 'custom_with_expanded_matches',
         'custom_with_match_path']
BUFS = ['I', 'D', 'S', 'Lx', 'Ly', 'Sn', 'traceback']


def ts1_band_freshness(facts, rep):
    rule = 'TS-1'
    rep.rule(rule, 'band freshness: compute_alignment is private and called only from the custom* entry points; in '
                   'each, the call is dominated by a whole-field store to self.band whose value is the result of a '
                   'Band::create* call of the same body, and every Band::create* returns a band built by Band::new '
                   '(len x, len y) in that call or by another create*')
    ca = facts.body(PRE + 'compute_alignment')
    if ca is None:
        rep.missing(rule, PRE + 'compute_alignment', 'core routine not found')
        return
    key = PRE + 'compute_alignment|private'
    if ca.raw.get('pub'):
        rep.bad(rule, key, '%s:%s' % (ca.file, ca.line), 'compute_alignment is public: callers outside the crate can '
                                                         'run it on a stale band')
    else:
        rep.ok(rule, key, '%s:%s' % (ca.file, ca.line), 'not public')
    callers = []
    for b in facts.body_list:
        for bb, t in b.calls():
            info = call_info(t)
            if info and info['fn'] == PRE + 'compute_alignment':
                callers.append((b, bb, t))
    rep.floor(rule, 'call sites of compute_alignment', len(callers), 5)
    for b, cbb, t in callers:
        rep.analysed_body(b)
        key = '%s|band-store-dominates-compute' % b.path
        where = b.loc(cbb)
        if b.path not in [PRE + e for e in ENTRY]:
            # an additional caller is fine as long as it obeys the same rule
            pass
        # whole-field stores to self.band in non-cleanup blocks
        stores = []
        for bb in b.reachable(0):
            for i, s in enumerate(b.stmts(bb)):
                if s['k'] == 'assign' and eng_gd.self_field_path(s['p']) == ('band',):
                    stores.append((bb, i, s))
        good_dom = False
        allfresh = True
        why = []
        for bb, i, s in stores:
            r = s['r']
            src = None
            if r['k'] == 'use':
                pl = r['o'].get('m') or r['o'].get('c')
                if pl is not None and 'pj' not in pl:
                    src = pl['l']
            fresh = False
            if src is not None:
                d, _ = b.defs()
                defs = d.get(src, [])
                fresh = bool(defs) and all(
                    df[0] == 'call' and call_info(df[2]) and
                    call_info(df[2])['fn'].startswith('alignment::pairwise::banded::Band::create')
                    for df in defs)
            if not fresh:
                allfresh = False
                why.append('store at %s is not the result of Band::create*' % b.loc(bb, i))
            elif bb == cbb or b.dominates(bb, cbb):
                good_dom = True
        # any other way self.band could change between store and call: &mut self.band passed somewhere
        if not stores:
            rep.bad(rule, key, where, 'compute_alignment is called without (re)building self.band in this entry point')
        elif not allfresh:
            rep.bad(rule, key, where, '; '.join(why))
        elif not good_dom:
            rep.bad(rule, key, where, 'no store of a freshly created band dominates the call of compute_alignment '
                                      '(some path reuses the band of an earlier call)')
        else:
            rep.ok(rule, key, where, 'self.band = Band::create*(..) dominates the call')
    # Band::create* return fresh bands
    creates = facts.find(r'^alignment::pairwise::banded::Band::create')
    rep.floor(rule, 'Band::create* bodies', len(creates), 4)
    for b in creates:
        rep.analysed_body(b)
        key = '%s|returns-fresh-band' % b.path
        d, _ = b.defs()
        # _0 definitions: every def of _0 must come from Band::new(len(x), len(y)) local or a create* call
        ok = True
        why = ''
        srcs = []
        work = [0]
        seen = set()
        while work:
            l = work.pop()
            if l in seen:
                continue
            seen.add(l)
            for df in d.get(l, []):
                if df[0] == 'call':
                    srcs.append(df[2])
                elif df[0] == 'stmt' and df[3]['r']['k'] == 'use':
                    pl = df[3]['r']['o'].get('m') or df[3]['r']['o'].get('c')
                    if pl is not None and 'pj' not in pl:
                        work.append(pl['l'])
                    else:
                        ok = False
                        why = 'return value built from %s' % df[3].get('d')
                else:
                    ok = False
                    why = 'return value has a definition that is neither a call nor a move'
        if not srcs:
            ok = False
            why = why or 'no constructor call reaches the return value'
        for t in srcs:
            info = call_info(t)
            fn = info['fn'] if info else '?'
            if fn.startswith('alignment::pairwise::banded::Band::create'):
                continue
            if fn == 'alignment::pairwise::banded::Band::new':
                a = [fmt(strip_casts(b.expr_operand(x, inline_user=True))) for x in t['args']]
                n1 = b.local_name(1)
                n2 = b.local_name(2)
                if not (a[0].endswith('len(%s)' % n1) and a[1].endswith('len(%s)' % n2)):
                    ok = False
                    why = 'Band::new(%s) is not sized (len(%s), len(%s))' % (', '.join(a), n1, n2)
                continue
            ok = False
            why = 'returned band comes from %s' % fn
        if ok:
            rep.ok(rule, key, '%s:%s' % (b.file, b.line), 'built by Band::new(len x, len y) or delegated to create*')
        else:
            rep.bad(rule, key, '%s:%s' % (b.file, b.line), why)


def gd1_budget(facts, rep):
    rule = 'GD-1'
    rep.rule(rule, 'cell-budget sentinel: in compute_alignment the edge on which MAX_CELLS < num_cells(self.band) '
                   'holds leads only to a return of Alignment{score: MIN_SCORE, coordinates 0, operations: Vec::new()} '
                   'and touches no DP state; every block touching DP state is dominated by the opposite edge')
    b = facts.body(PRE + 'compute_alignment')
    if b is None:
        rep.missing(rule, PRE + 'compute_alignment', 'core routine not found')
        return
    rep.analysed_body(b)
    want = ('Lt', 'MAX_CELLS', 'Band::num_cells(self.band)')
    es = eng_gd.edges_where(b, lambda c: c == want)
    key = PRE + 'compute_alignment|budget-guard'
    if len(es) != 1:
        rep.bad(rule, key, '%s:%s' % (b.file, b.line),
                'expected exactly one guard `num_cells(self.band) > MAX_CELLS`, found %d (guards seen: %s)' % (
                    len(es), [g['text'] for g in eng_gd.guards(b)][:4]))
        return
    gbb, over, _c, within = es[0]
    mc = facts.const_value('alignment::pairwise::banded::MAX_CELLS')
    rep.ok(rule, key, b.loc(gbb), 'guard found; MAX_CELLS = %s' % mc)
    if b.pred[gbb] and gbb != 0 and not all(b.dominates(gbb, x) for x in b.reachable(0) if x != gbb and
                                            not b.dominates(x, gbb)):
        pass
    # (a) the guard is evaluated before any DP state is touched: no touching block precedes it
    touch = eng_gd.blocks_touching_self_fields(b, set(BUFS))
    key = PRE + 'compute_alignment|dp-state-dominated-by-within-budget-edge'
    bad = [bb for bb in touch if not b.edge_dominates((gbb, within), bb)]
    if bad:
        rep.bad(rule, key, b.loc(sorted(bad)[0]),
                'DP state %s is touched in bb%d which is not dominated by the within-budget edge' % (
                    sorted(touch[sorted(bad)[0]]), sorted(bad)[0]))
    else:
        rep.ok(rule, key, b.loc(gbb), '%d blocks touch DP state, all behind the within-budget edge' % len(touch))
    # (b) over-budget region: returns the sentinel
    reg = eng_gd.region(b, over)
    key = PRE + 'compute_alignment|over-budget-returns-sentinel'
    if within in reg:
        rep.bad(rule, key, b.loc(gbb), 'the over-budget edge can reach the DP code')
        return
    rets = [x for x in reg if b.term(x)['k'] == 'return']
    aggs = []
    for x in reg:
        for s in b.stmts(x):
            if s['k'] == 'assign' and 'pj' not in s['p'] and s['p']['l'] == 0:
                aggs.append((x, s))
    if not rets or len(aggs) != 1:
        rep.bad(rule, key, b.loc(over), 'over-budget region has %d returns and %d assignments of the return value' % (
            len(rets), len(aggs)))
        return
    x, s = aggs[0]
    e = strip(b.expr_rvalue(s['r'], inline_user=True))
    ok = e[0] == 'agg' and e[2].endswith('Alignment::Alignment')
    why = []
    if ok:
        fields = dict(zip(e[4], e[3]))
        sc = fields.get('score')
        if not (sc and sc[0] == 'const' and sc[3] and sc[3].endswith('MIN_SCORE')):
            why.append('score is %s, not MIN_SCORE' % fmt(sc))
        for f in ('xstart', 'ystart', 'xend', 'yend', 'xlen', 'ylen'):
            v = fields.get(f)
            if not (v and v[0] == 'const' and v[1] == 0):
                why.append('%s is %s, not 0' % (f, fmt(v)))
        ops = fields.get('operations')
        if not (ops and ops[0] == 'call' and ops[1].endswith('Vec::<T>::new') and not ops[2]):
            why.append('operations is %s, not Vec::new()' % fmt(ops))
    else:
        why.append('return value is not an Alignment literal: %s' % fmt(e))
    if why:
        rep.bad(rule, key, b.loc(x), '; '.join(why))
    else:
        rep.ok(rule, key, b.loc(x), fmt(e))


def run(facts, rep, ctx):
    r = run_sr(facts, rep, 'SR-2', PRE, WRAPPERS,
               lambda fn: fn in (PRE + 'custom', PRE + 'custom_with_prehash'), MIN, ('scoring',))
    if r:
        rep.floor('SR-2', 'restore obligations', r[0], 16)
        rep.floor('SR-2', 'mode-table call sites', r[1], 4)
    eff = effects.Effects(facts)
    for e in ENTRY + ['compute_alignment']:
        b = facts.body(PRE + e)
        if b is None:
            rep.missing('SR-2', PRE + e, 'entry point not found')
            continue
        rep.analysed_body(b)
        w = eff.param_writes(b, 1)
        badw = sorted(p for p in w if effects.path_related(effects.clean(p), ('scoring',)))
        key = PRE + e + '|writes-scoring'
        if badw:
            rep.bad('SR-2', key, '%s:%s' % (b.file, b.line), 'may write self.%s' % ', self.'.join(
                '.'.join(p) for p in badw))
        else:
            rep.ok('SR-2', key, '%s:%s' % (b.file, b.line), 'never writes self.scoring')
    run_ri(facts, rep, 'RI-2', PRE + 'compute_alignment', 'alignment::pairwise::banded::Aligner', 12)
    ts1_band_freshness(facts, rep)
    gd1_budget(facts, rep)
    tb1b(facts, rep, 'TB-1b', PRE + 'compute_alignment')
    tb1(facts, rep, 'TB-1', PRE + 'compute_alignment')


_run_before_round2 = run


def run(facts, rep, ctx):
    """rules added after the second round of independent seeding (rules/round2.py)"""
    _run_before_round2(facts, rep, ctx)
    from . import round2
    round2.ao1(facts, rep, 'alignment::pairwise::banded::Aligner::<F>::compute_alignment')



_run_before_round6 = run


def run(facts, rep, ctx):
    """rules added after the fifth seeding round (rules/round6.py)"""
    _run_before_round6(facts, rep, ctx)
    from . import round6
    round6.cf2(facts, rep, ['alignment::pairwise::', 'alignment::sparse::'], 100)
    round6.cl1(facts, rep, ['alignment::pairwise::banded::Aligner'])
