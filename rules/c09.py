"""C09 approximate matchers — RI-3 (Ukkonen reuses its two DP columns: both are reset in every find_all_end before the
iterator is created) and EF-2 (Myers non-traceback API cannot change the matcher: reuse independence)."""
from . import eng_ri
from .mirlib import call_info

LEVEL = 'proof'
UK = 'pattern_matching::ukkonen::Ukkonen'


def ri3(facts, rep):
    rule = 'RI-3'
    rep.rule(rule, 'per-call re-initialisation: in Ukkonen::find_all_end the first mention of each reused DP column D[0], '
                   'D[1] on every path is Vec::clear (followed by the refill), and the Matches iterator is only built '
                   'afterwards')
    b = facts.method(UK, 'find_all_end')
    if b is None:
        rep.missing(rule, UK + '::find_all_end', 'not found')
        return
    rep.analysed_body(b)
    bufs = eng_ri.buffers_from_adt(facts, UK, ['D'])
    rep.floor(rule, 'reused columns', len(bufs), 2)
    ri = eng_ri.RI(facts, b, bufs, peel=False).run()
    bad = {}
    for bid, bb, what in ri.violations:
        bad.setdefault(bid, []).append(what)
    resets = {}
    for bid, bb, how in ri.resets:
        resets.setdefault(bid, []).append(how)
    for bid in sorted(bufs):
        key = 'Ukkonen::find_all_end|first-touch-is-reset|self.%s' % bid
        if bid in bad:
            rep.bad(rule, key, '%s:%s' % (b.file, b.line), 'column self.%s is used before it is cleared: %s' % (bid, bad[bid][0]))
        elif bid not in resets:
            rep.bad(rule, key, '%s:%s' % (b.file, b.line), 'column self.%s is never cleared in find_all_end: values of the '
                                                           'previous search (other pattern length / k) leak into this one' % bid)
        else:
            rep.ok(rule, key, '%s:%s' % (b.file, b.line), resets[bid][0])
    # each column is refilled after the clear
    ext = {}
    for bb, t in b.calls():
        info = call_info(t)
        if info and info['fn'].endswith('Extend::extend'):
            sp = ri.arg_self_ref(t['args'][0], 3)
            if sp:
                ext[sp] = bb
    for bid, bp in sorted(bufs.items()):
        key = 'Ukkonen::find_all_end|refilled|self.%s' % bid
        if tuple(bp) in ext:
            rep.ok(rule, key, b.loc(ext[tuple(bp)]), 'extend after clear')
        else:
            rep.bad(rule, key, '%s:%s' % (b.file, b.line), 'column self.%s is cleared but not refilled' % bid)
    # Matches::next never clears / replaces the columns (it only reads and writes cells)
    nxt = facts.method('pattern_matching::ukkonen::Matches', 'next', 'Iterator')
    key = 'ukkonen::Matches::next|does-not-resize-columns'
    if nxt is None:
        rep.missing(rule, key, 'not found')
    else:
        rep.analysed_body(nxt)
        resize = [call_info(t)['fn'] for _bb, t in nxt.calls() if call_info(t) and
                  call_info(t)['fn'].rsplit('::', 1)[-1] in ('clear', 'truncate', 'push', 'resize', 'extend', 'pop')]
        if resize:
            rep.bad(rule, key, '%s:%s' % (nxt.file, nxt.line), 'next() changes the column length via %s' % resize)
        else:
            rep.ok(rule, key, '%s:%s' % (nxt.file, nxt.line), 'cells only')


def ef2(facts, rep):
    rule = 'EF-2'
    rep.rule(rule, 'reuse independence of the Myers non-traceback API: distance, find_all_end and find_best_end (single-word '
                   'and block-based instantiations of impl_myers!) take &self, the Myers types are Freeze, and the per-search '
                   'state is a fresh value; the traceback entry points find_all / find_all_lazy take &mut self and go '
                   'through Traceback::new which re-initialises the shared state store (C10/TS-5)')
    n = 0
    for mod in ('simple', 'long'):
        adt = facts.adts.get('pattern_matching::myers::%s::Myers' % mod)
        key = 'myers::%s::Myers|type-is-freeze' % mod
        if adt is None:
            rep.missing(rule, key, 'type not found')
            continue
        if facts.adt_freeze('pattern_matching::myers::%s::Myers' % mod):
            rep.ok(rule, key, '%s:%s' % (adt['file'], adt['line']), 'no interior mutability')
        else:
            rep.bad(rule, key, '%s:%s' % (adt['file'], adt['line']), 'Myers has interior mutability: &self searches can carry state')
        for nm in ('distance', 'find_all_end', 'find_best_end'):
            b = facts.one(r'^pattern_matching::myers::%s::myers_impl::<impl pattern_matching::myers::%s::Myers<T>>::%s$' % (mod, mod, nm))
            key = 'myers::%s::Myers::%s|shared-self' % (mod, nm)
            if b is None:
                rep.missing(rule, key, 'not found')
                continue
            n += 1
            rep.analysed_body(b)
            if b.raw.get('self_kind') == 'ref':
                rep.ok(rule, key, '%s:%s' % (b.file, b.line), '&self')
            else:
                rep.bad(rule, key, '%s:%s' % (b.file, b.line), '%s takes %s self: a search may modify the matcher' % (nm, b.raw.get('self_kind')))
    rep.floor(rule, 'non-traceback entry points (2 instantiations)', n, 6)


def run(facts, rep, ctx):
    ri3(facts, rep)
    ef2(facts, rep)
