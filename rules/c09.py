"""C09 approximate matchers — RI-3 (Ukkonen reuses its two DP columns: both are reset in every find_all_end before the
iterator is created) and EF-2 (Myers non-traceback API cannot change the matcher: reuse independence)."""
from . import eng_ri
from .mirlib import call_info

LEVEL = 'proof'
UK = 'pattern_matching::ukkonen::Ukkonen'


def ri3(facts, rep):
    rule = 'RI-3'
    rep.rule(rule, 'per-call re-initialisation: in Ukkonen::find_all_end the first mention of each reused DP column D[0], '
                   'D[1] on every path is Vec::clear (followed by the refill), and the Matches iterator is only built '
                   'afterwards')
    b = facts.method(UK, 'find_all_end')
    if b is None:
        rep.missing(rule, UK + '::find_all_end', 'not found')
        return
    rep.analysed_body(b)
    bufs = eng_ri.buffers_from_adt(facts, UK, ['D'])
    rep.floor(rule, 'reused columns', len(bufs), 2)
    ri = eng_ri.RI(facts, b, bufs, peel=False).run()
    bad = {}
    for bid, bb, what in ri.violations:
        bad.setdefault(bid, []).append(what)
    resets = {}
    for bid, bb, how in ri.resets:
        resets.setdefault(bid, []).append(how)
    for bid in sorted(bufs):
        key = 'Ukkonen::find_all_end|first-touch-is-reset|self.%s' % bid
        if bid in bad:
            rep.bad(rule, key, '%s:%s' % (b.file, b.line), 'column self.%s is used before it is cleared: %s' % (bid, bad[bid][0]))
        elif bid not in resets:
            rep.bad(rule, key, '%s:%s' % (b.file, b.line), 'column self.%s is never cleared in find_all_end: values of the '
                                                           'previous search (other pattern length / k) leak into this one' % bid)
        else:
            rep.ok(rule, key, '%s:%s' % (b.file, b.line), resets[bid][0])
    # each column is refilled after the clear
    ext = {}
    for bb, t in b.calls():
        info = call_info(t)
        if info and (info['fn'].endswith('Extend::extend') or info['fn'].rsplit('::', 1)[-1] in (
                'resize', 'resize_with', 'extend_from_slice', 'extend_from_within')):
            sp = ri.arg_self_ref(t['args'][0], 3)
            if sp:
                ext[sp] = bb
    for bid, bp in sorted(bufs.items()):
        key = 'Ukkonen::find_all_end|refilled|self.%s' % bid
        if tuple(bp) in ext:
            rep.ok(rule, key, b.loc(ext[tuple(bp)]), 'extend / resize after clear')
        else:
            rep.bad(rule, key, '%s:%s' % (b.file, b.line), 'column self.%s is cleared but not refilled' % bid)
    # Matches::next never clears / replaces the columns (it only reads and writes cells)
    nxt = facts.method('pattern_matching::ukkonen::Matches', 'next', 'Iterator')
    key = 'ukkonen::Matches::next|does-not-resize-columns'
    if nxt is None:
        rep.missing(rule, key, 'not found')
    else:
        rep.analysed_body(nxt)
        resize = [call_info(t)['fn'] for _bb, t in nxt.calls() if call_info(t) and
                  call_info(t)['fn'].rsplit('::', 1)[-1] in ('clear', 'truncate', 'push', 'resize', 'extend', 'pop')]
        if resize:
            rep.bad(rule, key, '%s:%s' % (nxt.file, nxt.line), 'next() changes the column length via %s' % resize)
        else:
            rep.ok(rule, key, '%s:%s' % (nxt.file, nxt.line), 'cells only')


def ef2(facts, rep):
    rule = 'EF-2'
    rep.rule(rule, 'reuse independence of the Myers non-traceback API: distance, find_all_end and find_best_end (single-word '
                   'and block-based instantiations of impl_myers!) take &self, the Myers types are Freeze, and the per-search '
                   'state is a fresh value; the traceback entry points find_all / find_all_lazy take &mut self and go '
                   'through Traceback::new which re-initialises the shared state store (C10/TS-5)')
    n = 0
    for mod in ('simple', 'long'):
        adt = facts.adts.get('pattern_matching::myers::%s::Myers' % mod)
        key = 'myers::%s::Myers|type-is-freeze' % mod
        if adt is None:
            rep.missing(rule, key, 'type not found')
            continue
        if facts.adt_freeze('pattern_matching::myers::%s::Myers' % mod):
            rep.ok(rule, key, '%s:%s' % (adt['file'], adt['line']), 'no interior mutability')
        else:
            rep.bad(rule, key, '%s:%s' % (adt['file'], adt['line']), 'Myers has interior mutability: &self searches can carry state')
        for nm in ('distance', 'find_all_end', 'find_best_end'):
            b = facts.one(r'^pattern_matching::myers::%s::myers_impl::<impl pattern_matching::myers::%s::Myers<T>>::%s$' % (mod, mod, nm))
            key = 'myers::%s::Myers::%s|shared-self' % (mod, nm)
            if b is None:
                rep.missing(rule, key, 'not found')
                continue
            n += 1
            rep.analysed_body(b)
            if b.raw.get('self_kind') == 'ref':
                rep.ok(rule, key, '%s:%s' % (b.file, b.line), '&self')
            else:
                rep.bad(rule, key, '%s:%s' % (b.file, b.line), '%s takes %s self: a search may modify the matcher' % (nm, b.raw.get('self_kind')))
    rep.floor(rule, 'non-traceback entry points (2 instantiations)', n, 6)


PO5_AUDIT = {
    'pattern_matching::myers::helpers::word_size|overflow-mul|8,mem::size_of()':
        'size_of of a machine word type (<= 16) times 8',
    'pattern_matching::myers::helpers::ceil_div|remzero|arg1':
        'callers pass y = word_size::<T>() >= 8',
    'pattern_matching::myers::helpers::ceil_div|overflow-add|1,Div(arg1,arg2)':
        'x / y + 1 <= x for y >= 2 (word size >= 8)',
    'pattern_matching::myers::long::States::<T>::new|overflow-sub|helpers::ceil_div(arg1,helpers::word_size()),1':
        'm >= 1 is asserted by Myers::new (non-empty pattern), so ceil_div(m, w) >= 1',
    'pattern_matching::myers::long::States::<T>::new|remzero|arg1':
        'w = word_size::<T>() >= 8',
    'pattern_matching::myers::long::States::<T>::add_state|unwrap|unwrap(ToPrimitive>::to_usize(num::wrapping_add(arg2,num::wrapping_add(x0,x1))))<usize>':
        'usize::to_usize is the identity and always Some',
    'pattern_matching::myers::long::States::<T>::step|overflow-sub|Vec::len(arg1.states),1':
        'States::new adds at least one block (min_blocks >= 1) and step truncates to last_block + 1 >= 1',
    'pattern_matching::myers::long::States::<T>::step|index|index(arg1.states,x0)<std::vec::Vec<pattern_matching::myers::myers_impl::State<T, usize>>>':
        'last_block < states.len(): it starts at len - 1, is incremented only together with add_state and decremented only while > 0',
    'pattern_matching::myers::long::States::<T>::step|overflow-sub|Index<I>>::index(arg1.states,x0).dist,x1':
        'isize difference of a block distance (<= pattern length + text position) and a carry in {-1,0,1}',
    'pattern_matching::myers::long::States::<T>::step|bounds|idx=P[1 + x0].0,len=PtrMetadata(arg3)':
        'guarded by last_block < self.max_block and peq has max_block + 1 entries (one per block)',
    'pattern_matching::myers::long::States::<T>::step|overflow_neg|x0':
        'carry is in {-1, 0, 1}',
    'pattern_matching::myers::long::States::<T>::step|index|index_mut(arg1.states,x0)<std::vec::Vec<pattern_matching::myers::myers_impl::State<T, usize>>>':
        'add_state just pushed block last_block',
    'pattern_matching::myers::long::States::<T>::step|bounds|idx=x0,len=PtrMetadata(arg3)':
        'last_block <= max_block after the increment, peq has max_block + 1 entries',
}


def po5(facts, rep):
    from . import eng_po
    rule = 'PO-5'
    rep.rule(rule, 'panic / word-width obligations of the block-based Myers column update (long::States::{new,add_state,step}, '
                   'advance_block, helpers::{ceil_div,word_size}): every MIR Assert and may-panic call is discharged by interval '
                   'analysis or audited; in particular arithmetic on the caller-supplied max_dist must not overflow, because '
                   'distance()/find_best_end() pass the maximum of the distance type')
    total = 0
    bodies = [b for b in facts.body_list if b.path.startswith(('pattern_matching::myers::long::States::<T>::',
                                                               'pattern_matching::myers::long::advance_block',
                                                               'pattern_matching::myers::helpers::ceil_div',
                                                               'pattern_matching::myers::helpers::word_size'))]
    rep.floor(rule, 'bodies', len(bodies), 5)
    from .po_known import KNOWN
    for b, nb, ia, obs in eng_po.scan(facts, bodies, KNOWN):
        rep.analysed_body(b)
        seen = {}
        for o in obs:
            total += 1
            key = '%s|%s|%s' % (b.path, o['kind'], o['ops'])
            seen[key] = seen.get(key, 0) + 1
            k2 = key + ('#%d' % seen[key] if seen[key] > 1 else '')
            if o['discharged']:
                rep.ok(rule, k2, o['where'], 'interval analysis')
            elif key in PO5_AUDIT:
                rep.audited(rule, k2, o['where'], PO5_AUDIT[key])
            elif eng_po.orphan_match(key, PO5_AUDIT, set(facts.bodies) | {'QGramIndex::' + b_.name for b_ in facts.body_list}):
                k0 = eng_po.orphan_match(key, PO5_AUDIT, set(facts.bodies) | {'QGramIndex::' + b_.name for b_ in facts.body_list})
                rep.audited(rule, k2, o['where'], 'arithmetic of the removed function %s, now written in its caller: %s' % (k0.split('|')[0], PO5_AUDIT[k0]))
            elif eng_po.implied(key, PO5_AUDIT, o):
                rep.audited(rule, k2, o['where'], eng_po.implied(key, PO5_AUDIT, o)[1])
            else:
                rep.bad(rule, key, o['where'], 'undischarged %s obligation: %s' % (o['kind'], o['detail']))
    rep.floor(rule, 'obligations', total, 15)


def run(facts, rep, ctx):
    ri3(facts, rep)
    ef2(facts, rep)
    if ctx.get('flavor') != 'nochk':
        po5(facts, rep)


_run_before_round2 = run


def run(facts, rep, ctx):
    """rules added after the second round of independent seeding (rules/round2.py)"""
    _run_before_round2(facts, rep, ctx)
    from . import round2
    round2.sb11(facts, rep)


_run_before_round4 = run


def run(facts, rep, ctx):
    """rules added after the third seeding round (rules/round4.py)"""
    _run_before_round4(facts, rep, ctx)
    from . import round4
    round4.cf1(facts, rep)
    round4.tb12(facts, rep)



_run_before_round5 = run


def run(facts, rep, ctx):
    """rules added after the fourth seeding round (rules/round5.py)"""
    _run_before_round5(facts, rep, ctx)
    from . import round5
    if ctx.get('flavor') != 'nochk':
        round5.po10(facts, rep)
    round5.pq1(facts, rep)


_run_before_round6 = run


def run(facts, rep, ctx):
    """rules added after the fifth seeding round (rules/round6.py)"""
    _run_before_round6(facts, rep, ctx)
    from . import round6
    round6.cf2(facts, rep, ['pattern_matching::myers::', 'pattern_matching::ukkonen::', 'alignment::distance::'], 150)
    round6.dl1(facts, rep)
