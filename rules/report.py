"""Report: collects obligations / violations of one property check, applies the known-findings file, writes the
evidence file and prints the VIOLATION / KNOWN-FINDING lines."""
import json
import os
import re
import time

VERIF = os.path.dirname(os.path.dirname(os.path.abspath(__file__)))
KNOWN = os.path.join(VERIF, 'known_findings.txt')
EVDIR = os.environ.get('VERIF_EVIDENCE_DIR') or os.path.join(VERIF, 'evidence')


def load_known():
    """lines:  finding: property=<id> key=<key> :: <text>     |    fixed: property=<id> <commit> <text>"""
    known = {}
    fixed = []
    if not os.path.exists(KNOWN):
        return known, fixed
    for ln in open(KNOWN):
        ln = ln.strip()
        if not ln or ln.startswith('#'):
            continue
        m = re.match(r'finding:\s+property=(\S+)\s+key=(.+?)\s+::\s+(.*)$', ln)
        if m:
            known[(m.group(1), m.group(2))] = m.group(3)
            continue
        m = re.match(r'fixed:\s+property=(\S+)\s+(\S+)\s+(.*)$', ln)
        if m:
            fixed.append((m.group(1), m.group(2), m.group(3)))
    return known, fixed


class Report:
    def __init__(self, pid, tier, level):
        self.pid = pid
        self.tier = tier
        self.level = level
        self.t0 = time.time()
        self.obligations = []      # dicts: rule, key, where, status, why
        self.notes = []
        self.rules = {}            # rule -> description
        self.assumptions = []
        self.trusted = []
        self.analysed = {'bodies': set(), 'call_sites': 0}
        self.extra = {}

    def rule(self, rid, text):
        self.rules[rid] = text

    def assume(self, text):
        if text not in self.assumptions:
            self.assumptions.append(text)

    def trust(self, text):
        if text not in self.trusted:
            self.trusted.append(text)

    def analysed_body(self, body):
        self.analysed['bodies'].add(body.path if hasattr(body, 'path') else str(body))

    def ok(self, rule, key, where='', why=''):
        self.obligations.append({'rule': rule, 'key': key, 'where': where, 'status': 'discharged', 'why': why})

    def audited(self, rule, key, where='', why=''):
        self.obligations.append({'rule': rule, 'key': key, 'where': where, 'status': 'audited', 'why': why})

    def bad(self, rule, key, where='', why=''):
        self.obligations.append({'rule': rule, 'key': key, 'where': where, 'status': 'violation', 'why': why})

    def missing(self, rule, key, why=''):
        """fail closed: an anchor the rule needs was not found"""
        self.obligations.append({'rule': rule, 'key': 'anchor-missing:' + key, 'where': '', 'status': 'violation',
                                 'why': 'anchor missing: ' + why})

    def floor(self, rule, what, have, need):
        if have < need:
            self.missing(rule, what, '%s: found %d instance(s), confirmed floor is %d' % (what, have, need))
        else:
            self.notes.append('%s floor %s: %d >= %d' % (rule, what, have, need))

    def finish(self, seed=0, facts_info=None):
        known, fixed = load_known()
        viol = []
        knownhits = []
        for o in self.obligations:
            if o['status'] == 'violation':
                k = (self.pid, '%s|%s' % (o['rule'], o['key']))
                if k in known:
                    o['status'] = 'known-finding'
                    knownhits.append((o, known[k]))
                else:
                    viol.append(o)
        n_ob = len(self.obligations)
        n_dis = sum(1 for o in self.obligations if o['status'] in ('discharged', 'audited'))
        samples = []
        per_rule = {}
        for o in self.obligations:
            c = per_rule.get(o['rule'], 0)
            if c < 3 or o['status'] not in ('discharged',):
                per_rule[o['rule']] = c + 1
                samples.append({k: o[k] for k in ('rule', 'key', 'where', 'status', 'why')})
            if len(samples) >= 60:
                break
        distinct = len({(o['rule'], o['key']) for o in self.obligations})
        cov = {
            'obligations': n_ob,
            'discharged': n_dis,
            'evaluations': n_ob,
            'distinct_nontrivial': distinct,
            'rule': 'one obligation per (rule, instance key) enumerated from the MIR of the current /repo tree; '
                    'distinct = distinct (rule,key) pairs',
            'checker_cmd': './bin/check %s --tier %s' % (self.pid, self.tier),
            'trusted_base': ['rustc nightly MIR construction and type checker (mir_built)',
                             '/verif/driver fact extractor', '/verif/rules engines'] + self.trusted,
            'explanation': 'static rules over type-checked MIR: ' + '; '.join(
                '%s: %s' % (k, v) for k, v in sorted(self.rules.items())),
            'samples': samples,
            'exhaustive': True,
            'rules': self.rules,
            'bodies_analysed': sorted(self.analysed['bodies']),
            'n_bodies_analysed': len(self.analysed['bodies']),
            'audited': sum(1 for o in self.obligations if o['status'] == 'audited'),
            'known_findings_matched': len(knownhits),
            'notes': self.notes,
            'facts': facts_info or {},
        }
        cov.update(self.extra)
        ev = {
            'property_id': self.pid,
            'tier': self.tier,
            'seed': int(seed),
            'level': self.level,
            'coverage': cov,
            'assumptions': self.assumptions,
            'wall_s': round(time.time() - self.t0, 3),
            'violations': len(viol),
        }
        os.makedirs(EVDIR, exist_ok=True)
        with open(os.path.join(EVDIR, self.pid + '.json'), 'w') as f:
            json.dump(ev, f, indent=1, default=str)
        for o, text in knownhits:
            print('KNOWN-FINDING: property=%s %s [%s|%s] %s' % (self.pid, text, o['rule'], o['key'], o['where']))
        rp = os.path.join(EVDIR, self.pid + '.violation.json')
        if viol:
            with open(rp, 'w') as f:
                json.dump({'property_id': self.pid, 'violations': viol}, f, indent=1, default=str)
            for o in viol:
                print('  %s — rule %s — %s — %s' % (o['where'] or '-', o['rule'], o['key'], o['why']))
            print('VIOLATION property=%s replay=%s' % (self.pid, rp))
            return 1
        if os.path.exists(rp):
            os.remove(rp)
        print('OK property=%s tier=%s obligations=%d discharged=%d audited=%d known=%d bodies=%d wall=%.1fs' % (
            self.pid, self.tier, n_ob, n_dis, cov['audited'], len(knownhits), cov['n_bodies_analysed'], ev['wall_s']))
        return 0
