"""C01 pairwise alignment — clauses decided: SR-1 (clip penalties restored / mode table), EF side condition,
RI-1 (scratch buffers re-initialised per call), TB-1 (traceback move-code labelling)."""
import re
from . import eng_sr, effects
from .mirlib import short

LEVEL = 'proof'
MIN = 'alignment::pairwise::MIN_SCORE'
WRAPPERS = {
    'global': ('MIN', 'MIN', 'MIN', 'MIN'),
    'semiglobal': ('MIN', 'MIN', 0, 0),
    'local': (0, 0, 0, 0),
}
CLIPS = ('xclip_prefix', 'xclip_suffix', 'yclip_prefix', 'yclip_suffix')


def mode_table(facts, spec, minconst=MIN):
    mn = facts.const_value(minconst)
    return {f: (mn if v == 'MIN' else v) for f, v in zip(CLIPS, spec)}


def run_sr(facts, rep, rule, prefix, wrappers, core_pred, minconst, scoring_path):
    eff = effects.Effects(facts)
    rep.rule(rule, 'symbolic save/restore: every self field a mode wrapper overwrites holds its entry value at every '
                   'return, and holds the documented mode constant at the call of the core routine; the core routine '
                   'and its callees never write those fields')
    mn = facts.const_value(minconst)
    if mn is None:
        rep.missing(rule, minconst, 'const MIN_SCORE not found/evaluated')
        return
    nrest = 0
    nsites = 0
    for name, spec in wrappers.items():
        body = facts.body(prefix + name)
        if body is None:
            rep.missing(rule, prefix + name, 'wrapper body not found')
            continue
        n, s, stored = eng_sr.check_wrapper(rep, rule, body, facts, eff, core_pred, mode_table(facts, spec, minconst),
                                            restore_prefix=scoring_path)
        nrest += n
        nsites += s
        # the four clip fields must be among the stored (otherwise the wrapper no longer sets the mode)
    return nrest, nsites


def run(facts, rep, ctx):
    pre = 'alignment::pairwise::Aligner::<F>::'
    r = run_sr(facts, rep, 'SR-1', pre, WRAPPERS, lambda fn: fn == pre + 'custom', MIN, ('scoring',))
    if r:
        rep.floor('SR-1', 'restore obligations', r[0], 12)
        rep.floor('SR-1', 'mode-table call sites', r[1], 3)
    # EF side condition: custom never writes self.scoring.*
    eff = effects.Effects(facts)
    custom = facts.body(pre + 'custom')
    if custom is None:
        rep.missing('SR-1', pre + 'custom', 'core routine not found')
    else:
        rep.analysed_body(custom)
        w = eff.param_writes(custom, 1)
        badw = sorted(p for p in w if effects.path_related(effects.clean(p), ('scoring',)))
        key = pre + 'custom|writes-scoring'
        if badw:
            rep.bad('SR-1', key, '%s:%s' % (custom.file, custom.line),
                    'core routine may write self.%s' % ', self.'.join('.'.join(p) for p in badw))
        else:
            rep.ok('SR-1', key, '%s:%s' % (custom.file, custom.line),
                   'write set of custom through self: %s' % sorted({effects.clean(p)[:1] for p in w}))


def run_ri(facts, rep, rule, body_path, adt_path, floor_buffers, tb_sub=('matrix', 'rows', 'cols')):
    from . import eng_ri
    rep.rule(rule, 'per-call re-initialisation: on every path of the core routine the first mention of each reused '
                   'scratch buffer of the aligner object is a reset (Vec::clear, whole-field assignment, or a local '
                   'callee whose verified summary resets it); the literal `for k in 0..2` loop is analysed per '
                   'iteration')
    body = facts.body(body_path)
    if body is None:
        rep.missing(rule, body_path, 'core routine not found')
        return
    rep.analysed_body(body)
    bufs = eng_ri.buffers_from_adt(facts, adt_path, ['I', 'D', 'S', 'Lx', 'Ly', 'Sn', 'traceback'],
                                   sub={'traceback': list(tb_sub)})
    rep.floor(rule, 'reused buffers of %s' % adt_path, len(bufs), floor_buffers)
    ri = eng_ri.RI(facts, body, bufs).run()
    bad = {}
    for bid, bb, what in ri.violations:
        bad.setdefault(bid, []).append(what)
    resets = {}
    for bid, bb, how in ri.resets:
        resets.setdefault(bid, []).append(how)
    for bid in sorted(bufs):
        key = '%s|first-touch-is-reset|self.%s' % (body.path, bid)
        if bid in bad:
            rep.bad(rule, key, '%s:%s' % (body.file, body.line),
                    'buffer self.%s is used before it is reset in this call: %s' % (bid, '; '.join(bad[bid][:3])))
        elif bid not in resets:
            rep.bad(rule, key, '%s:%s' % (body.file, body.line),
                    'buffer self.%s is never reset in this call' % bid)
        else:
            rep.ok(rule, key, '%s:%s' % (body.file, body.line), resets[bid][0])
    rep.extra.setdefault('ri', {})[body.path] = {'product_nodes': ri.nodes, 'touches': ri.touches,
                                                  'peeled_loop': bool(ri.loop),
                                                  'loop_range': [ri.loop.a, ri.loop.b] if ri.loop else None}


_run_sr_only = run


def run(facts, rep, ctx):
    _run_sr_only(facts, rep, ctx)
    # the unbanded DP rewrites every traceback cell before the traceback reads it, so for C01 clearing the matrix is
    # sufficient but not necessary for history independence: only its dimensions are claimed here (C02 claims the cells)
    run_ri(facts, rep, 'RI-1', 'alignment::pairwise::Aligner::<F>::custom', 'alignment::pairwise::Aligner', 11,
           tb_sub=('rows', 'cols'))


# --------------------------------------------------------------------------- TB-1b

def innermost_guard(b, bb):
    """(switch block, target) of the innermost conditional edge controlling bb, or None"""
    x = bb
    seen = set()
    while x not in seen:
        seen.add(x)
        ps = [p for p in b.pred[x] if p in b.reachable(0)]
        if len(ps) != 1:
            return None
        p = ps[0]
        if b.term(p)['k'] == 'switch':
            return (p, x)
        x = p
    return None


def tb1b(facts, rep, rule, body_path):
    """score/traceback co-update in the fix-up passes after the main DP"""
    from .mirlib import call_info
    from . import eng_ri
    rep.rule(rule, 'score / traceback co-update: after the main DP loop (where cells have already been stored with '
                   'Traceback::set) every store of a value other than MIN_SCORE into a score column S, I or D is accompanied, '
                   'in the straight-line part of the region controlled by its innermost guard, by set_{s,i,d}_bits on '
                   'traceback.get_mut(..) for the same layer - otherwise the reported score and the traced path diverge')
    b = facts.body(body_path)
    if b is None:
        rep.missing(rule, body_path, 'not found')
        return
    rep.analysed_body(b)
    loops = b.natural_loops()
    setters = [bb for bb, t in b.calls() if call_info(t) and call_info(t)['fn'] == 'alignment::pairwise::Traceback::set']
    dp_blocks = set()
    for h, blocks in loops.items():
        if any(s in blocks for s in setters):
            dp_blocks |= blocks
    if not setters or not dp_blocks:
        rep.missing(rule, body_path + '|main-dp-loop', 'no loop storing traceback cells found')
        return
    # post-DP region: reachable from the DP loops, outside them, and with no DP block reachable any more
    after = set()
    for x in dp_blocks:
        after |= b.reachable(x)
    after -= dp_blocks
    post = {x for x in after if not (b.reachable(x) & dp_blocks)}
    ri = eng_ri.RI(facts, b, {}, peel=False)
    # stores into S/I/D elements
    sites = []
    for bb, t in b.calls():
        info = call_info(t)
        if not info or not info['fn'].endswith('IndexMut::index_mut') or bb not in post:
            continue
        sp = ri.arg_self_ref(t['args'][0], 3)
        if not sp or sp[0] not in ('S', 'I', 'D') or 'pj' in t['dest']:
            continue
        p = t['dest']['l']
        for (kind, ubb, x) in eng_ri.uses_of_locals(b).get(p, []):
            if kind != 'stmt':
                continue
            s = b.stmts(ubb)[x]
            if s['k'] == 'assign' and s['p']['l'] == p and s['p'].get('pj') == ['*']:
                o = s['r'].get('o', {})
                isdef = (o.get('k') or {}).get('def', '')
                if isdef.endswith('MIN_SCORE'):
                    continue
                sites.append((sp[0], ubb, x))
    n = 0
    for layer, bb, i in sites:
        n += 1
        key = '%s|fixup-store-%s@%d' % (body_path, layer, n)
        g = innermost_guard(b, bb)
        want = 'set_%s_bits' % layer.lower()
        if g is None:
            region = {bb}
        else:
            region = {y for y in b.reachable(0) if b.dominates(g[1], y) and innermost_guard(b, y) == g}
        found = False
        for y in region:
            t = b.term(y)
            if t['k'] == 'call' and call_info(t) and call_info(t)['fn'].endswith('TracebackCell::' + want):
                e = fmt_first_arg(b, t)
                if 'get_mut' in e:
                    found = True
        if found:
            rep.ok(rule, key, b.loc(bb, i), '%s[..] update paired with traceback.get_mut(..).%s' % (layer, want))
        else:
            rep.bad(rule, key, b.loc(bb, i), 'a fix-up pass raises %s[..] but does not record the corresponding move with %s on '
                                             'the stored traceback cell: the returned operations no longer achieve the reported '
                                             'score' % (layer, want))
    rep.floor(rule, 'fix-up stores into S/I/D after the main DP', n, 5)


def fmt_first_arg(b, t):
    from .mirlib import fmt, strip
    return fmt(strip(b.expr_operand(t['args'][0], inline_user=True)))


_run_prev = run


def run(facts, rep, ctx):
    _run_prev(facts, rep, ctx)
    tb1b(facts, rep, 'TB-1b', 'alignment::pairwise::Aligner::<F>::custom')


# --------------------------------------------------------------------------- TB-1

TB_EXPECT = {'TB_INS': 'Ins', 'TB_DEL': 'Del', 'TB_MATCH': 'Match', 'TB_SUBST': 'Subst', 'TB_XCLIP_PREFIX': 'Xclip',
             'TB_XCLIP_SUFFIX': 'Xclip', 'TB_YCLIP_PREFIX': 'Yclip', 'TB_YCLIP_SUFFIX': 'Yclip'}


def TB1_KEEP(path):
    return path.rsplit('::', 1)[-1] in ('custom', 'compute_alignment', 'global', 'semiglobal', 'local', 'new', 'init', 'set', 'get',
                                        'create', 'create_with_prehash', 'create_with_matches', 'create_from_match_path')


def tb1(facts, rep, rule, body_path):
    """operation labelling: move codes vs emitted operations, Match/Subst decided by symbol equality"""
    from .mirlib import call_info, strip, walk
    from . import eng_gd
    rep.rule(rule, 'operation labelling: the diagonal move code is TB_MATCH exactly on the edge where x[i-1] == y[j-1] and '
                   'TB_SUBST on the other edge; in the traceback `match` the arm of each move code pushes the operation of '
                   'that name (TB_MATCH -> Match, TB_SUBST -> Subst, TB_INS -> Ins, TB_DEL -> Del, clips -> Xclip/Yclip) '
                   'and the arm of TB_START leaves the loop')
    b = facts.body(body_path)
    if b is None:
        rep.missing(rule, body_path, 'not found')
        return
    # a traceback loop moved into a private helper is analysed in place
    from . import inline
    b = inline.inlined(facts, b, TB1_KEEP)
    rep.analysed_body(b)
    codes = {}
    for nm in list(TB_EXPECT) + ['TB_START']:
        v = facts.const_value('alignment::pairwise::' + nm)
        if v is None:
            rep.missing(rule, 'alignment::pairwise::' + nm, 'move code constant not evaluated')
            return
        codes[nm] = v
    # (a) Match/Subst selection
    sel = {}
    for bb in b.reachable(0):
        for s in b.stmts(bb):
            if s['k'] == 'assign' and s['r']['k'] == 'use' and 'k' in s['r']['o']:
                d = (s['r']['o']['k'].get('def') or '').rsplit('::', 1)[-1]
                if d in ('TB_MATCH', 'TB_SUBST') and 'pj' not in s['p']:
                    sel.setdefault(d, []).append((bb, s['p']['l']))
    key = body_path + '|match-subst-by-symbol-equality'
    # the symbol comparison: an (in)equality test of two symbol-typed values, one derived only from x, the other only
    # from y (data-flow provenance, so indexing, iterators, zip, windows ... are all accepted)
    eqg = []
    roots = b.param_roots()
    sym_ty = None
    for cand in (2, 3):
        m = re.match(r"&(?:'\w+ )?\[(\w+)\]", b.locals[cand]['ty'])
        if m:
            sym_ty = m.group(1)
    for g in eng_gd.guards(b):
        t = b.term(g['bb'])
        pl = t['d'].get('c') or t['d'].get('m')
        if pl is None or 'pj' in pl:
            continue
        sd = b.single_def(pl['l'])
        cur, neg = sd, False
        # look through `Not`
        while cur is not None and cur[0] == 'stmt' and cur[3]['r']['k'] == 'un' and cur[3]['r'].get('op') == 'Not':
            q = cur[3]['r']['a'].get('c') or cur[3]['r']['a'].get('m')
            cur = b.single_def(q['l']) if q is not None and 'pj' not in q else None
            neg = not neg
        if cur is None or cur[0] != 'stmt' or cur[3]['r']['k'] != 'bin' or cur[3]['r']['op'] not in ('Eq', 'Ne'):
            continue
        ops = [cur[3]['r']['a'], cur[3]['r']['b']]
        ls = [(o.get('c') or o.get('m')) for o in ops]
        if any(q is None or 'pj' in q for q in ls):
            continue
        if sym_ty is not None and any(b.locals[q['l']]['ty'] != sym_ty for q in ls):
            continue
        ra, rb = roots[ls[0]['l']] & {2, 3}, roots[ls[1]['l']] & {2, 3}
        if (ra, rb) in (({2}, {3}), ({3}, {2})):
            iseq = (cur[3]['r']['op'] == 'Eq') != neg
            eqg.append((g, iseq))
    if len(sel.get('TB_MATCH', [])) != 1 or len(sel.get('TB_SUBST', [])) != 1 or len(eqg) != 1:
        rep.bad(rule, key, '%s:%s' % (b.file, b.line), 'expected one TB_MATCH and one TB_SUBST selection under one x[i-1] == y[j-1] '
                                                       'test (found %d/%d selections, %d symbol comparisons)' % (
                    len(sel.get('TB_MATCH', [])), len(sel.get('TB_SUBST', [])), len(eqg)))
    else:
        g, iseq = eqg[0]
        eq_edge, ne_edge = (g['t'], g['f']) if iseq else (g['f'], g['t'])
        mb, ml = sel['TB_MATCH'][0]
        sb_, sl = sel['TB_SUBST'][0]
        if b.edge_dominates((g['bb'], eq_edge), mb) and b.edge_dominates((g['bb'], ne_edge), sb_) and ml == sl:
            rep.ok(rule, key, b.loc(g['bb']), 'TB_MATCH on the equal edge, TB_SUBST on the unequal edge')
        else:
            rep.bad(rule, key, b.loc(g['bb']), 'the diagonal move is labelled TB_MATCH/TB_SUBST independently of (or opposite to) '
                                               'the comparison of the two symbols')
    # (b) traceback arms
    sw = None
    for bb in b.reachable(0):
        t = b.term(bb)
        if t['k'] == 'switch' and t.get('dty') == 'u16' and len(t['vals']) >= 8:
            sw = (bb, t)
    key = body_path + '|traceback-arms'
    if sw is None:
        rep.missing(rule, key, 'traceback `match` on the move code not found')
        return
    bb0, t = sw
    by_val = {v: tgt for v, tgt in t['vals']}
    n = 0
    for nm, want in TB_EXPECT.items():
        tgt = by_val.get(codes[nm])
        k2 = '%s|arm|%s' % (body_path, nm)
        if tgt is None:
            rep.bad(rule, k2, b.loc(bb0), 'move code %s has no arm in the traceback' % nm)
            continue
        n += 1
        arm = {y for y in b.reachable(0) if b.dominates(tgt, y)}
        # stop at the merge: blocks dominated by the arm target only
        variants = set()
        for y in arm:
            for s in b.stmts(y):
                if s['k'] == 'assign' and s['r']['k'] == 'agg' and s['r'].get('adt', '').endswith('AlignmentOperation'):
                    variants.add(s['r']['variant'])
        if variants == {want}:
            rep.ok(rule, k2, b.loc(tgt), '%s -> %s' % (nm, want))
        else:
            rep.bad(rule, k2, b.loc(tgt), 'the arm of %s pushes %s, expected %s' % (nm, sorted(variants), want))
    st = by_val.get(codes['TB_START'])
    k2 = '%s|arm|TB_START' % body_path
    if st is None:
        rep.bad(rule, k2, b.loc(bb0), 'TB_START has no arm: the traceback cannot end')
    else:
        loops = b.natural_loops()
        inloop = [h for h, blocks in loops.items() if bb0 in blocks]
        # the START arm must leave every loop the switch is in without pushing an operation
        reg = {y for y in b.reachable(0) if b.dominates(st, y)}
        pushes = any(s['k'] == 'assign' and s['r']['k'] == 'agg' and s['r'].get('adt', '').endswith('AlignmentOperation')
                     and y in set().union(*[loops[h] for h in inloop]) for y in reg for s in b.stmts(y)) if inloop else False
        leaves = all(st not in loops[h] or any(x not in loops[h] for x in b.reachable(st)) for h in inloop)
        if inloop and leaves and not pushes:
            rep.ok(rule, k2, b.loc(st), 'TB_START leaves the traceback loop')
        else:
            rep.bad(rule, k2, b.loc(st), 'the TB_START arm does not end the traceback')
    rep.floor(rule, 'move-code arms', n, 8)


_run_prev2 = run


def run(facts, rep, ctx):
    _run_prev2(facts, rep, ctx)
    tb1(facts, rep, 'TB-1', 'alignment::pairwise::Aligner::<F>::custom')


_run_before_round2 = run


def run(facts, rep, ctx):
    """rules added after the second round of independent seeding (rules/round2.py)"""
    _run_before_round2(facts, rep, ctx)
    from . import round2
    round2.ao1(facts, rep, 'alignment::pairwise::Aligner::<F>::custom')



_run_before_round6 = run


def run(facts, rep, ctx):
    """rules added after the fifth seeding round (rules/round6.py)"""
    _run_before_round6(facts, rep, ctx)
    from . import round6
    round6.cf2(facts, rep, ['alignment::pairwise::'], 100)
    round6.cl1(facts, rep, ['alignment::pairwise::Aligner'])
