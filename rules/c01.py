"""C01 pairwise alignment — clauses decided: SR-1 (clip penalties restored / mode table), EF side condition,
RI-1 (scratch buffers re-initialised per call), TB-1 (traceback move-code labelling)."""
from . import eng_sr, effects
from .mirlib import short

LEVEL = 'proof'
MIN = 'alignment::pairwise::MIN_SCORE'
WRAPPERS = {
    'global': ('MIN', 'MIN', 'MIN', 'MIN'),
    'semiglobal': ('MIN', 'MIN', 0, 0),
    'local': (0, 0, 0, 0),
}
CLIPS = ('xclip_prefix', 'xclip_suffix', 'yclip_prefix', 'yclip_suffix')


def mode_table(facts, spec, minconst=MIN):
    mn = facts.const_value(minconst)
    return {f: (mn if v == 'MIN' else v) for f, v in zip(CLIPS, spec)}


def run_sr(facts, rep, rule, prefix, wrappers, core_pred, minconst, scoring_path):
    eff = effects.Effects(facts)
    rep.rule(rule, 'symbolic save/restore: every self field a mode wrapper overwrites holds its entry value at every '
                   'return, and holds the documented mode constant at the call of the core routine; the core routine '
                   'and its callees never write those fields')
    mn = facts.const_value(minconst)
    if mn is None:
        rep.missing(rule, minconst, 'const MIN_SCORE not found/evaluated')
        return
    nrest = 0
    nsites = 0
    for name, spec in wrappers.items():
        body = facts.body(prefix + name)
        if body is None:
            rep.missing(rule, prefix + name, 'wrapper body not found')
            continue
        n, s, stored = eng_sr.check_wrapper(rep, rule, body, facts, eff, core_pred, mode_table(facts, spec, minconst),
                                            restore_prefix=scoring_path)
        nrest += n
        nsites += s
        # the four clip fields must be among the stored (otherwise the wrapper no longer sets the mode)
    return nrest, nsites


def run(facts, rep, ctx):
    pre = 'alignment::pairwise::Aligner::<F>::'
    r = run_sr(facts, rep, 'SR-1', pre, WRAPPERS, lambda fn: fn == pre + 'custom', MIN, ('scoring',))
    if r:
        rep.floor('SR-1', 'restore obligations', r[0], 12)
        rep.floor('SR-1', 'mode-table call sites', r[1], 3)
    # EF side condition: custom never writes self.scoring.*
    eff = effects.Effects(facts)
    custom = facts.body(pre + 'custom')
    if custom is None:
        rep.missing('SR-1', pre + 'custom', 'core routine not found')
    else:
        rep.analysed_body(custom)
        w = eff.param_writes(custom, 1)
        badw = sorted(p for p in w if effects.path_related(effects.clean(p), ('scoring',)))
        key = pre + 'custom|writes-scoring'
        if badw:
            rep.bad('SR-1', key, '%s:%s' % (custom.file, custom.line),
                    'core routine may write self.%s' % ', self.'.join('.'.join(p) for p in badw))
        else:
            rep.ok('SR-1', key, '%s:%s' % (custom.file, custom.line),
                   'write set of custom through self: %s' % sorted({effects.clean(p)[:1] for p in w}))


def run_ri(facts, rep, rule, body_path, adt_path, floor_buffers):
    from . import eng_ri
    rep.rule(rule, 'per-call re-initialisation: on every path of the core routine the first mention of each reused '
                   'scratch buffer of the aligner object is a reset (Vec::clear, whole-field assignment, or a local '
                   'callee whose verified summary resets it); the literal `for k in 0..2` loop is analysed per '
                   'iteration')
    body = facts.body(body_path)
    if body is None:
        rep.missing(rule, body_path, 'core routine not found')
        return
    rep.analysed_body(body)
    bufs = eng_ri.buffers_from_adt(facts, adt_path, ['I', 'D', 'S', 'Lx', 'Ly', 'Sn', 'traceback'],
                                   sub={'traceback': ['matrix', 'rows', 'cols']})
    rep.floor(rule, 'reused buffers of %s' % adt_path, len(bufs), floor_buffers)
    ri = eng_ri.RI(facts, body, bufs).run()
    bad = {}
    for bid, bb, what in ri.violations:
        bad.setdefault(bid, []).append(what)
    resets = {}
    for bid, bb, how in ri.resets:
        resets.setdefault(bid, []).append(how)
    for bid in sorted(bufs):
        key = '%s|first-touch-is-reset|self.%s' % (body.path, bid)
        if bid in bad:
            rep.bad(rule, key, '%s:%s' % (body.file, body.line),
                    'buffer self.%s is used before it is reset in this call: %s' % (bid, '; '.join(bad[bid][:3])))
        elif bid not in resets:
            rep.bad(rule, key, '%s:%s' % (body.file, body.line),
                    'buffer self.%s is never reset in this call' % bid)
        else:
            rep.ok(rule, key, '%s:%s' % (body.file, body.line), resets[bid][0])
    rep.extra.setdefault('ri', {})[body.path] = {'product_nodes': ri.nodes, 'touches': ri.touches,
                                                  'peeled_loop': bool(ri.loop),
                                                  'loop_range': [ri.loop.a, ri.loop.b] if ri.loop else None}


_run_sr_only = run


def run(facts, rep, ctx):
    _run_sr_only(facts, rep, ctx)
    run_ri(facts, rep, 'RI-1', 'alignment::pairwise::Aligner::<F>::custom', 'alignment::pairwise::Aligner', 12)
