"""Rules added after the fourth round of independent seeding and the sixth refactoring round."""
import re
from . import eng_gd, inline
from .mirlib import call_info, strip, strip_casts, fmt, walk
from .poly import poly, pstr


def _KEEP_NONE(path):
    return False


def _is_call(e, suffixes):
    return isinstance(e, tuple) and e[0] == 'call' and (e[3] or e[1]).endswith(tuple(suffixes))


# ------------------------------------------------------------------------------------------------ OB-1 (C10)
def ob1(facts, rep, rule='OB-1'):
    rep.rule(rule, 'output buffer discipline of the path API: FullMatches::path / LazyMatches::path_at produce the forward path '
                   'by reversing what the *_reverse function appended to the caller\'s vector; the reversal must cover exactly '
                   'the appended part - either the vector was cleared by the filling function before the traceback (eager API) '
                   'or only the sub-slice starting at the length observed before the call is reversed (lazy API, "the path is '
                   'added to ops"). Reversing a vector that still holds earlier content scrambles both paths')
    n = 0
    for b0 in facts.body_list:
        if b0.kind == 'Closure' or not b0.path.startswith('pattern_matching::myers::'):
            continue
        if not ((b0.name == 'path' and 'FullMatches' in b0.path) or (b0.name == 'path_at' and 'LazyMatches' in b0.path)):
            continue
        key = '%s|reversal-covers-exactly-the-appended-part' % b0.path
        b = inline.inlined(facts, facts.view(b0), keep=lambda p: '{closure' not in p)
        rep.analysed_body(b)
        revs = [(bb, t) for bb, t in b.calls() if call_info(t) and call_info(t)['fn'].endswith('[T]>::reverse')]
        fills = [(bb, t) for bb, t in b.calls() if call_info(t) and call_info(t)['fn'].rsplit('::', 1)[-1] in
                 ('path_reverse', 'path_at_reverse')]
        if not revs or len(fills) != 1:
            # a forward path built without reversal (e.g. collected in order) has nothing to check here
            if not fills:
                rep.missing(rule, key, 'neither a reversal nor a call of the *_reverse filling function found')
            else:
                n += 1
                rep.ok(rule, key, '%s:%s' % (b.file, b.line), 'no reversal of the caller\'s vector')
            continue
        n += 1
        fbb, ft = fills[0]
        callee = facts.bodies.get(call_info(ft).get('res') or call_info(ft)['fn'])
        bad = None
        for bb, t in revs:
            e = strip(b.expr_operand(t['args'][0], inline_user=True))
            if _is_call(e, ('index_mut',)) and len(e[2]) == 2:
                rng = strip(e[2][1])
                start = strip(rng[3][0]) if rng[0] == 'agg' and 'RangeFrom' in str(rng[2]) and rng[3] else None
                lens = [x for x, tt in b.calls() if call_info(tt) and call_info(tt)['fn'].endswith('Vec::<T, A>::len')]
                if start is not None and _is_call(start, ('::len',)) and fmt(strip(start[2][0])) == fmt(strip(e[2][0])) and \
                        any(b.dominates(x, fbb) and x != fbb for x in lens):
                    continue
                bad = (bb, 'a sub-slice `%s` is reversed that does not start at the length the vector had before the path '
                           'was appended' % fmt(e)[:100])
                break
            # whole vector: the filling function must clear it before the traceback writes into it
            cleared = any(b.dominates(x, fbb) and x != fbb for x, tt in b.calls()
                          if call_info(tt) and call_info(tt)['fn'].endswith('Vec::<T, A>::clear'))
            if not cleared and callee is not None:
                cv = facts.view(callee)
                clears = [x for x, tt in cv.calls() if call_info(tt) and call_info(tt)['fn'].endswith('Vec::<T, A>::clear')]
                tbs = [x for x, tt in cv.calls() if call_info(tt) and 'Traceback' in call_info(tt)['fn']]
                cleared = bool(clears) and bool(tbs) and all(any(cv.dominates(c, x) for c in clears) for x in tbs)
            if not cleared:
                bad = (bb, 'the whole vector is reversed although %s does not clear it first: a vector that already holds '
                           'operations (a second query with the same buffer) ends up with both paths scrambled'
                       % call_info(ft)['fn'].rsplit('::', 1)[-1])
                break
        if bad:
            rep.bad(rule, key, b.loc(bad[0]), bad[1])
        else:
            rep.ok(rule, key, b.loc(revs[0][0]), 'reversal limited to the appended part')
    rep.floor(rule, 'forward-path functions', n, 4)


# ------------------------------------------------------------------------------------------------ PO-10 (C09)
_UN = "<pattern_matching::ukkonen::Matches<'a, F, C, T> as std::iter::Iterator>::next"
_COLS = 'find_all_end refills both columns to exactly m + 1 cells (rule RI-3) and next() never resizes them'
PO10_AUDIT = {
    'pattern_matching::ukkonen::Ukkonen::<F>::with_capacity|overflow-add|1,arg1':
        'capacity hint only: Vec::with_capacity refuses (panics on) every request above isize::MAX / 8 cells anyway, so there is no non-panicking behaviour for m = usize::MAX that the overflow check could change',
}


def po10(facts, rep, rule='PO-10'):
    from . import eng_po
    from .po_known import KNOWN
    rep.rule(rule, 'panic obligations of the Ukkonen entry points that receive the caller\'s numbers (with_capacity(m), '
                   'find_all_end(.., k)): every MIR Assert and may-panic call is discharged by interval analysis or audited; '
                   'arithmetic on the caller-supplied threshold k must not overflow (k is unbounded in the property). The '
                   'column update in Matches::next is deliberately not covered: its audit would have to be redone for every '
                   'rewrite of the loop (two stored refactorings show that), while its operands are bounded by m')
    names = ('pattern_matching::ukkonen::Ukkonen::<F>::with_capacity', 'pattern_matching::ukkonen::Ukkonen::<F>::find_all_end')
    bodies = [b for b in facts.body_list if b.path in names or (b.kind == 'Closure' and b.path.startswith(names))]
    rep.floor(rule, 'bodies', len([b for b in bodies if b.kind != 'Closure']), 2)
    total = 0
    present = set(facts.bodies)
    for b, nb, ia, obs in eng_po.scan(facts, bodies, KNOWN):
        rep.analysed_body(b)
        seen = {}
        for o in obs:
            total += 1
            key = '%s|%s|%s' % (b.path, o['kind'], o['ops'])
            seen[key] = seen.get(key, 0) + 1
            k2 = key + ('#%d' % seen[key] if seen[key] > 1 else '')
            if o['discharged']:
                rep.ok(rule, k2, o['where'], 'interval analysis')
            elif key in PO10_AUDIT:
                rep.audited(rule, k2, o['where'], PO10_AUDIT[key])
            elif eng_po.orphan_match(key, PO10_AUDIT, present):
                k0 = eng_po.orphan_match(key, PO10_AUDIT, present)
                rep.audited(rule, k2, o['where'], 'arithmetic of the removed function %s, now written in its caller: %s' % (k0.split('|')[0], PO10_AUDIT[k0]))
            elif eng_po.implied(key, PO10_AUDIT, o):
                rep.audited(rule, k2, o['where'], eng_po.implied(key, PO10_AUDIT, o)[1])
            else:
                rep.bad(rule, key, o['where'], 'undischarged %s obligation: %s' % (o['kind'], o['detail']))
    rep.floor(rule, 'obligations', total, 6)


# ------------------------------------------------------------------------------------------------ LS-1 (C05, C06)
def ls1(facts, rep, rule='LS-1'):
    rep.rule(rule, 'extent of the `less` table (writer/reader agreement): the FM/FMD index reads less(a + c) for alphabet symbols '
                   'a <= max_symbol and small constants c (c = 1 in FMDIndex::init_interval_with, which takes the interval size '
                   'from less(a + 1) - less(a)); bwt::less must therefore allocate at least max_symbol + 1 + max(c) entries')
    # reader side: constant offsets added to a symbol before it is looked up
    cmax, nread = 0, 0
    for b in facts.body_list:
        if not b.path.startswith(('data_structures::fmindex::', '<data_structures::fmindex::')):
            continue
        for bb, t in b.calls():
            info = call_info(t)
            if not info or info['fn'].rsplit('::', 1)[-1] != 'less' or 'fmindex' not in info['fn'] or len(t['args']) != 2:
                continue
            nread += 1
            p = poly(b.expr_operand(t['args'][1], inline_user=True))
            c = p.get((), 0)
            if isinstance(c, int) and c > cmax:
                cmax = c
    rep.floor(rule, 'less(..) look-ups in fmindex.rs', nread, 5)
    w = facts.body('data_structures::bwt::less')
    key = 'bwt::less|table-covers-max_symbol-plus-offsets'
    if w is None:
        rep.missing(rule, key, 'bwt::less not found')
        return
    rep.analysed_body(w)
    sizes = []
    for bb, t in w.calls():
        info = call_info(t)
        if not info:
            continue
        last = info['fn'].rsplit('::', 1)[-1]
        arg = None
        if last == 'take' and 'Iterator' in info['fn'] and len(t['args']) == 2:
            arg = t['args'][1]
        elif last == 'from_elem' and len(t['args']) >= 2:
            arg = t['args'][1]
        elif last == 'resize' and 'Vec' in info['fn'] and len(t['args']) == 3:
            arg = t['args'][1]
        if arg is not None:
            sizes.append((bb, poly(w.expr_operand(arg, inline_user=True))))
    sizes = [(bb, p) for bb, p in sizes if any('max_symbol' in a for m in p for a in m)]
    if len(sizes) != 1:
        rep.missing(rule, key, 'expected one allocation sized from Alphabet::max_symbol, found %d' % len(sizes))
        return
    bb, p = sizes[0]
    sym = [m for m in p if m and any('max_symbol' in a for a in m)]
    const = p.get((), 0)
    if len(sym) == 1 and len(sym[0]) == 1 and p[sym[0]] == 1 and len(p) <= 2 and const >= cmax + 1:
        rep.ok(rule, key, w.loc(bb), 'max_symbol + %d entries; largest look-up offset %d' % (const, cmax))
    else:
        rep.bad(rule, key, w.loc(bb), 'the table has `%s` entries, but the index reads less(a + %d) for every alphabet symbol a: '
                                      'the look-up for the largest symbol is out of bounds' % (pstr(p)[:80], cmax))


# ------------------------------------------------------------------------------------------------ TS-12 (C07)
def ts12(facts, rep, rule='TS-12'):
    rep.rule(rule, 'search-tree key: IntervalTree::find prunes the right subtree of a node by the node\'s *start* (everything '
                   'there starts no earlier), so Node::insert must descend by comparing the new interval\'s start with the '
                   'node\'s start - alone or as the leading component of a lexicographic key. A descent ordered by anything else '
                   '(the end, the width) leaves overlapping entries in subtrees that find() skips')
    b = facts.method('data_structures::interval_tree::avl_interval_tree::Node', 'insert')
    key = 'Node::insert|descent-ordered-by-start'
    if b is None:
        rep.missing(rule, key, 'Node::insert not found')
        return
    rep.analysed_body(b)

    def lead(txt):
        """leading key component of one side of the comparison"""
        m = re.match(r'tuple\{(.*)\}$', txt)
        if m:
            depth, cur = 0, ''
            for ch in m.group(1):
                if ch in '([{':
                    depth += 1
                elif ch in ')]}':
                    depth -= 1
                if ch == ',' and depth == 0:
                    break
                cur += ch
            txt = cur.strip()
        return txt
    n = 0
    bad = None
    for g in eng_gd.guards(b):
        c = g['cmp_true']
        if not c or c[0] not in ('Le', 'Lt', 'Ge', 'Gt') or 'interval' not in c[1] or 'interval' not in c[2]:
            continue
        n += 1
        a, d = lead(c[1]), lead(c[2])
        sides = {('self.interval' in a), ('self.interval' in d)}
        if not (a.endswith('.start') and d.endswith('.start') and sides == {True, False}):
            bad = (g['bb'], c)
    for bb, t in b.calls():
        info = call_info(t)
        if info and info['fn'].rsplit('::', 1)[-1] in ('cmp', 'partial_cmp') and len(t['args']) == 2:
            xs = [fmt(strip(b.expr_operand(x, inline_user=True))) for x in t['args']]
            if 'interval' in xs[0] and 'interval' in xs[1]:
                n += 1
                a, d = lead(xs[0]), lead(xs[1])
                if not (a.endswith('.start') and d.endswith('.start') and {('self.interval' in a), ('self.interval' in d)} == {True, False}):
                    bad = (bb, ('cmp', xs[0], xs[1]))
    if n == 0:
        rep.missing(rule, key, 'no comparison of the new interval with the node interval found in Node::insert')
    elif bad:
        rep.bad(rule, key, b.loc(bad[0]), 'the descent compares `%s` with `%s`: the tree is not ordered by start, which find() '
                                          'relies on when it prunes right subtrees' % (bad[1][1][:70], bad[1][2][:70]))
    else:
        rep.ok(rule, key, '%s:%s' % (b.file, b.line), 'ordered by interval.start (%d comparison%s)' % (n, '' if n == 1 else 's'))


def _mentions_field(body, bb, name):
    for pl in eng_gd.place_mentions(body, bb):
        for el in pl.get('pj', []) or []:
            if isinstance(el, dict) and el.get('n') == name:
                return True
    return False


# ------------------------------------------------------------------------------------------------ ET-1 (C08)
def et1(facts, rep, rule='ET-1'):
    rep.rule(rule, 'every consumed symbol is followed by the accept test: in shift_and::Matches::next no path leads from the '
                   'look-up of the symbol\'s mask (masks[c]) to the next look-up or to a return without passing the test of '
                   '`active & accept`, unless the last value stored to `active` on that path is the constant 0 (then the test '
                   'could not succeed). A shortcut that updates the automaton state without testing acceptance loses the '
                   'occurrences that end at that symbol (for a one-symbol pattern the start bit is the accept bit)')
    b0 = facts.method('pattern_matching::shift_and::Matches', 'next', 'Iterator')
    key = 'shift_and::Matches::next|accept-test-after-every-symbol'
    if b0 is None:
        rep.missing(rule, key, 'not found')
        return
    sites = 0
    for b in facts.family(b0):
        rep.analysed_body(b)
        ms = [bb for bb in sorted(b.reachable(0)) if _mentions_field(b, bb, 'masks')]
        if not ms:
            continue
        acc = set()
        for g in eng_gd.guards(b):
            if '.accept' in g['text'] or 'accept' in fmt(strip(g['expr'])):
                acc.add(g['bb'])
        # last-store-is-zero analysis from each mask look-up, cut at the accept tests
        for m in ms:
            sites += 1
            state = {}
            work = [] if m in acc else [(s2, False) for s2 in b.succ[m]]
            # the look-up block itself may already store to `active` after the index; start after it
            viol = None
            seen = {}
            while work and viol is None:
                bb, z = work.pop()
                if bb in acc:
                    continue
                if bb == m or b.term(bb)['k'] == 'return':
                    if not z:
                        viol = bb
                    continue
                if seen.get(bb) is not None and (seen[bb] is False or seen[bb] == z):
                    continue
                seen[bb] = z if seen.get(bb) is None else (seen[bb] and z)
                z2 = seen[bb]
                for s in b.stmts(bb):
                    if s['k'] == 'assign' and any(isinstance(el, dict) and el.get('n') == 'active' for el in (s['p'].get('pj') or [])) \
                            or (s['k'] == 'assign' and not s['p'].get('pj') and b.local_name(s['p']['l']) == 'active'):
                        r = s['r']
                        z2 = r['k'] == 'use' and isinstance(r['o'].get('k'), dict) and r['o']['k'].get('v') == 0
                for s2 in b.succ[bb]:
                    work.append((s2, z2))
            if viol is not None:
                rep.bad(rule, key, b.loc(viol), 'a path from the mask look-up reaches %s without testing `active & accept` (and '
                                                'without `active` being the constant 0): occurrences ending at that symbol are '
                                                'not reported' % ('the next look-up' if viol == m else 'a return'))
            else:
                rep.ok(rule, key, b.loc(m), 'accept test on every path')
    rep.floor(rule, 'mask look-ups', sites, 1)


def _all_places(body):
    for bb in sorted(body.reachable(0)):
        for pl in eng_gd.place_mentions(body, bb):
            yield bb, pl
        t = body.term(bb)
        if t['k'] == 'assert' and isinstance(t.get('msg'), dict):
            pass


# ------------------------------------------------------------------------------------------------ PQ-1 (C09)
def pq1(facts, rep, rule='PQ-1'):
    rep.rule(rule, 'symbol tables of Myers\' matcher cover every byte: each table of bit-vectors `[T; N]` (peq) in simple.rs / '
                   'long.rs has N = 256 entries and is indexed by the symbol itself (a byte widened to usize), never by a '
                   'folded / masked / reduced value - otherwise two different bytes share an entry and count as equal')
    n = 0
    for b in facts.body_list:
        if not b.path.startswith(('pattern_matching::myers::simple::', 'pattern_matching::myers::long::')) or '::tests' in b.path:
            continue
        b = facts.view(b)
        seen = set()
        for bb, pl in _all_places(b):
            pj, pjt = pl.get('pj') or [], pl.get('pjt') or []
            for k, el in enumerate(pj):
                if not (isinstance(el, dict) and 'i' in el) or k >= len(pjt):
                    continue
                m = re.match(r'\[T; (\d+)\]$', pjt[k])
                if not m:
                    continue
                sig = (bb, el['i'])
                if sig in seen:
                    continue
                seen.add(sig)
                n += 1
                rep.analysed_body(b)
                key = '%s|table-indexed-by-the-byte' % b.path
                e = strip_casts(b.expr_operand({'c': {'l': el['i']}}, inline_user=True))
                arith = isinstance(e, tuple) and (e[0] in ('bin', 'un') or (e[0] == 'call' and (e[3] or e[1]).rsplit('::', 1)[-1] in (
                    'bitand', 'rem', 'shr', 'shl', 'sub', 'add', 'wrapping_sub', 'wrapping_add', 'rem_euclid', 'min', 'max',
                    'to_ascii_uppercase', 'to_ascii_lowercase')))
                if int(m.group(1)) != 256:
                    rep.bad(rule, key, b.loc(bb), 'a symbol table of %s entries cannot hold one entry per byte value' % m.group(1))
                elif arith:
                    rep.bad(rule, key, b.loc(bb), 'the table is indexed by `%s`, not by the symbol: different bytes share an entry '
                                                  'and are treated as equal' % fmt(e)[:80])
                else:
                    rep.ok(rule, key, b.loc(bb), 'indexed by %s' % fmt(e)[:60])
    rep.floor(rule, 'table accesses', n, 6)


# ------------------------------------------------------------------------------------------------ EP-1 (C11)
def ep1(facts, rep, rule='EP-1'):
    rep.rule(rule, 'end-of-input protocol: the readers signal the end by leaving the record cleared, and callers test '
                   'Record::is_empty(). Every field that is_empty() tests must be put into exactly the tested state by '
                   'Record::clear() on every path: fields tested with is_empty() are cleared (or replaced by a new empty '
                   'value), fields tested with is_none() are assigned None. A clear() that keeps `Some("")` makes a reused '
                   'record look non-empty for ever')
    n = 0
    for ty in ('io::fastq::Record', 'io::fasta::Record'):
        ie, cl = facts.method(ty, 'is_empty'), facts.method(ty, 'clear')
        if ie is None or cl is None:
            rep.missing(rule, ty + '|clear-establishes-is_empty', 'is_empty or clear not found')
            continue
        ie = inline.inlined(facts, ie, keep=_KEEP_NONE, policy=inline.new_function_policy)      # accessors (self.id(), self.desc()) analysed in place
        rep.analysed_body(ie)
        rep.analysed_body(cl)
        tested = {}
        for bb, t in ie.calls():
            info = call_info(t)
            if not info or not t['args']:
                continue
            last = info['fn'].rsplit('::', 1)[-1]
            tx = fmt(strip(ie.expr_operand(t['args'][0], inline_user=True)))
            fs = set(re.findall(r'self\.(\w+)', tx))
            if len(fs) == 1 and last in ('is_empty', 'is_none'):
                tested[fs.pop()] = last
        rets = [bb for bb in cl.reachable(0) if cl.term(bb)['k'] == 'return']
        for f, how in sorted(tested.items()):
            n += 1
            key = '%s|clear-establishes-is_empty|%s' % (ty, f)
            sites = []
            for bb, t in cl.calls():
                info = call_info(t)
                if info and t['args'] and fmt(strip(cl.expr_operand(t['args'][0], inline_user=True))) == 'self.' + f and \
                        info['fn'].rsplit('::', 1)[-1] in ('clear', 'truncate') and how == 'is_empty':
                    sites.append(bb)
            for bb in cl.reachable(0):
                for s in cl.stmts(bb):
                    if s['k'] != 'assign':
                        continue
                    pj = s['p'].get('pj') or []
                    if s['p']['l'] == 1 and len(pj) == 2 and pj[0] == '*' and isinstance(pj[1], dict) and pj[1].get('n') == f:
                        e = strip(cl.expr_rvalue(s['r'], inline_user=True))
                        if how == 'is_none' and e[0] == 'agg' and len(e) > 2 and str(e[2]).endswith('None'):
                            sites.append(bb)
                        elif how == 'is_none' and s['r']['k'] == 'agg' and s['r'].get('variant') == 'None':
                            sites.append(bb)
                        elif how == 'is_empty' and e[0] == 'call' and (e[3] or e[1]).rsplit('::', 1)[-1] in ('new', 'default'):
                            sites.append(bb)
            ok = bool(sites) and all(any(cl.dominates(sb, r) for sb in sites) for r in rets)
            if ok:
                rep.ok(rule, key, cl.loc(sites[0]), '%s -> %s' % (how, 'cleared' if how == 'is_empty' else 'None'))
            else:
                rep.bad(rule, key, '%s:%s' % (cl.file, cl.line),
                        'is_empty() tests `%s.%s()`, but clear() does not establish that on every path: after the last record '
                        'a reused record never looks empty and the documented read loop does not terminate' % (f, how))
    rep.floor(rule, 'tested fields', n, 7)


# ------------------------------------------------------------------------------------------------ TB-4b (C13)
def tb4b(facts, rep, rule='TB-4'):
    from .c13 import const_byte_arg
    n = 0
    for b0 in facts.body_list:
        if not b0.path.startswith(('io::bed::', 'io::gff::', '<io::bed::', '<io::gff::')) or '::tests' in b0.path:
            continue
        b = facts.view(b0)
        news = [bb for bb, t in b.calls() if call_info(t) and call_info(t).get('crate') == 'csv' and
                call_info(t)['fn'].endswith('ReaderBuilder::new')]
        if not news:
            continue
        n += 1
        rep.analysed_body(b)
        got = {}
        for bb, t in b.calls():
            info = call_info(t)
            if info and info.get('crate') == 'csv' and info['fn'].rsplit('::', 1)[-1] in ('delimiter', 'comment') and len(t['args']) >= 2:
                got[info['fn'].rsplit('::', 1)[-1]] = const_byte_arg(b, t, 1)
        key = '%s|every-csv-reader-is-configured-alike' % b.path
        if got.get('delimiter') == 9 and got.get('comment') == ('Some', 35):
            rep.ok(rule, key, b.loc(news[0]), 'TAB-delimited, `#` comments skipped')
        else:
            rep.bad(rule, key, b.loc(news[0]), 'this function builds its own csv reader with delimiter=%r, comment=%r: readers opened '
                                               'this way do not skip `#` comment lines / split at TAB like Reader::new does'
                    % (got.get('delimiter'), got.get('comment')))
    rep.floor(rule, 'functions building a csv reader', n, 2)


# ------------------------------------------------------------------------------------------------ CO-1 (C13)
def co1(facts, rep, rule='CO-1'):
    rep.rule(rule, 'GFF columns are written from the stored fields: the tuple gff::Writer::write hands to the csv serialiser '
                   'consists of record.{seqname, source, feature_type, start, end, score, strand, phase} in the order of the '
                   'reader\'s column tuple, each taken directly from the field (reference or copy), followed by the attribute '
                   'string. A column produced through a parsing / formatting accessor (score() -> Option<u64>) is lossy: '
                   '"0.95" or "007" do not survive a round trip')
    w = facts.method('io::gff::Writer', 'write')
    key = 'gff::Writer::write|columns-are-the-raw-fields'
    if w is None:
        rep.missing(rule, key, 'not found')
        return
    rep.analysed_body(w)
    want = ['seqname', 'source', 'feature_type', 'start', 'end', 'score', 'strand', 'phase']
    rt = facts.types.get('io::gff::Record') if hasattr(facts, 'types') else None
    sers = [(bb, t) for bb, t in w.calls() if call_info(t) and call_info(t)['fn'].rsplit('::', 1)[-1] == 'serialize' and
            call_info(t).get('crate') == 'csv']
    if len(sers) != 1:
        rep.missing(rule, key, 'expected one csv serialize call, found %d' % len(sers))
        return
    bb, t = sers[0]
    e = strip(w.expr_operand(t['args'][1], inline_user=True))
    if e[0] != 'agg' or len(e[3]) != 9:
        rep.bad(rule, key, w.loc(bb), 'the serialised value is not a 9-column tuple: `%s`' % fmt(e)[:100])
        return
    cols = [fmt(strip(x)) for x in e[3][:8]]
    wrong = []
    for name, c in zip(want, cols):
        c0 = re.sub(r'^(Clone>::clone|clone|AsRef<str>>::as_ref|String::as_str|Deref>::deref)\((.*)\)$', r'\2', c)
        if c0 not in ('record.' + name, 'arg2.' + name):
            wrong.append((name, c))
    if wrong:
        rep.bad(rule, key, w.loc(bb), 'column `%s` is written as `%s`, not from the stored field: the value read back differs from '
                                      'the value written' % (wrong[0][0], wrong[0][1][:90]))
    else:
        rep.ok(rule, key, w.loc(bb), ', '.join(want))


# ------------------------------------------------------------------------------------------------ ZR-1 (C14, C15)
def zr1(facts, rep, rule='ZR-1'):
    rep.rule(rule, 'exact zero test in log space: <LogProb as Zero>::is_zero (which Viterbi\'s zero-aware maximum relies on) must '
                   'be decided on the logarithm itself; no function reachable from it may exponentiate (exp / fastexp / the lossy '
                   'LogProb -> Prob conversion), because exp underflows to 0 for every log-probability below about -745 (-500 for '
                   'fastexp) and would declare possible events impossible')
    b = facts.method('stats::probs::LogProb', 'is_zero', 'Zero')
    key = 'LogProb::is_zero|decided-in-log-space'
    if b is None:
        rep.missing(rule, key, '<LogProb as Zero>::is_zero not found')
        return
    reach = facts.reachable_bodies([b])
    bad = None
    for k in sorted(reach, key=str):
        fb = facts.bodies.get(k)
        if fb is None:
            continue
        rep.analysed_body(fb)
        for bb, t in fb.calls():
            info = call_info(t)
            if not info:
                continue
            last = info['fn'].rsplit('::', 1)[-1]
            if last in ('exp', 'exp2', 'exp_m1', 'fastexp', 'powf', 'powi') or ('Prob' in info['fn'] and last == 'from' and
                                                                                'LogProb' in ' '.join(info.get('args', []) or [])):
                bad = (fb, bb, info['fn'])
        if fb.path.endswith('fastexp') or 'From<stats::probs::LogProb>' in fb.path:
            bad = bad or (fb, 0, fb.path)
    if bad:
        rep.bad(rule, key, bad[0].loc(bad[1]), 'is_zero reaches `%s`: the test is made on a rounded linear-space value, so every '
                                               'log-probability that underflows counts as zero' % bad[2][:90])
    else:
        rep.ok(rule, key, '%s:%s' % (b.file, b.line), 'no exponentiation reachable (%d bodies)' % len(reach))


# ------------------------------------------------------------------------------------------------ CS-1 (C15)
def cs1(facts, rep, rule='CS-1'):
    rep.rule(rule, 'cumulative sums: the step function that LogProb::ln_cumsum_exp hands to Iterator::scan replaces the running '
                   'state by ln_add_exp(state, item) - nothing else is ever stored to it - and yields the new state. Capping, '
                   'rounding or otherwise post-processing the state makes every later prefix sum wrong')
    cum = facts.method('stats::probs::LogProb', 'ln_cumsum_exp')
    key = 'LogProb::ln_cumsum_exp|scan-step-is-ln_add_exp'
    if cum is None:
        rep.missing(rule, key, 'ln_cumsum_exp not found')
        return
    rep.analysed_body(cum)
    cands = []

    def fn_item(o):
        k = o.get('k') if isinstance(o, dict) else None
        if isinstance(k, dict) and (k.get('res') or k.get('fn')):
            fb = facts.bodies.get(k.get('res') or k.get('fn'))
            if fb is not None and fb.arg_count == 2 and all(fb is not c[0] for c in cands):
                cands.append((fb, 1, 2))
    for bb in sorted(cum.reachable(0)):
        for s in cum.stmts(bb):
            if s['k'] == 'assign' and s['r']['k'] in ('use', 'cast'):
                fn_item(s['r']['o'])
        t = cum.term(bb)
        if t['k'] == 'call':
            for a in t['args']:
                fn_item(a)
    for cp in cum.closure_literals():
        cb = facts.bodies.get(cp)
        if cb is not None and cb.arg_count == 3 and all(cb is not c[0] for c in cands):
            cands.append((cb, 2, 3))
    if not cands:
        rep.missing(rule, key, 'the step function passed to scan was not found')
        return
    n = 0
    for fb, sl, pl_ in cands:
        fb = facts.view(fb)
        rep.analysed_body(fb)
        n += 1
        stores = []
        for bb in sorted(fb.reachable(0)):
            for i, s in enumerate(fb.stmts(bb)):
                if s['k'] == 'assign' and s['p']['l'] == sl and (s['p'].get('pj') or [None])[0] == '*':
                    stores.append((bb, i, s))
        problems = []
        for bb, i, s in stores:
            e = strip(fb.expr_rvalue(s['r'], inline_user=True))
            good = _is_call(e, ('LogProb::ln_add_exp',)) and len(e[2]) == 2
            if good:
                roots = [fb.param_roots(x) if hasattr(fb, 'param_roots') else None for x in ()]
                txt = sorted(fmt(strip(x)) for x in e[2])
                names = sorted([fb.local_name(sl) or '_%d' % sl, fb.local_name(pl_) or '_%d' % pl_])
                good = [re.sub(r'^\(?\*?(\w+)\)?$', r'\1', x) for x in txt] == names or \
                    sorted(re.sub(r'^\(?\*?(\w+)\)?$', r'\1', x) for x in txt) == names
            if not good:
                problems.append((bb, 'the running state is set to `%s`' % fmt(e)[:80]))
        if not stores:
            problems.append((0, 'the running state is never updated'))
        if problems:
            rep.bad(rule, key, fb.loc(problems[0][0]), '%s, not to ln_add_exp(state, item): prefix sums after this element are wrong'
                    % problems[0][1])
        else:
            rep.ok(rule, key, fb.loc(stores[0][0]), 'state = ln_add_exp(state, item)')
    rep.floor(rule, 'scan step functions', n, 1)
