"""Rules added after the fourth round of independent seeding and the sixth refactoring round."""
import re
from . import eng_gd, inline
from .mirlib import call_info, strip, strip_casts, fmt, walk
from .poly import poly, pstr


def _is_call(e, suffixes):
    return isinstance(e, tuple) and e[0] == 'call' and (e[3] or e[1]).endswith(tuple(suffixes))


# ------------------------------------------------------------------------------------------------ OB-1 (C10)
def ob1(facts, rep, rule='OB-1'):
    rep.rule(rule, 'output buffer discipline of the path API: FullMatches::path / LazyMatches::path_at produce the forward path '
                   'by reversing what the *_reverse function appended to the caller\'s vector; the reversal must cover exactly '
                   'the appended part - either the vector was cleared by the filling function before the traceback (eager API) '
                   'or only the sub-slice starting at the length observed before the call is reversed (lazy API, "the path is '
                   'added to ops"). Reversing a vector that still holds earlier content scrambles both paths')
    n = 0
    for b0 in facts.body_list:
        if b0.kind == 'Closure' or not b0.path.startswith('pattern_matching::myers::'):
            continue
        if not ((b0.name == 'path' and 'FullMatches' in b0.path) or (b0.name == 'path_at' and 'LazyMatches' in b0.path)):
            continue
        key = '%s|reversal-covers-exactly-the-appended-part' % b0.path
        b = inline.inlined(facts, facts.view(b0), keep=lambda p: '{closure' not in p)
        rep.analysed_body(b)
        revs = [(bb, t) for bb, t in b.calls() if call_info(t) and call_info(t)['fn'].endswith('[T]>::reverse')]
        fills = [(bb, t) for bb, t in b.calls() if call_info(t) and call_info(t)['fn'].rsplit('::', 1)[-1] in
                 ('path_reverse', 'path_at_reverse')]
        if not revs or len(fills) != 1:
            # a forward path built without reversal (e.g. collected in order) has nothing to check here
            if not fills:
                rep.missing(rule, key, 'neither a reversal nor a call of the *_reverse filling function found')
            else:
                n += 1
                rep.ok(rule, key, '%s:%s' % (b.file, b.line), 'no reversal of the caller\'s vector')
            continue
        n += 1
        fbb, ft = fills[0]
        callee = facts.bodies.get(call_info(ft).get('res') or call_info(ft)['fn'])
        bad = None
        for bb, t in revs:
            e = strip(b.expr_operand(t['args'][0], inline_user=True))
            if _is_call(e, ('index_mut',)) and len(e[2]) == 2:
                rng = strip(e[2][1])
                start = strip(rng[3][0]) if rng[0] == 'agg' and 'RangeFrom' in str(rng[2]) and rng[3] else None
                lens = [x for x, tt in b.calls() if call_info(tt) and call_info(tt)['fn'].endswith('Vec::<T, A>::len')]
                if start is not None and _is_call(start, ('::len',)) and fmt(strip(start[2][0])) == fmt(strip(e[2][0])) and \
                        any(b.dominates(x, fbb) and x != fbb for x in lens):
                    continue
                bad = (bb, 'a sub-slice `%s` is reversed that does not start at the length the vector had before the path '
                           'was appended' % fmt(e)[:100])
                break
            # whole vector: the filling function must clear it before the traceback writes into it
            cleared = any(b.dominates(x, fbb) and x != fbb for x, tt in b.calls()
                          if call_info(tt) and call_info(tt)['fn'].endswith('Vec::<T, A>::clear'))
            if not cleared and callee is not None:
                cv = facts.view(callee)
                clears = [x for x, tt in cv.calls() if call_info(tt) and call_info(tt)['fn'].endswith('Vec::<T, A>::clear')]
                tbs = [x for x, tt in cv.calls() if call_info(tt) and 'Traceback' in call_info(tt)['fn']]
                cleared = bool(clears) and bool(tbs) and all(any(cv.dominates(c, x) for c in clears) for x in tbs)
            if not cleared:
                bad = (bb, 'the whole vector is reversed although %s does not clear it first: a vector that already holds '
                           'operations (a second query with the same buffer) ends up with both paths scrambled'
                       % call_info(ft)['fn'].rsplit('::', 1)[-1])
                break
        if bad:
            rep.bad(rule, key, b.loc(bad[0]), bad[1])
        else:
            rep.ok(rule, key, b.loc(revs[0][0]), 'reversal limited to the appended part')
    rep.floor(rule, 'forward-path functions', n, 4)
