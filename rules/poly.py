"""tiny symbolic polynomial normaliser: MIR integer expressions (Add/Sub/Mul with overflow variants, casts, constants,
opaque atoms) are brought to a canonical sum of monomials, so that rules compare index arithmetic up to algebraic
rewriting instead of syntactically."""
from .mirlib import strip_casts, fmt


def poly(e, atom=None):
    """dict: frozenset-multiset of atoms (tuple sorted) -> integer coefficient"""
    e = strip_casts(e)
    k = e[0]
    if k == 'field' and e[2] == '0' and isinstance(e[1], tuple) and e[1][0] == 'bin' and e[1][1].endswith('WithOverflow'):
        return poly(e[1], atom)
    # payload of a successful checked operation: (a.checked_add(b) as Some).0, also through `?`
    if k == 'field' and str(e[2]) == '0' and isinstance(e[1], tuple) and e[1][0] == 'downcast' and e[1][2] in ('Some', 'Continue'):
        c = strip_casts(e[1][1])
        if c[0] == 'call' and c[1].endswith('Try>::branch') and len(c[2]) == 1:
            c = strip_casts(c[2][0])
        if c[0] == 'call' and len(c[2]) == 2 and (c[1] or '').rsplit('::', 1)[-1] in ('checked_add', 'checked_sub', 'checked_mul'):
            op = {'checked_add': 'Add', 'checked_sub': 'Sub', 'checked_mul': 'Mul'}[c[1].rsplit('::', 1)[-1]]
            return poly(('bin', op, c[2][0], c[2][1]), atom)
    if k == 'const' and isinstance(e[1], int):
        return {(): e[1]} if e[1] != 0 else {}
    if k == 'bin':
        op = e[1].replace('WithOverflow', '').replace('Unchecked', '')
        if op in ('Add', 'Sub'):
            a, b = poly(e[2], atom), poly(e[3], atom)
            out = dict(a)
            for m, c in b.items():
                out[m] = out.get(m, 0) + (c if op == 'Add' else -c)
            return {m: c for m, c in out.items() if c != 0}
        if op == 'Mul':
            a, b = poly(e[2], atom), poly(e[3], atom)
            out = {}
            for m1, c1 in a.items():
                for m2, c2 in b.items():
                    m = tuple(sorted(m1 + m2))
                    out[m] = out.get(m, 0) + c1 * c2
            return {m: c for m, c in out.items() if c != 0}
    if k == 'call' and len(e[2]) == 2 and (e[1] or '').rsplit('::', 1)[-1] in ('wrapping_add', 'wrapping_sub', 'wrapping_mul'):
        # modular arithmetic: the same ring operations (used for injectivity / agreement arguments, not for bounds)
        op = {'wrapping_add': 'Add', 'wrapping_sub': 'Sub', 'wrapping_mul': 'Mul'}[e[1].rsplit('::', 1)[-1]]
        return poly(('bin', op, e[2][0], e[2][1]), atom)
    name = atom(e) if atom else None
    if name is None:
        name = fmt(e)
    return {(name,): 1}


def pstr(p):
    if not p:
        return '0'
    parts = []
    for m in sorted(p):
        c = p[m]
        mon = '*'.join(m)
        if not mon:
            parts.append(str(c))
        elif c == 1:
            parts.append(mon)
        else:
            parts.append('%d*%s' % (c, mon))
    return ' + '.join(parts)
