"""Rules added after the fifth round of independent seeding."""
import re
from . import eng_gd, inline
from .mirlib import call_info, strip, strip_casts, fmt, walk
from .poly import poly, pstr


def _keep_none(path):
    return False


def _keep_scoring_clone(path):
    return 'Scoring' in path and path.endswith('::clone')


# ------------------------------------------------------------------------------------------------ TB-14 (C20)
def tb14(facts, rep, rule='TB-14'):
    rep.rule(rule, 'alphabet set operations follow their names: Alphabet::{union, intersection, difference} build the result from '
                   'the bit-set operation of the same name applied to (self.symbols, other.symbols) in that order - a sibling '
                   'operation (symmetric_difference for difference) agrees on nested alphabets only')
    n = 0
    for nm in ('union', 'intersection', 'difference'):
        b = facts.method('alphabets::Alphabet', nm)
        key = 'Alphabet::%s|delegates-to-the-same-set-operation' % nm
        if b is None:
            rep.missing(rule, key, 'not found')
            continue
        n += 1
        b = inline.inlined(facts, b, keep=_keep_none, policy=inline.new_function_policy)
        rep.analysed_body(b)
        ops = []
        for bb, t in b.calls():
            info = call_info(t)
            if info and ('BitSet' in info['fn'] or 'bit_set' in info['fn']) and info['fn'].rsplit('::', 1)[-1] in (
                    'union', 'intersection', 'difference', 'symmetric_difference', 'union_with', 'intersect_with',
                    'difference_with', 'symmetric_difference_with'):
                roots = b.param_roots()
                args = []
                for a in t['args']:
                    pl = a.get('m') or a.get('c')
                    r = roots[pl['l']] & {1, 2} if pl is not None else set()
                    args.append('self' if r == {1} else 'other' if r == {2} else 'mixed%s' % sorted(r))
                ops.append((bb, info['fn'].rsplit('::', 1)[-1], args))
        want = {'union': ('union', 'union_with'), 'intersection': ('intersection', 'intersect_with'),
                'difference': ('difference', 'difference_with')}[nm]
        if len(ops) != 1:
            rep.bad(rule, key, '%s:%s' % (b.file, b.line), 'expected exactly one bit-set operation, found %s' % [o[1] for o in ops])
        elif ops[0][1] not in want:
            rep.bad(rule, key, b.loc(ops[0][0]), 'Alphabet::%s is computed with BitSet::%s: the result contains / lacks symbols '
                                                 'whenever neither alphabet contains the other' % (nm, ops[0][1]))
        elif len(ops[0][2]) == 2 and nm == 'difference' and not (
                ops[0][2] == ['self', 'other'] or (ops[0][1].endswith('_with') and ops[0][2][1] == 'other' and ops[0][2][0] != 'other')):
            rep.bad(rule, key, b.loc(ops[0][0]), 'difference is taken as (%s) - (%s), expected self - other' % tuple(ops[0][2]))
        else:
            rep.ok(rule, key, b.loc(ops[0][0]), 'BitSet::%s' % ops[0][1])
    rep.floor(rule, 'set operations', n, 3)


# ------------------------------------------------------------------------------------------------ DL-1 (C09)
def dl1(facts, rep, rule='DL-1'):
    rep.rule(rule, 'delegation table of alignment::distance::simd: each function hands its work only to functions of the external '
                   'crate that compute the same metric (hamming -> hamming*, levenshtein / bounded_levenshtein -> levenshtein*); '
                   'a sibling metric with the same signature (Damerau / restricted Damerau, Hamming for Levenshtein) returns '
                   'different distances on inputs with transpositions')
    n = 0
    for nm, allowed in (('hamming', ('hamming',)), ('levenshtein', ('levenshtein',)), ('bounded_levenshtein', ('levenshtein', 'edit_distance'))):
        b = facts.body('alignment::distance::simd::' + nm)
        key = 'distance::simd::%s|delegates-to-the-same-metric' % nm
        if b is None:
            rep.missing(rule, key, 'not found')
            continue
        n += 1
        rep.analysed_body(b)
        ext = []
        for fb in facts.family(b):
            for bb, t in fb.calls():
                info = call_info(t)
                if info and info.get('crate') in ('triple_accel', 'editdistancek'):
                    ext.append((fb, bb, info['fn']))
        metric = [x for x in ext if re.search(r'hamming|levenshtein|damerau|search|distance', x[2].rsplit('::', 1)[-1]) and x[2].rsplit('::', 1)[-1] not in ('new',)]
        wrong = [x for x in metric if not any(a in x[2].rsplit('::', 1)[-1] for a in allowed) or 'damerau' in x[2].rsplit('::', 1)[-1]]
        if not metric:
            rep.bad(rule, key, '%s:%s' % (b.file, b.line), 'no call into the delegated crates (triple_accel / editdistancek) found')
        elif wrong:
            rep.bad(rule, key, wrong[0][0].loc(wrong[0][1]), '%s is computed by `%s`, which is a different metric' % (nm, wrong[0][2]))
        else:
            rep.ok(rule, key, metric[0][0].loc(metric[0][1]), metric[0][2].rsplit('::', 1)[-1])
    rep.floor(rule, 'simd distance functions', n, 3)


# ------------------------------------------------------------------------------------------------ MM-1 (C13)
def mm1(facts, rep, rule='MM-1'):
    rep.rule(rule, 'GFF attributes accumulate: gff::Records::next stores every key/value pair it parses with MultiMap::insert '
                   '(or insert_many); first-wins entry APIs (entry().or_insert / or_insert_vec) drop the values of a key that '
                   'is repeated in the column - which is how the writer emits multi-valued keys')
    nxt = facts.method('io::gff::Records', 'next', 'Iterator')
    key = 'gff::Records::next|attributes-are-accumulated'
    if nxt is None:
        rep.missing(rule, key, 'not found')
        return
    ins, first_wins = [], []
    for fb in facts.family(nxt):
        rep.analysed_body(fb)
        for bb, t in fb.calls():
            info = call_info(t)
            if not info or 'multimap' not in info['fn'].lower():
                continue
            last = info['fn'].rsplit('::', 1)[-1]
            if last in ('insert', 'insert_many', 'insert_many_from_slice'):
                ins.append((fb, bb))
            elif last in ('or_insert', 'or_insert_vec', 'entry'):
                first_wins.append((fb, bb, last))
    if first_wins:
        rep.bad(rule, key, first_wins[0][0].loc(first_wins[0][1]), 'attributes are stored through MultiMap::%s: only the first '
                                                                    'occurrence of a repeated key survives' % first_wins[0][2])
    elif not ins:
        rep.missing(rule, key, 'no MultiMap::insert found in Records::next')
    else:
        rep.ok(rule, key, ins[0][0].loc(ins[0][1]), 'MultiMap::insert')


# ------------------------------------------------------------------------------------------------ TB-4c (C13)
def tb4c(facts, rep, rule='TB-4'):
    """no csv reader of bed.rs / gff.rs trims or re-quotes fields"""
    n = 0
    for b0 in facts.body_list:
        if not b0.path.startswith(('io::bed::', 'io::gff::', '<io::bed::', '<io::gff::')) or '::tests' in b0.path:
            continue
        b = facts.view(b0)
        for bb, t in b.calls():
            info = call_info(t)
            if not info or info.get('crate') != 'csv' or 'ReaderBuilder' not in info['fn']:
                continue
            last = info['fn'].rsplit('::', 1)[-1]
            if last == 'new':
                n += 1
            if last == 'trim' and len(t['args']) >= 2:
                e = strip(b.expr_operand(t['args'][1], inline_user=True))
                txt = fmt(e)
                if 'None' not in txt:
                    rep.bad(rule, '%s|csv-fields-not-trimmed' % b.path, b.loc(bb), 'the csv reader trims fields (%s): names, scores and '
                                                                                   'attribute values that begin or end with a blank are '
                                                                                   'read back changed' % txt[:40])
    rep.floor(rule, 'csv reader construction sites (trim)', n, 2)


# ------------------------------------------------------------------------------------------------ AO-3 (C14)
def ao3(facts, rep, rule='AO-3'):
    rep.rule(rule, 'forwarding constructors of the HMM models pass their parameters on in order: in every with_prob / with_float '
                   'the k-th argument of the call of Model::new is derived (data provenance) from the k-th parameter only - '
                   'two parameters of the same type (initial and end probabilities) are otherwise silently swapped')
    n = 0
    for b0 in facts.body_list:
        if b0.kind == 'Closure' or not b0.path.startswith('stats::hmm::') or b0.name not in ('with_prob', 'with_float'):
            continue
        b = facts.view(b0)
        rep.analysed_body(b)
        roots = b.param_roots()
        params = set(range(1, b.arg_count + 1))
        for bb, t in b.calls():
            info = call_info(t)
            if not info or info['fn'].rsplit('::', 1)[-1] != 'new' or 'Model' not in info['fn'] or len(t['args']) < b.arg_count:
                continue
            n += 1
            key = '%s|arguments-forwarded-in-order' % b.path
            wrong = []
            for i, a in enumerate(t['args'][:b.arg_count]):
                pl = a.get('m') or a.get('c')
                r = roots[pl['l']] & params if pl is not None else set()
                # (a default built from another parameter's dimension may flow in as well: end = end.unwrap_or(ones(initial.dim())))
                if (i + 1) not in r:
                    wrong.append((i + 1, sorted(r)))
            if wrong:
                rep.bad(rule, key, b.loc(bb), 'argument %d of Model::new is derived from parameter(s) %s of %s' % (
                    wrong[0][0], wrong[0][1], b.name))
            else:
                rep.ok(rule, key, b.loc(bb), '%d arguments in order' % len(t['args']))
    rep.floor(rule, 'forwarding constructors', n, 6)


def upvar_interval_fn(facts):
    """interval of a closure's captured variable = interval of the captured operand at the closure literal of the parent"""
    from . import eng_po
    cache = {}

    def f(cb, o):
        if cb.kind != 'Closure':
            return None
        e = fmt(strip(cb.expr_operand(o, inline_user=True)))
        m = re.fullmatch(r'\(?\*?\(?_1\.\^(\w+)\)?\)?|arg1\.\^(\w+)', e)
        if not m:
            return None
        name = m.group(1) or m.group(2)
        ups = [u.get('name') for u in (cb.raw.get('upvars') or [])]
        if name not in ups:
            return None
        k = ups.index(name)
        pb = facts.bodies.get(cb.raw.get('parent') or cb.raw.get('root'))
        if pb is None:
            return None
        pv = facts.view(pb)
        if pv.path not in cache:
            cache[pv.path] = eng_po.Intervals(pv, facts).run()
        ia = cache[pv.path]
        for bb in sorted(pv.reachable(0)):
            for i, st in enumerate(pv.stmts(bb)):
                if st['k'] == 'assign' and st['r'].get('k') == 'agg' and st['r'].get('ak') == 'closure' and \
                        st['r'].get('closure') == cb.path and k < len(st['r']['ops']) and bb in ia.instates:
                    state = ia.copy_state(ia.instates[bb])
                    for j, s2 in enumerate(pv.stmts(bb)[:i]):
                        ia.transfer_stmt(state, bb, j, s2)
                    op = st['r']['ops'][k]
                    v = ia.operand(state, op)
                    pl = op.get('m') or op.get('c')
                    if pl is not None and (pv.locals[pl['l']]['ty'].startswith('&')):
                        # captured by reference: the interval of the referent
                        for bb2 in sorted(pv.reachable(0)):
                            for i2, s3 in enumerate(pv.stmts(bb2)):
                                if s3['k'] == 'assign' and s3['p']['l'] == pl['l'] and not s3['p'].get('pj') and s3['r']['k'] == 'ref' \
                                        and not s3['r']['p'].get('pj') and bb2 in ia.instates:
                                    st2 = ia.copy_state(ia.instates[bb2])
                                    for j, s4 in enumerate(pv.stmts(bb2)[:i2]):
                                        ia.transfer_stmt(st2, bb2, j, s4)
                                    return ia.operand(st2, {'c': {'l': s3['r']['p']['l']}})
                        return None
                    return v
        return None
    return f


# ------------------------------------------------------------------------------------------------ NC-3 (C20)
def nc3(facts, rep, rule='NC-3'):
    from . import eng_po
    from .round2 import narrowing_casts
    rep.rule(rule, 'value-changing integer casts in the ORF finder (narrowing `as`, signed <-> unsigned) are all discharged by '
                   'interval analysis: the frame offset is cast to i8 only after it was reduced modulo 3; casting a position '
                   'first and reducing afterwards reports negative / wrong offsets beyond position 127')
    n = 0
    for b in facts.body_list:
        if not b.path.startswith(('seq_analysis::orf', '<seq_analysis::orf')) or '::tests::' in b.path:
            continue
        v = facts.view(b)
        if not any(s['k'] == 'assign' and s['r']['k'] == 'cast' for bb in v.reachable(0) for s in v.stmts(bb)):
            continue
        for c in narrowing_casts(v, eng_po.Intervals(v, facts).run(), upvar_interval=upvar_interval_fn(facts)):
            n += 1
            key = '%s|%s->%s' % (b.path, c['from'], c['to'])
            rep.analysed_body(v)
            if c['discharged']:
                rep.ok(rule, key, c['where'], 'operand interval fits the target type')
            else:
                rep.bad(rule, key, c['where'], 'the value `%s` is cast from %s to %s and may not fit' % (c['ops'][:120], c['from'], c['to']))
    rep.floor(rule, 'value-changing casts', n, 1)


# ------------------------------------------------------------------------------------------------ SB-12 (C19)
def sb12(facts, rep, rule='SB-12'):
    rep.rule(rule, 'sibling agreement of the k-mer scanners: hash_kmers, find_kmer_matches_seq1_hashed and '
                   'find_kmer_matches_seq2_hashed enumerate the windows of the sequence they scan with the same bound and the same '
                   'guards (compared after renaming the scanned sequence and k): a guard that is `<` in two of them and `<=` in '
                   'the third makes that flavour skip a sequence of exactly k symbols')
    sigs = {}
    for nm in ('hash_kmers', 'find_kmer_matches_seq1_hashed', 'find_kmer_matches_seq2_hashed'):
        b = facts.body('alignment::sparse::' + nm)
        if b is None:
            rep.missing(rule, 'sparse::%s|window-bound' % nm, 'not found')
            continue
        rep.analysed_body(b)
        # parameters: the scanned slice is the &[u8] parameter, k the usize one
        sl = [l for l in range(1, b.arg_count + 1) if b.locals[l]['ty'].replace(' ', '') in ('&[u8]',)]
        kk = [l for l in range(1, b.arg_count + 1) if b.locals[l]['ty'] == 'usize']
        ren = {}
        for l in sl:
            ren[b.local_name(l) or '_%d' % l] = 'S'
        for l in kk:
            ren[b.local_name(l) or '_%d' % l] = 'K'

        def canon(txt):
            return re.sub(r'\b(%s)\b' % '|'.join(re.escape(x) for x in ren) if ren else r'$^', lambda m: ren[m.group(1)], txt)
        items = set()
        for bb in sorted(b.reachable(0)):
            for s in b.stmts(bb):
                if s['k'] == 'assign' and s['r']['k'] == 'agg' and str(s['r'].get('adt', '')).endswith(('ops::Range', 'ops::RangeInclusive')):
                    e = [pstr(poly(b.expr_operand(o, inline_user=True))) for o in s['r']['ops']]
                    items.add('range ' + canon(' .. '.join(e)))
            t = b.term(bb)
            if t['k'] == 'call' and call_info(t) and call_info(t)['fn'].endswith('RangeInclusive::<Idx>::new'):
                e = [pstr(poly(b.expr_operand(o, inline_user=True))) for o in t['args']]
                items.add('range= ' + canon(' ..= '.join(e)))
        for g in eng_gd.guards(b):
            c = g['cmp_true']
            if c and c[0] in ('Lt', 'Le', 'Eq', 'Ne') and 'len(' in (c[1] + c[2]):
                items.add('guard ' + canon('%s(%s, %s)' % c))
        sigs[nm] = (b, items)
    if len(sigs) == 3:
        ref = sigs['hash_kmers'][1]
        for nm, (b, items) in sigs.items():
            key = 'sparse::%s|window-bound-agrees-with-siblings' % nm
            if items == ref and any(i.startswith('range') for i in items):
                rep.ok(rule, key, '%s:%s' % (b.file, b.line), '; '.join(sorted(items))[:100])
            else:
                rep.bad(rule, key, '%s:%s' % (b.file, b.line), 'enumerates its windows with {%s}, hash_kmers with {%s}: one flavour '
                                                               'misses k-mers the others find' % (
                            '; '.join(sorted(items - ref))[:100] or '-', '; '.join(sorted(ref - items))[:100] or '-'))
    rep.floor(rule, 'k-mer scanners', len(sigs), 3)


# ------------------------------------------------------------------------------------------------ SB-5c (C18)
def sb5c(facts, rep, rule='SB-5'):
    """big values are resolved by position everywhere"""
    n = 0
    for b0 in facts.body_list:
        if not b0.path.startswith(('data_structures::smallints::', '<data_structures::smallints::')) or '::tests' in b0.path:
            continue
        if 'serde' in b0.path or 'Deserialize' in b0.path or 'Serialize' in b0.path or b0.name in ('fmt', 'clone', 'eq', 'hash', 'cmp', 'partial_cmp', 'default'):
            continue
        b = facts.view(b0)
        for bb, t in b.calls():
            info = call_info(t)
            if not info or 'BTreeMap' not in info['fn'] and 'btree' not in info['fn']:
                continue
            n += 1
            last = info['fn'].rsplit('::', 1)[-1]
            key = '%s|big-values-resolved-by-position' % b.path
            if last in ('values', 'values_mut', 'iter', 'iter_mut', 'into_iter', 'into_values', 'range', 'first_key_value',
                        'last_key_value', 'pop_first', 'pop_last', 'keys'):
                rep.analysed_body(b)
                rep.bad(rule, key, b.loc(bb), 'the side table of big values is traversed with BTreeMap::%s instead of being looked up '
                                              'by position: entries left behind by set(i, small) shift every later big value' % last)
            else:
                rep.ok(rule, key + '@' + last, b.loc(bb), 'BTreeMap::%s' % last)
    rep.floor(rule, 'uses of the big-value table', n, 3)


# ------------------------------------------------------------------------------------------------ TB-5b (C15)
def tb5b(facts, rep, rule='TB-5'):
    """Prob -> PHRED is -10 log10(p) of the unmodified probability"""
    key = 'PHREDProb::from(Prob)|is -10*log10(p)'
    b = None
    for x in facts.body_list:
        if x.name == 'from' and 'From<stats::probs::Prob>' in x.path and 'PHREDProb' in x.path:
            b = facts.view(x)
    if b is None:
        rep.missing(rule, key, 'impl From<Prob> for PHREDProb not found')
        return
    b = inline.inlined(facts, b, keep=_keep_none, policy=inline.new_function_policy)
    rep.analysed_body(b)
    logs = []
    for bb, t in b.calls():
        info = call_info(t)
        if info and info['fn'].rsplit('::', 1)[-1] in ('log10', 'ln', 'log2', 'log', 'max', 'min', 'clamp'):
            logs.append((bb, info['fn'].rsplit('::', 1)[-1], [fmt(strip(b.expr_operand(a, inline_user=True))) for a in t['args']]))
    l10 = [x for x in logs if x[1] == 'log10']
    others = [x for x in logs if x[1] in ('max', 'min', 'clamp')]
    def plain_param(txt):
        # the parameter itself, its payload or a dereference of it - however the parameter is named or destructured
        t = txt.replace(' ', '')
        t = re.sub(r'^Deref>::deref\((.*)\)$', r'\1', t)
        t = t.strip('()*')
        t = re.sub(r'\.0$', '', t).strip('()*')
        return bool(re.fullmatch(r'_1|arg1|[A-Za-z_]\w*', t)) and '(' not in t
    if len(l10) == 1 and not others and plain_param(l10[0][2][0]):
        rep.ok(rule, key, b.loc(l10[0][0]), 'log10 of the probability itself')
    else:
        rep.bad(rule, key, '%s:%s' % (b.file, b.line), 'the conversion is not -10 * log10 of the unmodified probability (calls: %s): '
                                                       'clamped / rescaled probabilities do not convert back' % [(x[1], x[2]) for x in logs][:3])


# ------------------------------------------------------------------------------------------------ EF-10 (C12)
def ef10(facts, rep, rule='EF-10'):
    from . import effects
    rep.rule(rule, 'reading does not consume the fetch: IndexedReader::{read, read_iter} (and the read_into_* workers) never write '
                   'the fetch state (fetched_idx, start, stop) - a read that fails (transient I/O error, truncated file) can be '
                   'repeated, and a successful one leaves the fetch in force, as documented')
    eff = effects.Effects(facts)
    n = 0
    for nm in ('read', 'read_iter', 'read_into_buffer', 'read_into_iter'):
        b = facts.method('io::fasta::IndexedReader', nm)
        if b is None:
            if nm in ('read', 'read_iter'):
                rep.missing(rule, 'IndexedReader::%s|fetch-state-not-written' % nm, 'not found')
            continue
        n += 1
        rep.analysed_body(b)
        key = 'IndexedReader::%s|fetch-state-not-written' % nm
        written = set()
        for p in eff.param_writes(b, 1):
            c = effects.clean(p)
            if c:
                written.add(c[0])
        hit = sorted(written & {'fetched_idx', 'start', 'stop'})
        if hit:
            rep.bad(rule, key, '%s:%s' % (b.file, b.line), '%s() writes self.%s: after a failed read the fetch is lost (or changed) and '
                                                           'the call cannot be repeated' % (nm, ', self.'.join(hit)))
        else:
            rep.ok(rule, key, '%s:%s' % (b.file, b.line), 'writes only %s' % (sorted(written) or 'nothing'))
    rep.floor(rule, 'read entry points', n, 2)


# ------------------------------------------------------------------------------------------------ TS-13 (C07)
def ts13(facts, rep, rule='TS-13'):
    rep.rule(rule, 'running maximum of Node::update_max: max is (re)started from the node\'s own interval end and every later '
                   'replacement `acc = child.max` happens on the edge where the *accumulator itself* compares smaller than that '
                   'child\'s max - comparing the candidate with anything else (the own end again) under-estimates max whenever '
                   'the left subtree reaches further than the right one, and find() prunes on max')
    b = facts.method('data_structures::interval_tree::avl_interval_tree::Node', 'update_max')
    key = 'Node::update_max|each-candidate-compared-with-the-accumulator'
    if b is None:
        rep.missing(rule, key, 'not found')
        return
    rep.analysed_body(b)
    # guards that compare something with a child's max
    n = 0
    bad = None
    for g in eng_gd.guards(b):
        for c, tgt in ((g['cmp_true'], g['t']), (g['cmp_false'], g['f'])):
            if not c or c[0] not in ('Lt', 'Le'):
                continue
            lo, hi = c[1], c[2]
            if not hi.endswith('.max') or 'self.max' == hi:
                continue
            # stores behind this edge
            reg = [x for x in sorted(b.reachable(0)) if b.edge_dominates((g['bb'], tgt), x)]
            stores = []
            for bb in reg:
                for s in b.stmts(bb):
                    if s['k'] == 'assign' and s['p'].get('pj'):
                        nmz = [el.get('n') for el in s['p']['pj'] if isinstance(el, dict)]
                        if nmz and nmz[-1] == 'max' and s['p']['l'] == 1:
                            stores.append('self.max')
                    elif s['k'] == 'assign' and not s['p'].get('pj') and b.is_user(s['p']['l']) and len(b.defs()[0].get(s['p']['l'], [])) > 1:
                        stores.append(b.local_name(s['p']['l']))
            if not stores:
                continue
            n += 1
            acc = stores[0]
            lo0 = re.sub(r'^Deref>::deref\((.*)\)$', r'\1', lo).lstrip('*(').rstrip(')')
            if lo0 != acc and lo != acc:
                bad = (g['bb'], lo, hi, acc)
    if n == 0:
        rep.missing(rule, key, 'no guarded replacement of the running maximum found')
    elif bad:
        rep.bad(rule, key, b.loc(bad[0]), '`%s` replaces the running maximum `%s` on the edge `%s < %s`: the candidate is not compared '
                                          'with the accumulator' % (bad[2], bad[3], bad[1], bad[2]))
    else:
        rep.ok(rule, key, '%s:%s' % (b.file, b.line), '%d guarded replacements, each `acc < child.max`' % n)


# ------------------------------------------------------------------------------------------------ CL-1 (C01, C02)
def cl1(facts, rep, types, rule='CL-1'):
    rep.rule(rule, 'a cloned aligner aligns like the original: <Aligner as Clone>::clone produces an aligner whose `scoring` is '
                   'the clone of self.scoring (derived Clone, or a hand-written one that copies it). A clone rebuilt through a '
                   'convenience constructor (Scoring::new) silently resets the four clip penalties to "forbidden"')
    n = 0
    for ty in types:
        b0 = None
        for x in facts.body_list:
            if x.name == 'clone' and x.kind != 'Closure' and re.match(r'<%s<.*> as std::clone::Clone>::clone$' % re.escape(ty), x.path):
                b0 = x
        key = '%s::clone|scoring-is-copied' % ty
        if b0 is None:
            rep.missing(rule, key, 'Clone impl not found')
            continue
        n += 1
        b = inline.inlined(facts, b0, keep=_keep_scoring_clone, policy=inline.new_function_policy)
        rep.analysed_body(b)
        aggs = []
        for bb in sorted(b.reachable(0)):
            for s in b.stmts(bb):
                if s['k'] == 'assign' and s['r']['k'] == 'agg' and str(s['r'].get('adt', '')).endswith(ty.rsplit('::', 1)[-1]) and \
                        'scoring' in (s['r'].get('fields') or []):
                    o = s['r']['ops'][s['r']['fields'].index('scoring')]
                    aggs.append((bb, fmt(strip(b.expr_operand(o, inline_user=True)))))
        good = [a for a in aggs if re.search(r'clone\(.*self\.scoring\)|^self\.scoring$', a[1])]
        if aggs and len(good) == len(aggs):
            rep.ok(rule, key, b.loc(aggs[0][0]), 'scoring: %s' % aggs[0][1][:60])
        elif not aggs:
            rep.bad(rule, key, '%s:%s' % (b.file, b.line), 'no Aligner value with a `scoring` field is built in clone()')
        else:
            w = [a for a in aggs if a not in good][0]
            rep.bad(rule, key, b.loc(w[0]), 'the clone\'s scoring is `%s`, not a copy of self.scoring: clip penalties (and anything else '
                                            'the constructor defaults) differ from the original' % w[1][:90])
    rep.floor(rule, 'aligner Clone impls', n, len(types))


# ------------------------------------------------------------------------------------------------ CF-2 (several)
_FOLD = ('to_ascii_uppercase', 'to_ascii_lowercase', 'eq_ignore_ascii_case', 'make_ascii_uppercase', 'make_ascii_lowercase',
         'to_uppercase', 'to_lowercase')


def cf2(facts, rep, prefixes, floor, rule='CF-2'):
    rep.rule(rule, 'symbols are bytes and are compared as they are: no function of the listed modules folds ASCII case '
                   '(to_ascii_uppercase / eq_ignore_ascii_case / ...). The library documents exact byte semantics (soft-masked '
                   'lower-case bases are different symbols); a comparison that folds case on one side only - or at all - makes '
                   'Match/Subst labels, node reuse, codon tests or occurrences disagree with the definition')
    n = 0
    hits = []
    for b in facts.body_list:
        if not b.path.startswith(tuple(prefixes)) and not b.path.startswith(tuple('<' + p for p in prefixes)):
            continue
        if '::tests' in b.path or '::test' in b.path.split('::')[-1:]:
            continue
        n += 1
        for bb, t in b.calls():
            info = call_info(t)
            if info and info['fn'].rsplit('::', 1)[-1] in _FOLD:
                hits.append((b, bb, info['fn']))
    key = 'no-case-folding|%s' % ','.join(p.rstrip(':') for p in prefixes)
    if hits:
        rep.analysed_body(hits[0][0])
        rep.bad(rule, key, hits[0][0].loc(hits[0][1]), '%s calls %s: symbols that differ only in case are treated as equal here but '
                                                        'not elsewhere' % (hits[0][0].path[:80], hits[0][2].rsplit('::', 1)[-1]))
    else:
        rep.ok(rule, key, '-', '%d bodies, none folds case' % n)
    rep.floor(rule, 'bodies scanned for case folding', n, floor)
